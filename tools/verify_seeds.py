#!/usr/bin/env python3
"""Verify candidate seeded changes produced by sub-agents and file the good ones under /verif/seeded/.

usage: verify_seeds.py <worker-id> <prop-id>...     (each worker uses its own scratch worktree /tmp/seedverify<worker>)
For every /tmp/seed/<prop>/seed_{A,B}.diff:
  1. demo test passes on the unchanged tree;  2. with the patch the crate builds and exactly the 71 baseline tests
  pass (the always-failing test_to_serde_json is ignored);  3. the demo fails with the patch."""
import json, os, re, shutil, subprocess, sys

BASE = json.load(open('/root/.vp/BASELINE.json'))
STABLE = set(n.replace('jsonb::it::', '').replace('jsonb::', '') for n in BASE['stable_pass'])

def sh(cmd, cwd, timeout=1800):
    r = subprocess.run(cmd, cwd=cwd, shell=True, stdout=subprocess.PIPE, stderr=subprocess.STDOUT, text=True, timeout=timeout,
                       env=dict(os.environ, CARGO_NET_OFFLINE='true'))
    return r.returncode, r.stdout

def suite(wt):
    rc, out = sh('cargo test --offline --no-fail-fast --lib --test it 2>&1', wt)
    ok = set(re.findall(r'^test (\S+) \.\.\. ok$', out, re.M))
    failed = set(re.findall(r'^test (\S+) \.\.\. FAILED$', out, re.M))
    return ok, failed, out

def main():
    worker = sys.argv[1]
    props = sys.argv[2:]
    wt = f'/tmp/seedverify{worker}'
    if not os.path.exists(wt):
        subprocess.check_call(['git', '-C', '/repo', 'worktree', 'add', '-q', '--detach', wt, 'HEAD'])
        warm = os.environ.get('SEED_WARM_TARGET')
        if warm and os.path.isdir(warm):
            shutil.move(warm, wt + '/target')
        else:
            shutil.copytree('/repo/target', wt + '/target', dirs_exist_ok=True)
    results = []
    for pid in props:
        for x in os.environ.get('SEED_LETTERS', 'AB'):
            src = os.environ.get('SEED_SRC', '/tmp/seed') + f'/{pid}'
            diff = f'{src}/seed_{x}.diff'
            demo = f'{src}/tests/seed_{x}.rs'
            if not (os.path.exists(diff) and os.path.exists(demo)):
                results.append({'id': f'{pid}-{x}', 'ok': False, 'why': 'missing files'})
                continue
            sh('git checkout -q -- . && git clean -fdq tests src', wt)
            shutil.copy(demo, f'{wt}/tests/seed_{x}.rs')
            rc0, out0 = sh(f'cargo test --offline --test seed_{x} 2>&1', wt)
            demo_clean_ok = rc0 == 0 and 'test result: ok' in out0
            rc, out = sh(f'git apply {diff}', wt)
            if rc != 0:
                results.append({'id': f'{pid}-{x}', 'ok': False, 'why': 'patch does not apply: ' + out[-300:]})
                continue
            ok, failed, sout = suite(wt)
            builds = 'error: could not compile' not in sout
            missing = sorted(n for n in STABLE if n.split('::', 0)[0] and n not in ok and ('tests::' + n.split('tests::')[-1]) not in ok and n not in {o for o in ok})
            # names: unit tests appear as builder::tests::..., integration tests as functions::...
            missing = sorted(n for n in STABLE if n not in ok)
            extra_failed = sorted(f for f in failed if f != 'functions::test_to_serde_json')
            rc1, out1 = sh(f'cargo test --offline --test seed_{x} 2>&1', wt)
            demo_fails = rc1 != 0 and ('FAILED' in out1 or 'panicked' in out1) and 'could not compile' not in out1
            good = demo_clean_ok and builds and not missing and not extra_failed and demo_fails
            res = {'id': f'{pid}-{x}', 'property': pid, 'ok': good, 'demo_passes_on_clean_tree': demo_clean_ok, 'builds': builds,
                   'baseline_tests_missing': missing, 'other_failures': extra_failed, 'demo_fails_with_patch': demo_fails,
                   'suite_pass_count': len(ok)}
            results.append(res)
            if good:
                dst = f"/verif/seeded/{pid}-{os.environ.get('SEED_PREFIX', '')}{x}"
                os.makedirs(dst, exist_ok=True)
                shutil.copy(diff, f'{dst}/patch.diff')
                shutil.copy(demo, f'{dst}/demo.rs')
                md = f'{src}/seed_{x}.md'
                if os.path.exists(md):
                    shutil.copy(md, f'{dst}/notes.md')
                tail = [l for l in out1.splitlines() if 'panicked' in l or 'assertion' in l or 'test result' in l][:6]
                meta = {'id': f"{pid}-{os.environ.get('SEED_PREFIX', '')}{x}", 'property': pid, 'origin': 'independent sub-agent given only the property text and a scratch worktree',
                        'base_commit': subprocess.check_output(['git', '-C', '/repo', 'rev-parse', '--short', 'HEAD'], text=True).strip(),
                        'needs_to_manifest': 'see notes.md',
                        'ran': [f'cargo test --offline --test seed_{x}   (unchanged tree) -> pass',
                                'git apply patch.diff; cargo test --offline --no-fail-fast --lib --test it -> the 71 baseline tests pass, only test_to_serde_json fails',
                                f'cargo test --offline --test seed_{x}   (patched tree) -> FAIL'],
                        'demo_failure_excerpt': tail, 'verified': res}
                json.dump(meta, open(f'{dst}/meta.json', 'w'), indent=1)
            print(json.dumps(res), flush=True)
    sh('git checkout -q -- . && git clean -fdq tests src', wt)
    json.dump(results, open(f'/tmp/seedverify{worker}.results.json', 'w'), indent=1)

if __name__ == '__main__':
    main()
