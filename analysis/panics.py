"""G8: panic-site inventory of a cone and the provers that discharge the sites.

A *site* is a construct that can panic: MIR Assert terminators (bounds, usize subtraction, division), calls that
panic on a bad argument (unwrap/expect, Index::index with a position or range, copy_from_slice, …) and explicit
panic!/unreachable!/assert! calls.  For every CFG path reaching a site (regions cut at loop heads, callee effects by
lemmas) the safety condition must follow from the branch conditions of that path (interval + zone facts), else the
site is looked up in assume.json (reviewed, one reason per site), else it is a violation."""
import json, os, re
from sym import Explorer, show, lin, subterms, INT_RANGES
from pat import called, canon, is_call, deref_all, strip_casts, agg_variant, try_ok_value
from pathfacts import PathFacts, IntervalSet, INF
from mir import natural_loops
from rules.recursion import panic_kind

VERIF = os.path.dirname(os.path.dirname(os.path.abspath(__file__)))


def load_assume():
    p = os.path.join(VERIF, 'assume.json')
    if not os.path.exists(p):
        return {}
    with open(p) as f:
        return {a['key']: a for a in json.load(f)}


# ---------------------------------------------------------------- term normalisation

LEN_FNS = ('slice::len', 'Vec::len', 'str::len', 'String::len', 'VecDeque::len', 'len')


def base_of(t):
    """The container a length/indexing expression talks about, with reference plumbing removed."""
    t = deref_all(t)
    while True:
        if t[0] == 'call' and called(t[1], 'Deref::deref', 'DerefMut::deref_mut', 'AsRef::as_ref', 'Vec::as_slice', 'Vec::as_mut_slice',
                                     'str::as_bytes', 'String::as_bytes', 'String::as_str', 'Borrow::borrow', 'slice::iter') and t[2]:
            t = deref_all(t[2][0])
            continue
        if t[0] == 'cast' and t[1].startswith('PointerCoercion'):
            t = deref_all(t[2])
            continue
        return t


def _len_of(b):
    """('len', b), or its constant value for array literals: [v; N], [a, b, c], byte-string constants"""
    if b[0] == 'repeat':
        try:
            return ('const', int(b[2]), 'usize')
        except (TypeError, ValueError):
            pass
    if b[0] == 'agg' and b[1] == 'array':
        return ('const', len(b[2]), 'usize')
    if b[0] == 'const' and isinstance(b[1], tuple):
        return ('const', len(b[1]), 'usize')
    return ('len', b)


def norm(t):
    """Rewrite len-like calls to ('len', base) and strip value-preserving plumbing, recursively."""
    if not isinstance(t, tuple) or not t:
        return t
    k = t[0]
    if k == 'call' and called(t[1], *LEN_FNS) and len(t[2]) == 1:
        b0 = base_of(t[2][0])
        from pat import slice_tail1
        if b0[0] == 'field' and b0[1][0] == 'downcast' and b0[1][2] == 'Some' and is_call(b0[1][1], 'slice::get', '::get'):
            return norm_slice_len(b0)
        tl = slice_tail1(b0)
        if tl is not None and not is_call(b0, 'Index::index'):
            return ('bin', 'Sub', _len_of(norm(base_of(tl))), ('const', 1, 'usize'))     # len(s.split_first()?.1) = len(s) - 1
        if is_call(b0, 'Index::index') and len(b0[2]) == 2 and index_ranges(b0[2][1])[0] == 'range':
            return norm_slice_len(b0)      # len(s[a..b]) = b - a
        return _len_of(norm(b0))
    if k == 'len':
        b0 = base_of(t[1])
        if is_call(b0, 'Index::index') and len(b0[2]) == 2 and index_ranges(b0[2][1])[0] == 'range':
            return norm_slice_len(b0)
        if b0[0] == 'field' and b0[1][0] == 'downcast' and b0[1][2] == 'Some' and is_call(b0[1][1], 'slice::get', '::get'):
            return norm_slice_len(b0)
        return _len_of(norm(b0))
    if k == 'bin':
        return ('bin', t[1], norm(t[2]), norm(t[3]))
    if k == 'cast':
        return ('cast', t[1], norm(t[2]), t[3])
    if k == 'un':
        return ('un', t[1], norm(t[2]))
    if k in ('ref', 'deref'):
        return norm(t[1])
    if k == 'loc' and len(t) > 2:
        return norm(t[2])
    if k == 'field':
        return ('field', norm(t[1]), t[2], t[3])
    if k == 'downcast':
        return ('downcast', norm(t[1]), t[2], t[3])
    if k == 'index':
        return ('index', norm(t[1]), norm(t[2]))
    if k == 'call':
        return ('call', t[1], tuple(norm(x) for x in t[2]), t[3])
    if k == 'agg':
        return ('agg', t[1], tuple(norm(x) for x in t[2]))
    if k == 'discr':
        return ('discr', norm(t[1]))
    return t


def norm_conds(conds):
    return [(norm(c[0]), c[1], c[2], c[3] if len(c) > 3 else None) for c in conds]


def nonneg_atom(a):
    """Atoms that denote unsigned quantities."""
    if a[0] == 'len':
        return True
    return False


# ---------------------------------------------------------------- knowledge about Option/Result values on a path

class Knowledge:
    """What the branch conditions of a path prefix say: numeric facts + which Option/Result terms are Some/Ok."""

    def __init__(self, body, conds, lemmas=None, events=None):
        self.body = body
        self.conds = norm_conds(conds)
        self.pf = PathFacts(self.conds, nonneg=self.nonneg, typed=self.typed)
        self.variant = {}     # term -> variant index known (from discriminant switches) / name
        self.truth = {}       # boolean term -> value
        self.some_calls = set()   # (callee, args) known to return Some via a boolean wrapper (is_string => as_str)
        for c in self.conds:
            t, op, val = c[0], c[1], c[2]
            if t[0] == 'discr' and op == 'eq':
                self.variant[t[1]] = val
            if op == 'eq' and isinstance(val, bool):
                self.truth[t] = val
                if t[0] == 'call' and called(t[1], 'Option::is_some', 'Result::is_ok') and t[2]:
                    self.variant[deref_all(t[2][0])] = 1 if (val and called(t[1], 'Option::is_some')) else (0 if called(t[1], 'Result::is_ok') and val else None)
                if t[0] == 'call' and called(t[1], 'Option::is_none', 'Result::is_err') and t[2]:
                    if not val:
                        self.variant[deref_all(t[2][0])] = 1 if called(t[1], 'Option::is_none') else 0
        for c in self.conds:
            self.implications(c)
        if lemmas:
            for lm in lemmas:
                lm(self, events or [])

    def implications(self, c):
        """Facts implied by the outcome of a fallible/boolean std call."""
        t, op, val = c[0], c[1], c[2]
        # success of `?` plumbing: discr(Try::branch(X)) == 0  =>  X is Ok/Some
        if t[0] == 'discr' and op == 'eq':
            x = t[1]
            if is_call(x, 'Try::branch') and val == 0:
                self.success(x[2][0])
            else:
                kind = self.kind_of(x)
                if (kind == 'Option' and val == 1) or (kind == 'Result' and val == 0):
                    self.success(x)
        if op == 'eq' and isinstance(val, bool) and t[0] == 'call' and t[2]:
            if called(t[1], 'slice::is_empty', 'Vec::is_empty', 'str::is_empty', 'String::is_empty', 'VecDeque::is_empty'):
                L = ('len', norm(base_of(t[2][0])))
                if val:
                    self.pf.add_cmp('Eq', L, ('const', 0, 'usize'))
                else:
                    self.pf.add_cmp('Ge', L, ('const', 1, 'usize'))
            elif called(t[1], 'Option::is_some', 'Result::is_ok') and val:
                self.success(deref_all(t[2][0]))
            elif called(t[1], 'Option::is_none', 'Result::is_err') and not val:
                self.success(deref_all(t[2][0]))
            elif t[1] in FACTS_BODIES() and val in (True, False):
                w = bool_wrapper(t[1])
                if w is not None and w[0] == ('is_some' if val else 'is_none'):
                    # F(x) == true  =>  G(x) is Some
                    g = ('call', w[1], t[2], None)
                    self.some_calls.add((w[1], t[2]))

    def success(self, x):
        """x (an Option/Result-valued term) is Some/Ok on this path."""
        x = norm(x)
        self.variant[x] = 1 if self.kind_of(x) == 'Option' else 0
        if x[0] != 'call' or not x[2]:
            return
        n = canon(x[1])
        if n.endswith(('Option::ok_or', 'Result::ok', 'Result::map_err', 'Option::ok_or_else', 'Option::map', 'Result::map', 'Option::copied', 'Option::cloned')):
            self.success(x[2][0])
        elif n.endswith('::get') or n.endswith('::get_mut'):
            base = norm(('len', base_of(x[2][0])))
            ir = index_ranges(x[2][1]) if len(x[2]) > 1 else None
            if ir is None:
                return
            if ir[0] == 'pos':
                self.pf.add_cmp('Lt', norm(ir[1]), base)
            elif ir[0] == 'range':
                _, lo, hi, inc = ir
                hi_t = base if hi is None else (norm(hi) if not inc else ('bin', 'Add', norm(hi), ('const', 1, 'usize')))
                self.pf.add_cmp('Le', hi_t, base)
                if lo is not None:
                    self.pf.add_cmp('Le', norm(lo), hi_t)
        elif n.endswith(('::first', '::last', '::split_first', '::split_last', '::first_mut', '::last_mut')):
            # Some => the slice is not empty
            self.pf.add_cmp('Ge', ('len', norm(base_of(x[2][0]))), ('const', 1, 'usize'))

    def typed(self, a):
        ty = None
        if a[0] in ('init', 'hav'):
            ty = self.body.local_ty(a[1]).get('s')
            # norm() drops dereferences: a reference to an integer stands for the integer
            ty = re.sub(r"^&('\w+ )?(mut )?", '', str(ty))
        elif a[0] == 'cast':
            ty = a[3]
            # a widening cast keeps the source's range
            src = self.typed(a[2]) if a[2][0] in ('init', 'hav', 'index', 'cast', 'deref') else None
            if src is not None and ty in INT_RANGES:
                r = src.intersect(IntervalSet.of_type(ty))
                if not r.empty() and r == src:
                    return r
        elif a[0] == 'deref':
            return self.typed(a[1]) if a[1][0] in ('init', 'hav') and str(self.body.local_ty(a[1][1]).get('s', '')).lstrip('&mut ').strip() in INT_RANGES and False else self._deref_typed(a)
        elif a[0] == 'index':
            b = deref_all(a[1])
            if b[0] == 'const' and isinstance(b[1], tuple) and b[1] and all(isinstance(v, int) for v in b[1]):
                return IntervalSet([(v, v) for v in sorted(set(b[1]))])
            # element of a byte slice / byte vector / byte array
            from pat import access_path
            r, st = access_path(a[1])
            if r[0] in ('init', 'hav') and not st:
                bty = str(self.body.local_ty(r[1]).get('s', ''))
                if re.search(r'\[u8(;|\])|Vec<u8>', bty):
                    return IntervalSet.of_type('u8')
            return None
        if ty in INT_RANGES:
            return IntervalSet.of_type(ty)
        return None

    def _deref_typed(self, a):
        x = a[1]
        if x[0] in ('init', 'hav'):
            ty = str(self.body.local_ty(x[1]).get('s', ''))
            ty = re.sub(r"^&('\w+ )?(mut )?", '', ty)
            if ty in INT_RANGES:
                return IntervalSet.of_type(ty)
        return None

    def nonneg(self, a):
        if a[0] == 'len':
            return True
        if a[0] in ('init', 'hav'):
            ty = self.body.local_ty(a[1]).get('s')
            return ty in INT_RANGES and INT_RANGES[ty][0] == 0
        if a[0] == 'cast' and a[3] in INT_RANGES and INT_RANGES[a[3]][0] == 0:
            return True
        if a[0] == 'bin' and a[1] == 'BitAnd':
            return True
        if a[0] == 'field' and a[2] in ('length', 'idx', 'jentry_offset', 'val_offset', 'key_offset', 'indent'):
            return True
        return False

    def le(self, a, b, strict=False, depth=0):
        if self.pf.prove_le(norm(a), norm(b), strict):
            return True
        if depth > 3:
            return False
        # std functions with a built-in bound
        a0 = deref_all(a) if a[0] in ('ref', 'deref') else a
        b0 = deref_all(b) if b[0] in ('ref', 'deref') else b
        if a0[0] == 'call' and a0[2]:
            n = canon(a0[1])
            last = n.split('::')[-1]
            if last == 'min' and len(a0[2]) == 2:
                return self.le(a0[2][0], b, strict, depth + 1) or self.le(a0[2][1], b, strict, depth + 1)
            if last == 'max' and len(a0[2]) == 2:
                return self.le(a0[2][0], b, strict, depth + 1) and self.le(a0[2][1], b, strict, depth + 1)
            if last == 'unwrap_or' and len(a0[2]) == 2:
                return self.le(a0[2][1], b, strict, depth + 1) and self.le_payload(a0[2][0], b, strict, depth + 1)
            if last == 'saturating_sub' and len(a0[2]) == 2:
                return self.le(a0[2][0], b, strict, depth + 1)
        if b0[0] == 'call' and b0[2]:
            last = canon(b0[1]).split('::')[-1]
            if last == 'min' and len(b0[2]) == 2:
                return self.le(a, b0[2][0], strict, depth + 1) and self.le(a, b0[2][1], strict, depth + 1)
            if last == 'max' and len(b0[2]) == 2:
                return self.le(a, b0[2][0], strict, depth + 1) or self.le(a, b0[2][1], strict, depth + 1)
        return False

    def le_payload(self, opt, b, strict, depth):
        """every value the Option term can carry is <= (<) b"""
        o = deref_all(opt) if opt[0] in ('ref', 'deref') else opt
        if o[0] == 'call' and o[2]:
            last = canon(o[1]).split('::')[-1]
            if last in ('position', 'rposition'):
                # index of an element of the iterated slice: < its length
                it = deref_all(o[2][0])
                if it[0] == 'call' and it[2] and canon(it[1]).split('::')[-1] in ('iter', 'iter_mut', 'into_iter'):
                    return self.le(('len', base_of(it[2][0])), b, False, depth + 1)
        return False

    def is_some(self, t):
        """Is the Option/Result term known to be Some/Ok on this path?"""
        t0 = t
        t = norm(t)
        # known from a discriminant test of the very same term
        v = self.variant.get(t)
        if v is not None:
            return self._variant_is_success(t, v)
        if t[0] == 'call' and (t[1], t[2]) in self.some_calls:
            return True
        return None

    def _variant_is_success(self, t, v):
        # Option: None=0 Some=1 ; Result: Ok=0 Err=1 ; ControlFlow: Continue=0 Break=1
        kind = self.kind_of(t)
        if kind == 'Option':
            return v == 1
        if kind in ('Result', 'ControlFlow'):
            return v == 0
        return None

    def kind_of(self, t):
        if t[0] == 'call':
            n = canon(t[1])
            if n.endswith(('::get', '::get_mut', '::first', '::last', '::split_first', '::split_last', '::pop_front', '::pop_back', '::pop', '::next', '::ok', '::as_str', '::from_u32',
                           '::checked_add', '::checked_sub', '::as_object', '::as_array', '::as_mut', '::as_ref', '::from_digit')):
                return 'Option'
            if n.endswith(('::try_into', '::from_utf8', '::parse', '::ok_or', '::read_u32', '::write_u32', '::write_all', '::compact_encode', '::try_from')):
                return 'Result'
            if n.endswith('::branch'):
                return 'ControlFlow'
        return None


_BW = {}


def FACTS_BODIES():
    import sym
    return sym.FACTS.bodies if sym.FACTS is not None else {}


def bool_wrapper(fn):
    """('is_some', G) if local fn `fn(self)` is `G(self).is_some()` (e.g. Value::is_string == as_str().is_some())."""
    if fn in _BW:
        return _BW[fn]
    _BW[fn] = None
    b = FACTS_BODIES().get(fn)
    if b is None or b.argc != 1:
        return None
    ex = Explorer(b, max_paths=16)
    rets = [p for p in ex.explore() if p.end[0] == 'return']
    if len(rets) == 1:
        r = rets[0].ret
        if r[0] == 'call' and called(r[1], 'Option::is_some', 'Option::is_none') and r[2]:
            inner = deref_all(r[2][0])
            if inner[0] == 'call' and inner[2] and deref_all(inner[2][0]) == ('init', 1, b.name_of(1)):
                _BW[fn] = ('is_some' if called(r[1], 'Option::is_some') else 'is_none', inner[1])
    return _BW[fn]


# ---------------------------------------------------------------- site enumeration and proving

def index_ranges(idx):
    """For an index operand term return a list of obligations on a container of length L:
    [('lt', t)] for a position, [('le', lo, hi), ('le', hi, L)] encoded as tuples below."""
    idx = deref_all(idx)
    if idx[0] == 'agg' and isinstance(idx[1], tuple) and idx[1][0] == 'adt':
        nm = idx[1][1].split('::')[-1]
        ops = idx[2]
        if nm == 'Range':
            return ('range', ops[0], ops[1], 0)
        if nm == 'RangeFrom':
            return ('range', ops[0], None, 0)
        if nm == 'RangeTo':
            return ('range', None, ops[0], 0)
        if nm == 'RangeToInclusive':
            return ('range', None, ops[0], 1)
        if nm == 'RangeFull':
            return ('full',)
    if is_call(idx, 'RangeInclusive::new'):
        return ('range', idx[2][0], idx[2][1], 1)
    return ('pos', idx)


def stable(desc):
    """Descriptor without block numbers (keys must survive unrelated edits)."""
    return re.sub(r'post@\d+', 'post', desc)


class Site:
    __slots__ = ('fn', 'desc', 'loc', 'ok', 'paths', 'fail', 'kind', 'how', 'opaque', 'guarded', 'handed')

    def __init__(self, fn, desc, loc, kind):
        self.fn = fn
        self.desc = desc
        self.loc = loc
        self.kind = kind
        self.ok = True
        self.paths = 0
        self.fail = None
        self.how = set()
        self.opaque = None     # why the failed obligation could not be *refuted* either (information the prover lacks)
        self.guarded = None    # on the failing path some condition relates the index / bound to the slice it indexes
        self.handed = None     # the failing position is (part of) a closure parameter: delivered by a combinator from a producer not read here


_UNREAD_COMBINATORS = ('and_then', 'map', 'map_or', 'map_or_else', 'filter', 'then', 'then_some', 'or_else', 'unwrap_or_else', 'zip', 'position', 'find', 'take_while',
                       'skip_while', 'fold', 'count', 'split_at', 'split_first', 'split_last', 'strip_prefix', 'strip_suffix', 'starts_with', 'ends_with', 'all', 'any',
                       'is_some_and', 'is_none_or', 'checked_sub', 'checked_mul', 'saturating_mul')

TRANSPARENT_CALLS = ('branch', 'from_residual', 'into', 'from', 'deref', 'deref_mut', 'as_ref', 'as_mut', 'as_bytes', 'as_slice', 'as_str',
                     'borrow', 'clone', 'index', 'index_mut', 'len', 'is_empty', 'min', 'max', 'unwrap', 'expect', 'unwrap_or', 'ok_or', 'map_err',
                     'try_into', 'try_from', 'get', 'get_mut', 'saturating_sub', 'saturating_add', 'checked_add', 'checked_sub', 'to_vec',
                     'as_ptr', 'read_u32', 'iter', 'pop_front', 'pop_back', 'pop')


def _unbounded_subterms(t):
    """sub-terms of an integer term, not descending below an operator that bounds its result whatever the operand is
    (x & CONST, x % CONST): an unmodelled value under such an operator does not make the whole term unknown"""
    yield t
    if not isinstance(t, tuple):
        return
    if t and t[0] == 'bin' and t[1] in ('BitAnd', 'Rem') and any(isinstance(x, tuple) and x and x[0] == 'const' for x in t[2:4]):
        return
    for x in t[1:]:
        if isinstance(x, tuple):
            if x and isinstance(x[0], str):
                yield from _unbounded_subterms(x)
            else:
                for y in x:
                    if isinstance(y, tuple) and y and isinstance(y[0], str):
                        yield from _unbounded_subterms(y)


def opaque_container(t, body=None, analysable=None, arithmetic=False):
    """A reason if the term involves a value the provers have no model for: the result of a library or crate call
    (other than the handful modelled: len, get, min/max, `?` plumbing, numeric conversions ...) or program state after a
    call that may have modified it.  A failed proof about such a term is lack of information, not a refutation."""
    for x in (_unbounded_subterms(t) if arithmetic else subterms(t)):
        if x[0] == 'post':
            if body is not None and analysable is not None and isinstance(x[1], int) and x[1] < len(body.blocks):
                tt = body.blocks[x[1]]['term']
                if tt.get('k') == 'call':
                    from mir import callee_name
                    if analysable(callee_name(tt)):
                        continue      # a crate function whose effect on the cursor is summarised (cursor lemma): analysed, not opaque
            return 'state after a call that may modify it'
        if x[0] == 'len' and body is not None:
            x = ('call', 'len', (x[1],), None)
        if x[0] == 'call':
            last = canon(x[1]).split('::')[-1]
            if last in ('len', 'is_empty') and x[2] and body is not None:
                # the size of a collection built locally (pushes in a loop, collect, iterator adaptors) is not modelled here
                from pat import access_path
                r, st = access_path(x[2][0])
                l = r[1] if r[0] in ('init', 'hav') else (r[1][1] if r[0] == 'loc' and r[1][0] == 'L' else None)
                if l is not None and l > body.argc:
                    ty = str(body.local_ty(l).get('s', ''))
                    if not ty.startswith(('&', '*')) and not re.match(r'^\[.*\]$', ty):
                        return f'size of the locally built collection {body.name_of(l) or "_"}: {ty[:40]}'
            if last in TRANSPARENT_CALLS:
                continue
            if arithmetic and last in ('next', 'next_back', 'nth', 'peek', 'first', 'last', 'copied', 'cloned'):
                continue      # an element taken from caller-supplied data: an arbitrary value of its type, nothing hidden about it
            return f'result of {last}()'
    return None


class Inventory:
    def __init__(self, ctx, lemmas=None, ret_variant=None, trust_doc=None, max_paths=4000):
        self.ctx = ctx
        self.facts = ctx.facts
        self.lemmas = lemmas or []
        self.sites = {}
        self.capped = []
        self.max_paths = max_paths
        self.trust_doc = trust_doc or (lambda body, base: False)
        self._always_some = {}
        self._paths = {}
        self._lemmas = {}
        self._invs = {}
        self._opaque_cur = {}   # fn -> {(cursor local, loop head): why its bound could not be established}
        self._lemma_unknown = {}   # fn -> construct that kept its cursor postcondition from being derived

    def region_paths(self, body):
        key = body.path
        if key in self._paths:
            return self._paths[key]
        ex = Explorer(body, max_paths=self.max_paths)
        loops = natural_loops(body)
        out = []
        for s in [0] + sorted(loops):
            out.extend(ex.explore(start=s, stop=set(loops)))
        if ex.capped:
            self.capped.append(body.path)
        self._paths[key] = out
        return out

    def lemma_applicable(self, fn):
        """the crate function has the shape the cursor lemma summarises: (.., &[u8], .., &mut usize, ..) -> bool, loop-free"""
        b = self.facts.bodies.get(fn)
        if b is None:
            return False
        sl = [i for i in range(1, b.argc + 1) if b.local_ty(i).get('k') == 'ref' and b.local_ty(i)['inner'].get('s') == '[u8]']
        cu = [i for i in range(1, b.argc + 1) if b.local_ty(i).get('k') == 'ref' and b.local_ty(i).get('mut') and b.local_ty(i)['inner'].get('s') == 'usize']
        if not (len(sl) == 1 and len(cu) == 1 and b.local_ty(0).get('s') == 'bool' and not natural_loops(b)):
            return False
        # a function of that shape whose postcondition could not be derived *because it decides with constructs the provers do not read*
        # (combinators with closures, helpers) is not analysed: the state after calling it is unknown, not refuted
        self.cursor_lemma(fn)
        return fn not in self._lemma_unknown

    # ---- callee lemma: F(.., slice S, .., &mut usize I, ..) -> bool ; returns true  =>  *I' <= len(S)
    def cursor_lemma(self, fn):
        """(slice param idx, cursor param idx) if every return-true path of the local function leaves the `&mut usize`
        cursor at most at the end of the slice parameter; None otherwise."""
        if fn in self._lemmas:
            return self._lemmas[fn]
        self._lemmas[fn] = None
        b = self.facts.bodies.get(fn)
        if b is None:
            return None
        sl = [i for i in range(1, b.argc + 1) if b.local_ty(i).get('k') == 'ref' and b.local_ty(i)['inner'].get('s') == '[u8]']
        cu = [i for i in range(1, b.argc + 1) if b.local_ty(i).get('k') == 'ref' and b.local_ty(i).get('mut') and b.local_ty(i)['inner'].get('s') == 'usize']
        if len(sl) != 1 or len(cu) != 1 or b.local_ty(0).get('s') != 'bool':
            return None
        S, I = sl[0], cu[0]
        if natural_loops(b):
            return None
        ok = True
        any_true = False
        for q in self.region_paths(b):
            if q.end[0] != 'return':
                continue
            r = q.ret
            if not (r[0] == 'const' and r[1] is True):
                if r[0] == 'const' and r[1] is False:
                    continue
                ok = False
                break
            any_true = True
            K = Knowledge(b, q.conds, None, q.events)
            endv = None
            for k, v in q.store.items():
                if k[0] == 'M' and k[1] == ('deref', ('init', I, b.name_of(I))):
                    endv = v
            if endv is None:
                endv = ('deref', ('init', I, b.name_of(I)))
            if not K.le(endv, ('len', ('init', S, b.name_of(S)))) or not K.le(('deref', ('init', I, b.name_of(I))), endv):
                ok = False
                unread = None
                for t_ in [c[0] for c in q.conds] + [endv]:
                    for x_ in subterms(t_):
                        if x_[0] == 'call' and isinstance(x_[1], str):
                            last_ = canon(x_[1]).split('::')[-1]
                            if last_ in _UNREAD_COMBINATORS or any(isinstance(a_, tuple) and a_ and a_[0] == 'agg' and isinstance(a_[1], tuple) and a_[1][0] == 'closure' for a_ in x_[2]) \
                                    or (x_[1] in self.facts.bodies and not x_[1].endswith('read_u32')):
                                unread = last_
                if unread:
                    self._lemma_unknown[fn] = f'{unread}()'
                break
        self._lemmas[fn] = (S, I) if ok and any_true else None
        return self._lemmas[fn]

    def lemma_facts(self, body):
        """Lemma hook for Knowledge: facts from calls to local functions with a proven cursor lemma."""
        inv = self

        def hook(K, events):
            for e in events:
                if e[0] != 'call':
                    continue
                c = e[5]['callee']
                tgt = c.get('resolved') if c.get('resolved_local') else None
                if not tgt:
                    continue
                lm = inv.cursor_lemma(tgt)
                if lm is None:
                    continue
                S, I = lm
                if not any(cnd[0] == norm(e[4]) and cnd[2] is True for cnd in K.conds):
                    continue
                a = e[2][I - 1]
                if a[0] == 'ref' and a[1][0] == 'loc':
                    post = ('post', e[3], ('locval', a[1][1]))
                    K.pf.add_cmp('Le', norm(post), ('len', norm(base_of(e[2][S - 1]))))
                    # the cursor never moves backwards (checked with the lemma): post >= value before the call
                    if len(a[1]) > 2:
                        K.pf.add_cmp('Le', norm(a[1][2]), norm(post))
        return hook

    # ---- inductive loop invariants  cursor <= len(buffer)
    def loop_invariants(self, body):
        if body.path in self._invs:
            return self._invs[body.path]
        self._invs[body.path] = {}
        loops = natural_loops(body)
        paths = self.region_paths(body)
        out = {}
        for h in loops:
            cands = set()
            for q in paths:
                if not q.blocks or q.blocks[0] != h:
                    continue
                for c in q.conds:
                    t = norm(c[0])
                    if t[0] == 'bin' and t[1] in ('Lt', 'Ge') and t[2][0] == 'hav' and t[3][0] == 'len':
                        cands.add((t[2], t[3]))
                    # `while let Some(&c) = buf.get(cur)`: the same loop test as `while cur < buf.len()`
                    if t[0] == 'discr' and is_call(t[1], 'slice::get', '::get') and len(t[1][2]) == 2:
                        ix = norm(t[1][2][1])
                        if ix[0] == 'hav':
                            cands.add((ix, norm(('len', base_of(t[1][2][0])))))
            good = []
            for (cur, ln) in cands:
                l = cur[1]
                ok = True
                # base: every path from the function entry that arrives at h
                for q in paths:
                    if q.end != ('stop', h) and q.end != ('backedge', h):
                        continue
                    K = Knowledge(body, q.conds, [self.lemma_facts(body)], q.events)
                    if q.blocks and q.blocks[0] == h:
                        K.pf.add_cmp('Le', cur, ln)     # induction hypothesis
                    elif q.blocks and q.blocks[0] != 0:
                        ok = False   # arrives from another loop: give up (no invariant there)
                        break
                    endv = q.store.get(('L', l), ('init', l, body.name_of(l)))
                    # the bound must be about the same buffer value at the end of the path
                    if not K.le(endv, ln):
                        ok = False
                        why = opaque_container(endv, body, self.lemma_applicable)
                        if why:
                            self._opaque_cur.setdefault(body.path, {})[(l, h)] = why
                        break
                if ok:
                    good.append((cur, ln))
            # lower bounds: a cursor that starts at a constant k and never decreases satisfies k <= cursor
            lows = {}
            for q in paths:
                if q.end in (('stop', h), ('backedge', h)) and q.blocks and q.blocks[0] == 0:
                    for k, v in q.store.items():
                        if k[0] == 'L' and v[0] == 'const' and isinstance(v[1], int) and not isinstance(v[1], bool) and body.local_ty(k[1]).get('s') == 'usize' and v[1] > 0:
                            lows.setdefault(k[1], set()).add(v[1])
                        elif k[0] == 'L' and v[0] == 'bin' and body.local_ty(k[1]).get('s') == 'usize' and body.name_of(k[1]):
                            # a cursor that starts at a computed position (`n + 1` after a search): the candidate 1 <= cursor, verified below like any other
                            lows.setdefault(k[1], set()).add(1)
            for l, ks in lows.items():
                if len(ks) != 1:
                    continue
                kconst = ('const', next(iter(ks)), 'usize')
                cur = ('hav', l, body.name_of(l), h)
                ok = True
                for q in paths:
                    if q.end not in (('stop', h), ('backedge', h)):
                        continue
                    K = Knowledge(body, q.conds, [self.lemma_facts(body)], q.events)
                    if q.blocks and q.blocks[0] == h:
                        K.pf.add_cmp('Le', kconst, cur)
                    elif q.blocks and q.blocks[0] != 0:
                        ok = False
                        break
                    endv = q.store.get(('L', l), ('init', l, body.name_of(l)))
                    if not K.le(kconst, endv):
                        ok = False
                        why = opaque_container(endv, body, self.lemma_applicable)
                        if why:
                            self._opaque_cur.setdefault(body.path, {}).setdefault((l, h), why)
                        break
                if ok:
                    good.append((kconst, cur))
            if good:
                out[h] = good
        self._invs[body.path] = out
        return out

    def site(self, body, desc, t, kind):
        desc = stable(desc)
        k = (body.path, desc)
        s = self.sites.get(k)
        if s is None:
            s = Site(body.path, desc, f"{t.get('file')}:{t.get('line')}", kind)
            self.sites[k] = s
        return s

    def record(self, s, ok, how, why=None, terms=(), conds=()):
        s.paths += 1
        if ok:
            s.how.add(how)
        elif s.ok:
            s.ok = False
            s.fail = why
            s.opaque = None
            if why and 'whose length the element counter does not read' in str(why):
                s.opaque = 'the size of a queue filled by a helper from an iterator adaptor'
            if why and 'more than one definition' in str(why):
                s.opaque = 'a queue that is reassigned or returned by a helper, whose size the element counter does not track'
            for t in terms:
                s.opaque = s.opaque or opaque_container(t, self.facts.bodies.get(s.fn), self.lemma_applicable)
                for x in subterms(t):
                    if x[0] == 'hav' and len(x) > 3:
                        w = self._opaque_cur.get(s.fn, {}).get((x[1], x[3]))
                        if w:
                            s.opaque = s.opaque or f'loop cursor {x[2]} is advanced by the {w}'
            for c in conds[-1:]:
                s.opaque = s.opaque or opaque_container(c[0], self.facts.bodies.get(s.fn), self.lemma_applicable)
            # the position is (part of) a value handed to this closure by its caller — and_then / map / filter fed by a producer
            # whose postcondition nothing here reads
            s.handed = None
            cb_ = self.facts.bodies.get(s.fn)
            if cb_ is not None and '::{closure' in s.fn:
                for t in terms:
                    for x in subterms(t):
                        if x[0] == 'init' and isinstance(x[1], int) and 2 <= x[1] <= cb_.argc:
                            s.handed = f'{cb_.name_of(x[1]) or "_" + str(x[1])}, a value handed to this closure by the combinator that calls it'
            # is the failing obligation guarded at all?  (some condition on the path mentions both the slice and a quantity of the index)
            if terms:
                bases_ = set()
                atoms_ = set()
                for t in terms:
                    for x in subterms(t):
                        if x[0] == 'len':
                            bases_.add(norm(base_of(x[1])))
                        elif x[0] in ('init', 'hav') and isinstance(x[1], int):
                            atoms_.add(x[1])
                try:
                    bases_.add(norm(base_of(terms[0])))     # call-argument sites (split_at, copy_from_slice ...): the receiver itself
                except Exception:
                    pass
                # quantities of the position only, not the slice itself
                in_base = set()
                for bt in bases_:
                    if isinstance(bt, tuple):
                        in_base |= {y[1] for y in subterms(bt) if y[0] in ('init', 'hav') and isinstance(y[1], int)}
                atoms_ -= in_base
                g_ = False
                for c in getattr(self, '_cur_conds', ()) or ():
                    st_ = list(subterms(c[0]))
                    has_atom = any(x[0] in ('init', 'hav') and x[1] in atoms_ for x in st_) if atoms_ else False
                    has_base = any((x[0] == 'len' and norm(base_of(x[1])) in bases_) or
                                   (x[0] == 'call' and x[2] and any(isinstance(a, tuple) and norm(base_of(a)) in bases_ for a in x[2])) for x in st_)
                    # a constant position needs no unknown quantity: the interval facts about the length decide it, there is nothing left to "not conclude"
                    if has_base and has_atom:
                        g_ = True
                        break
                s.guarded = g_
            # a decision about the very slice indexed here was taken by a helper the provers do not read (`if is_scalar_document(value)`,
            # `match ContainerKind::of(value)`): the bound may follow from it
            if not s.opaque and terms:
                bases = set()
                for t in terms:
                    for x in subterms(t):
                        if x[0] == 'len':
                            bases.add(norm(base_of(x[1])))
                        elif is_call(x, 'Index::index') and x[2]:
                            bases.add(norm(base_of(x[2][0])))
                for c in getattr(self, '_cur_conds', ()) or ():
                    for x in subterms(c[0]):
                        if x[0] == 'call' and canon(x[1]).split('::')[-1] not in TRANSPARENT_CALLS and x[2] and \
                                any(norm(base_of(a)) in bases for a in x[2] if isinstance(a, tuple)):
                            s.opaque = s.opaque or f'a decision about this slice taken by {canon(x[1]).split("::")[-1]}()'

    def callee_always(self, name, variant):
        """Does a local callee return `variant` (Some/Ok) on every return path? (P-variant by callee summary)"""
        key = (name, variant)
        if key in self._always_some:
            return self._always_some[key]
        b = self.facts.bodies.get(name)
        res = False
        if b is not None:
            self._always_some[key] = False
            paths = self.region_paths(b)
            rets = [p for p in paths if p.end[0] == 'return']
            res = bool(rets) and all(agg_variant(p.ret) and p.ret[1][2] == variant for p in rets)
        self._always_some[key] = res
        return res

    def scan(self, body):
        paths = self.region_paths(body)
        for p in paths:
            evs = p.events
            for e in evs:
                if e[0] == 'assert':
                    self.on_assert(body, p, e)
                elif e[0] == 'call':
                    self.on_call(body, p, e)

    def knowledge(self, body, p, e):
        K = Knowledge(body, p.conds[:e[6]], list(self.lemmas) + [self.lemma_facts(body)], [x for x in p.events if x[0] == 'call' and x[6] <= e[6]])
        self._cur_conds = p.conds[:e[6]]
        if p.blocks and p.blocks[0] != 0:
            for (cur, ln) in self.loop_invariants(body).get(p.blocks[0], []):
                K.pf.add_cmp('Le', cur, ln)
        return K

    # ---- asserts
    def on_assert(self, body, p, e):
        kind = e[1]
        t = body.blocks[e[3]]['term']
        K = self.knowledge(body, p, e)
        if K.pf.infeasible():
            return
        if kind == 'BoundsCheck':
            ln, ix = e[2]
            s = self.site(body, f'index[{show(norm(ix))} < {show(norm(ln))}]', t, 'bounds')
            ok = K.le(ix, ln, strict=True)
            self.record(s, ok, 'P-guard', f'no dominating condition bounds {show(norm(ix))} below {show(norm(ln))}', (ix, ln))
        elif kind.startswith('Overflow(Sub)'):
            c = e[4]
            ty = c[4] if c[0] == 'ovf' and len(c) > 4 else None
            if ty in ('usize', 'u64', 'u32', 'u16', 'u8'):
                a, b = e[2]
                s = self.site(body, f'sub[{show(norm(a))} - {show(norm(b))}]:{ty}', t, 'underflow')
                ok = K.le(b, a)
                self.record(s, ok, 'P-guard', f'cannot show {show(norm(b))} <= {show(norm(a))}', (a, b))
        elif kind in ('DivisionByZero', 'RemainderByZero'):
            # the assert's condition is `divisor == 0` (expected false); constant divisors fold to a constant condition
            c = e[4]
            s = self.site(body, f'div[{show(norm(e[2][0]))} / ·]', t, 'div')
            ok = c[0] == 'const' and c[1] == e[5]
            if not ok and c[0] == 'bin' and c[1] == 'Eq':
                r = K.pf.range_of_term(norm(c[2])) if c[3][0] == 'const' and c[3][1] == 0 else None
                ok = r is not None and not r.empty() and (r.lo() > 0 or r.hi() < 0)
            self.record(s, ok, 'P-range', 'divisor may be zero')

    # ---- calls
    def on_call(self, body, p, e):
        name = e[1]
        t = e[5]
        args = e[2]
        pk = panic_kind(t)
        if pk is not None:
            K = self.knowledge(body, p, e)
            if K.pf.infeasible():
                return
            msgs = [a.get('str') for a in t['args'] if a['k'] == 'const' and a.get('str')]
            s = self.site(body, f'{pk}!({msgs[0][:40] if msgs else ""})', t, pk)
            self.record(s, False, '', f'explicit {pk}! is reachable on a feasible path', (), p.conds[:e[6]])
            if pk == 'assert':
                # an asserted invariant (assert!, debug_assert!, assert_eq! ...): the failing branch is reachable only if the stated fact can be false,
                # which the provers could not exclude; unlike a bare panic!/todo! this is a claim of the code, not a refusal to handle a case
                s.guarded = True
            return
        if called(name, 'Option::unwrap', 'Option::expect', 'Result::unwrap', 'Result::expect'):
            K = self.knowledge(body, p, e)
            if K.pf.infeasible():
                return
            x = args[0]
            s = self.site(body, f'{canon(name).split("::")[-1]}({show(norm(x))})', t, 'unwrap')
            ok, how, why = self.prove_some(body, K, x, p, e)
            self.record(s, ok, how, why, (x,))
            return
        if called(name, 'Index::index', 'IndexMut::index_mut') and len(args) == 2:
            K = self.knowledge(body, p, e)
            if K.pf.infeasible():
                return
            base = base_of(args[0])
            ir = index_ranges(args[1])
            s = self.site(body, f'index({show(norm(base))}, {show(norm(deref_all(args[1])))})', t, 'index')
            ok, how, why = self.prove_index(body, K, base, ir, t)
            self.record(s, ok, how, why, (('len', base), args[1]))
            return
        if called(name, 'slice::copy_from_slice', 'slice::split_at', 'slice::split_at_mut', 'Vec::remove', 'Vec::insert', 'Vec::swap_remove',
                  'Vec::drain', 'VecDeque::remove', 'slice::swap', 'Vec::split_off', 'String::insert', 'String::remove', 'str::split_at'):
            K = self.knowledge(body, p, e)
            if K.pf.infeasible():
                return
            s = self.site(body, f'{canon(name).split("::")[-1]}({", ".join(show(norm(a)) for a in args)})', t, 'call')
            ok = False
            how = ''
            if called(name, 'Vec::remove', 'Vec::swap_remove') and len(args) == 2:
                ok = K.le(args[1], ('len', base_of(args[0])), strict=True)
                how = 'P-guard'
            elif called(name, 'Vec::insert') and len(args) >= 2:
                ok = K.le(args[1], ('len', base_of(args[0])))
                how = 'P-guard'
            elif called(name, 'slice::split_at', 'slice::split_at_mut', 'str::split_at', 'Vec::split_off') and len(args) == 2:
                ok = K.le(args[1], ('len', base_of(args[0])))
                how = 'P-guard'
            elif called(name, 'Vec::drain') and len(args) == 2:
                ir = index_ranges(args[1])
                ok, how, _ = self.prove_index(body, K, base_of(args[0]), ir, t)
            elif called(name, 'slice::copy_from_slice') and len(args) == 2:
                la, lb = norm_slice_len(args[0]), norm_slice_len(args[1])
                if la is not None and lb is not None:
                    ra, rb = K.pf.range_of_term(la), K.pf.range_of_term(lb)
                    na, nb = self.static_len(body, args[0]), self.static_len(body, args[1])
                    va = na if na is not None else (ra.lo() if not ra.empty() and ra.lo() == ra.hi() else None)
                    vb = nb if nb is not None else (rb.lo() if not rb.empty() and rb.lo() == rb.hi() else None)
                    ok = va is not None and va == vb
                    how = 'P-range[equal lengths]'
            self.record(s, ok, how, 'argument not shown to be in range', tuple(args))

    def static_len(self, body, t):
        """N if the term is (a reference to) a value of array type [T; N] (local or call result such as to_be_bytes)"""
        from pat import access_path
        r, st = access_path(t)
        if st:
            return None
        l = None
        if r[0] in ('init', 'hav'):
            l = r[1]
        elif r[0] == 'loc' and r[1][0] == 'L':
            l = r[1][1]
        if l is not None:
            m = re.match(r'^\[.*; (\d+)\]$', body.local_ty(l).get('s', ''))
            return int(m.group(1)) if m else None
        if r[0] == 'call' and canon(r[1]).endswith(('to_be_bytes', 'to_le_bytes', 'to_ne_bytes')):
            m = re.search(r'impl (\w+)>::to_', r[1])
            w = {'u8': 1, 'i8': 1, 'u16': 2, 'i16': 2, 'u32': 4, 'i32': 4, 'u64': 8, 'i64': 8, 'f64': 8, 'f32': 4, 'u128': 16, 'i128': 16}
            return w.get(m.group(1)) if m else None
        return None

    def prove_some(self, body, K, x, p, e):
        """Prove that the unwrapped Option/Result is Some/Ok."""
        x = deref_all(x) if x[0] in ('ref',) else x
        v = K.is_some(x)
        if v is True:
            return True, 'P-variant', None
        nx = norm(x)
        # producer-based reasoning
        if nx[0] == 'call':
            n = canon(nx[1])
            a = nx[2]
            if n.endswith(('VecDeque::pop_front', 'Vec::pop', 'VecDeque::pop_back')):
                dc = self.deque_counts(body)
                r = dc.get(x[3])
                if r is not None and r[0]:
                    return True, 'P-count', None
                return False, '', (r[1] if r and r[1] else 'the queue is not known to be non-empty here')
            if n.endswith('slice::get') or n.endswith('Vec::get') or n.endswith('::get'):
                base = base_of(x[2][0])
                ir = index_ranges(x[2][1])
                ok, how, why = self.prove_index(body, K, base, ir, e[5])
                return ok, how, why
            if n.endswith('TryInto::try_into') or n.endswith('TryFrom::try_from'):
                # slice -> [u8; N]: needs len == N
                full = e[5]['callee'].get('full', '')
                src = x[2][0]
                m = None
                # find N from the destination type of the producing call: Result<[u8; N], _>
                for ev in p.events:
                    if ev[0] == 'call' and ev[4] == x:
                        fullp = ev[5]['callee'].get('full', '')
                        m = re.search(r'\[u8; (\d+)\]', fullp)
                        break
                if m:
                    N = int(m.group(1))
                    L = norm_slice_len(src)
                    if L is not None:
                        r = K.pf.range_of_term(L)
                        if not r.empty() and r.lo() == N and r.hi() == N:
                            return True, 'P-range', None
                        return False, '', f'length of {show(norm(src))} is in {r}, must be exactly {N}'
                return False, '', 'cannot relate the slice length to the array length'
            if n.endswith('char::from_u32') or n.endswith('from_u32'):
                r = K.pf.range_of_term(nx[2][0]) if nx[2] else IntervalSet()
                rr = self.value_range(body, K, nx[2][0])
                r = r.intersect(rr)
                valid = IntervalSet([(0, 0xD7FF), (0xE000, 0x10FFFF)])
                if not r.empty() and r.subset_of(valid):
                    return True, 'P-range', None
                return False, '', f'code point {show(nx[2][0])} ranges over {r}, not within the scalar-value ranges'
            if n.endswith('char::from_digit') or n.endswith('from_digit'):
                rr = self.value_range(body, K, x[2][0])
                if not rr.empty() and rr.lo() >= 0 and rr.hi() < 16:
                    return True, 'P-range', None
                return False, '', f'digit ranges over {rr}'
            if n.endswith('WriteBytesExt::write_u32') or n.endswith('Write::write_all') or n.endswith('WriteBytesExt::write_u8'):
                # io::Write for Vec<u8> never fails
                full = ''
                for ev in p.events:
                    if ev[0] == 'call' and ev[4] == x:
                        full = ev[5]['callee'].get('full', '')
                if 'Vec<u8>' in full:
                    return True, 'axiom[io::Write for Vec<u8> is infallible]', None
            if n.endswith('String::from_utf8') and a:
                src = base_of(x[2][0])
                if is_call(src, 'from_elem') or (src[0] == 'call' and 'from_elem' in src[1]):
                    c = src[2][0]
                    if c[0] == 'const' and isinstance(c[1], int) and c[1] < 0x80:
                        return True, 'P-range[ASCII fill]', None
            # local callee that always returns Some/Ok
            if nx[1] in self.facts.bodies:
                kind = K.kind_of(nx) or ''
                want = 'Some' if kind == 'Option' else 'Ok'
                for w in ('Some', 'Ok'):
                    if self.callee_always(nx[1], w):
                        return True, f'P-variant[{nx[1].split("::")[-1]} always returns {w}]', None
            if n.endswith('Number::compact_encode'):
                # fails only if the writer fails: the writer is a Vec<u8>
                for ev in p.events:
                    if ev[0] == 'call' and ev[4] == x and 'Vec<u8>' in ev[5]['callee'].get('full', ''):
                        return True, 'axiom[io::Write for Vec<u8> is infallible]', None
        return False, '', f'{show(nx)} is not known to be Some/Ok on this path'

    def deque_counts(self, body):
        from dequecount import DequeCount
        if not hasattr(self, '_dc'):
            self._dc = DequeCount(self.facts)
        if body.path not in self._dc.results:
            self._dc.analyse(body)
        return self._dc.results.get(body.path, {})

    def value_range(self, body, K, t):
        from rules.intarith import Ranger
        if not hasattr(self, '_rg'):
            self._rg = Ranger(self.ctx)
        return self._rg.term_range(body, t, K.pf, None)

    def prove_index(self, body, K, base, ir, t):
        L = ('len', base)
        if self.trust_doc(body, base):
            return True, 'A1[document argument assumed valid]', None
        if ir[0] == 'full':
            return True, 'trivial', None
        if ir[0] == 'pos':
            ok = K.le(ir[1], L, strict=True)
            return ok, 'P-guard', None if ok else f'cannot show {show(norm(ir[1]))} < len({show(norm(base))})'
        _, lo, hi, inc = ir
        if hi is None:
            ok = K.le(lo, L)
            return ok, 'P-guard', None if ok else f'cannot show {show(norm(lo))} <= len({show(norm(base))})'
        hi_t = hi if not inc else ('bin', 'Add', hi, ('const', 1, 'usize'))
        ok1 = K.le(hi_t, L)
        ok2 = True if lo is None else K.le(lo, hi_t)
        if ok1 and ok2:
            return True, 'P-guard', None
        why = []
        if not ok1:
            why.append(f'cannot show {show(norm(hi_t))} <= len({show(norm(base))})')
        if not ok2:
            why.append(f'cannot show {show(norm(lo))} <= {show(norm(hi_t))}')
        return False, '', '; '.join(why)


def norm_slice_len(src):
    """Length term of a slice-valued term: index(base, a..) -> len(base) - a ; plain -> len(base)"""
    s = deref_all(src)
    while s[0] == 'cast' and s[1].startswith('PointerCoercion'):
        s = deref_all(s[2])
    if is_call(s, 'Index::index') and len(s[2]) == 2:
        base = base_of(s[2][0])
        ir = index_ranges(s[2][1])
        L = ('len', norm(base))
        if ir[0] == 'range':
            _, lo, hi, inc = ir
            hi_t = L if hi is None else (norm(hi) if not inc else ('bin', 'Add', norm(hi), ('const', 1, 'usize')))
            lo_t = ('const', 0, 'usize') if lo is None else norm(lo)
            return ('bin', 'Sub', hi_t, lo_t)
        return None
    # payload of a successful `base.get(a..b)`, read directly from the matched Some(..): length b - a
    if s[0] == 'field' and s[1][0] == 'downcast' and s[1][2] == 'Some' and s[1][1][0] == 'call' and canon(s[1][1][1]).endswith('::get') and len(s[1][1][2]) == 2:
        g_ = s[1][1]
        ir = index_ranges(g_[2][1])
        L = norm(('len', base_of(g_[2][0])))
        if ir[0] == 'range':
            _, lo, hi, inc = ir
            hi_t = L if hi is None else (norm(hi) if not inc else ('bin', 'Add', norm(hi), ('const', 1, 'usize')))
            lo_t = ('const', 0, 'usize') if lo is None else norm(lo)
            return ('bin', 'Sub', hi_t, lo_t)
    # payload of a successful `base.get(a..b)` (through ok_or / `?`): length b - a
    from pat import unwrap_ok
    prod, chain = unwrap_ok(s)
    if chain and prod[0] == 'call' and canon(prod[1]).endswith('::get') and len(prod[2]) == 2:
        ir = index_ranges(prod[2][1])
        L = ('len', norm(base_of(prod[2][0])))
        if ir[0] == 'range':
            _, lo, hi, inc = ir
            hi_t = L if hi is None else (norm(hi) if not inc else ('bin', 'Add', norm(hi), ('const', 1, 'usize')))
            lo_t = ('const', 0, 'usize') if lo is None else norm(lo)
            return ('bin', 'Sub', hi_t, lo_t)
    return ('len', norm(base_of(s)))


_BASE_SITES = False


def baseline_sites():
    """{'sites': {(fn, cdesc)}, 'functions': {fn}} of the pinned tree (tools/gen_baseline_sites.py), or None"""
    global _BASE_SITES
    if _BASE_SITES is False:
        p = os.path.join(VERIF, 'baseline_sites.json')
        if os.path.exists(p):
            j = json.load(open(p))
            _BASE_SITES = {'sites': {tuple(x) for x in j['sites']}, 'functions': set(j['functions'])}
        else:
            _BASE_SITES = None
    return _BASE_SITES


def report_sites(run, rule, inv, assume, floor=None):
    n = 0
    from report import canon_desc
    items = sorted(inv.sites.items())
    # reviewed assumptions: exact key first; then the same function and the same construct up to the names of local
    # variables, each assumption entry absorbing at most one site
    chosen = {}
    used = set()
    for (fn, desc), s in items:
        if s.ok:
            continue
        for k in (f'{rule}|{fn}|{desc}|0', f'*|{fn}|{desc}|0'):
            if k in assume:
                chosen[(fn, desc)] = assume[k]
                used.add(k)
                break
    for (fn, desc), s in items:
        if s.ok or (fn, desc) in chosen:
            continue
        cd = canon_desc(run.facts, fn, desc)
        for k, e in assume.items():
            kf = k.split('|')
            if k not in used and len(kf) >= 4 and kf[1] == fn and (e.get('cdesc') == cd or cd in e.get('alt_cdesc', [])):
                chosen[(fn, desc)] = e
                used.add(k)
                break
    base = baseline_sites()
    rec = os.environ.get('VERIF_RECORD_SITES')
    if rec:
        with open(rec, 'a') as fh:
            for (fn, desc), s in items:
                if s.ok or (fn, desc) in chosen:
                    fh.write(json.dumps([fn, canon_desc(run.facts, fn, desc)]) + '\n')
    for (fn, desc), s in items:
        n += 1
        if s.ok:
            run.proved(rule, fn, desc, f'{", ".join(sorted(s.how)) or "guarded"} on {s.paths} path(s)', s.loc)
        else:
            a = chosen.get((fn, desc))
            if a is not None:
                run.assumed(rule, fn, desc, a['reason'], s.loc)
                continue
            cd = canon_desc(run.facts, fn, desc)
            if s.opaque and base is not None:
                run.undecided(rule, fn, desc, f'panic site not discharged, but not refuted either ({s.opaque}, which the provers do not model): {s.fail}', s.loc)
            elif base is None or (fn, cd) in base['sites']:
                # the same construct was discharged on the pinned tree: its guard has been weakened or removed
                run.violation(rule, fn, desc, f'panic site not discharged: {s.fail}' + ('' if base is None else ' (this site was discharged on the pinned tree: its guard changed)'), s.loc)
            elif fn not in base['functions']:
                run.undecided(rule, fn, desc, f'panic site in a function that did not exist on the pinned tree, not discharged: {s.fail}; '
                              f'whether its callers establish the bound is not decided', s.loc)
            elif s.opaque:
                run.undecided(rule, fn, desc, f'panic site not discharged, but not refuted either ({s.opaque}, which the provers do not model): {s.fail}', s.loc)
            elif getattr(s, 'handed', None):
                run.undecided(rule, fn, desc, f'panic site (not on the pinned tree in this form) not discharged: {s.fail}; the position comes from {s.handed}: '
                              'whether its producer establishes the bound is not decided', s.loc)
            elif s.guarded:
                # a site that did not exist in this form on the pinned tree; a condition on the path does relate the slice and the index, the provers just cannot conclude from it
                run.undecided(rule, fn, desc, f'panic site (new in this function) not discharged: {s.fail}; a condition on the path relates the slice and the position, '
                              'but the provers cannot conclude from it (loop form or guard they do not model): not decided', s.loc)
            else:
                run.violation(rule, fn, desc, f'panic site not discharged: {s.fail}', s.loc)
    for p in inv.capped:
        run.undecided(rule, p, 'paths', 'path cap exceeded; some paths of this function were not examined')
    if floor is not None:
        run.floor(rule, 'panic sites in the cone', n, floor)
    return n
