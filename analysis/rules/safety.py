"""Shared "never panics / never yields ill-formed strings" rules (R10.x, R02.8, R09.5, R16.1, R08.2, R18.3)."""
from panics import Inventory, report_sites, load_assume
from rules import recursion
from sym import explore, show, subterms
from pat import called, canon, is_call, deref_all
from mir import callee_name


def cone_of(ctx, roots, skip_fmt=True):
    cg = recursion.augment(ctx)
    roots = [r for r in roots if r in ctx.facts.bodies]
    cone = cg.reachable(roots)
    out = []
    for p in sorted(cone):
        b = ctx.facts.bodies[p]
        if b.kind == 'Promoted':
            continue
        # Debug/Display of error types is not part of the value-producing cone
        if skip_fmt and p.startswith('<') and ('std::fmt::' in p):
            continue
        out.append(p)
    return roots, out


def panic_inventory(ctx, run, rule, roots, floor=None, trust_doc=None, only=None):
    roots, cone = cone_of(ctx, roots)
    inv = Inventory(ctx, trust_doc=trust_doc)
    n = 0
    for p in cone:
        if only is not None and not only(p):
            continue
        inv.scan(ctx.facts.bodies[p])
        n += 1
    run.count('functions_scanned', n)
    assume = load_assume()
    return report_sites(run, rule, inv, assume, floor=floor), cone


UNCHECKED = ('str::from_utf8_unchecked', 'String::from_utf8_unchecked', 'from_utf8_unchecked', 'from_utf8_unchecked_mut')


def unchecked_utf8(ctx, run, rule, cone, floor=None):
    """Every from_utf8_unchecked in the cone is a site that must be listed (reviewed) in assume.json."""
    assume = load_assume()
    n = 0
    used = set()
    for p in cone:
        b = ctx.facts.bodies[p]
        for bb, t in b.calls():
            nm = callee_name(t)
            if called(nm, *UNCHECKED):
                n += 1
                desc = f'{canon(nm).split("::")[-1]}#{sum(1 for _ in range(0))}'
                from mir import Expr, render
                arg = render(Expr(b).operand(t['args'][0]))
                desc = f'{canon(nm).split("::")[-2]}::{canon(nm).split("::")[-1]}({arg})'
                key = f'*|{p}|{desc}|0'
                a = assume.get(key)
                if a is None:
                    from report import canon_desc
                    import re as _re
                    # the slice end may be written `self.idx` or a local holding it
                    flat = lambda x: _re.sub(r'\*?\$\.idx', '$', x or '')
                    cd = flat(canon_desc(run.facts, p, desc))
                    for k2, e in assume.items():
                        kf = k2.split('|')
                        if len(kf) >= 4 and kf[1] == p and flat(e.get('cdesc')) == cd and k2 not in used:
                            a = e
                            used.add(k2)
                            break
                else:
                    used.add(key)
                loc = f"{t.get('file')}:{t.get('line')}"
                if a is not None:
                    run.assumed(rule, p, desc, a['reason'], loc)
                else:
                    run.violation(rule, p, desc, 'bytes that were not validated as UTF-8 become a str in this cone: a value returned from untrusted input may contain an ill-formed string', loc)
    if floor is not None:
        run.floor(rule, 'from_utf8_unchecked sites in the cone', n, floor)
    return n


def forbidden_calls(ctx, run, rule, roots, names, what, why, only=None):
    """Who-may-call rule: no function of the cone (restricted by `only`) calls any of `names` (callee suffixes)."""
    roots, cone = cone_of(ctx, roots)
    n = 0
    hits = []
    for p in cone:
        if only is not None and not only(p):
            continue
        b = ctx.facts.bodies[p]
        if b.kind == 'Promoted':
            continue
        n += 1
        for bb, t in b.calls():
            nm = callee_name(t)
            if called(nm, *names):
                hits.append((p, canon(nm).split('::')[-1], f"{t.get('file')}:{t.get('line')}"))
    if hits:
        for p, nm, loc in sorted(set(hits)):
            run.violation(rule, p, f'forbidden[{nm}]', f'{what} calls `{nm}`: {why}', loc)
    else:
        run.proved(rule, roots[0] if roots else '<crate>', f'forbidden[{"/".join(x.split("::")[-1] for x in names[:3])}]', f'none of {len(names)} such primitive(s) is called in the {n} functions of the cone')
    return n
