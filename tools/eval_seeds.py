#!/usr/bin/env python3
"""Run every claimed check against every seeded change (and the reverted fixes / selftest mutants):
apply the patch to /repo, run the checks, undo the patch.  Writes seeded/RESULTS.json and prints a table."""
import json, os, subprocess, sys, glob, re
V = '/verif'
man = json.load(open(f'{V}/MANIFEST.json'))
pids = [c['property_id'] for c in man['checks']]
only = sys.argv[1:]
items = []
for d in sorted(glob.glob(f'{V}/seeded/C*-*')):
    items.append((os.path.basename(d), f'{d}/patch.diff', os.path.basename(d).split('-')[0]))
for f in sorted(glob.glob(f'{V}/selftest/reverts/*.diff')) + sorted(glob.glob(f'{V}/selftest/mutants/*.diff')):
    items.append((os.path.basename(f)[:-5], f, None))
res = {}
if os.path.exists(f'{V}/seeded/RESULTS.json') and only:
    res = json.load(open(f'{V}/seeded/RESULTS.json'))
for name, patch, prop in items:
    if only and not any(o in name for o in only):
        continue
    st = subprocess.run(['git', '-C', '/repo', 'status', '--porcelain', '--', 'src'], capture_output=True, text=True).stdout.strip()
    if st:
        print('/repo dirty, abort'); sys.exit(2)
    r = subprocess.run(['git', '-C', '/repo', 'apply', patch], capture_output=True, text=True)
    if r.returncode != 0:
        res[name] = {'error': 'patch does not apply'}
        print(name, 'PATCH DOES NOT APPLY')
        continue
    fired = {}
    try:
        for pid in pids:
            out = subprocess.run([f'{V}/check', pid], capture_output=True, text=True, cwd=V)
            rules = sorted(set(re.findall(r'rule=(\S+)', out.stdout)))
            if out.returncode == 1:
                fired[pid] = rules
            elif out.returncode != 0:
                fired[pid] = ['<check error %d>' % out.returncode]
    finally:
        subprocess.run(['git', '-C', '/repo', 'checkout', '-q', '--', '.'])
    res[name] = {'property': prop, 'fired': fired, 'caught_by_own_property': bool(prop and prop in fired), 'caught': bool(fired)}
    print(f"{name:42s} own={'Y' if prop and prop in fired else '-'} any={'Y' if fired else '-'}  {fired}")
    json.dump(res, open(f'{V}/seeded/RESULTS.json', 'w'), indent=1)
# restore evidence of the unchanged tree
for pid in pids:
    subprocess.run([f'{V}/check', pid], capture_output=True, text=True, cwd=V)
seeds = {k: v for k, v in res.items() if v.get('property')}
print('seeds caught by own property:', sum(1 for v in seeds.values() if v.get('caught_by_own_property')), '/', len(seeds),
      ' by any:', sum(1 for v in seeds.values() if v.get('caught')), '/', len(seeds))
