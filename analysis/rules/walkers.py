"""Walker discipline (R05.1-R05.3) for every loop / iterator body that reads JSONB entry words.

An *entry read* is `JEntry::decode_jentry(read_u32(B, j))` (possibly through .ok()? / match).  On every CFG path
from a loop head back to the head (or, for iterator structs, from `next` entry to a `Some` return):
  W-ADVANCE  a cursor that is advanced by an entry's `length` must be advanced by the length of an entry that was
             read on this very path from the buffer the cursor indexes, each such entry at most once; and the
             entry cursor advances by 4 per entry read through it.
  W-PAIR     if an entry was read through cursor j and the path continues the walk (reaches the head again), then
             both j (by 4) and the payload cursor (by that entry's length) are advanced — no path advances one
             without the other.
  W-INIT     the cursors' initial values have the documented affine form: first entry word at base+4 (base if the
             slice was pre-cut by 4), first payload at base + 4 + 4n (array) / base + 4 + 8n (object).
"""
from sym import Explorer, show, lin, lin_sub, subterms
from pat import called, canon, is_call, deref_all, strip_casts, unwrap_ok, agg_variant
from mir import natural_loops
from panics import base_of


def entry_reads(path):
    """[(E term, buffer term, offset term, event)] for decode_jentry(read_u32(B, off)) on a path."""
    out = []
    for e in path.calls():
        if called(e[1], 'JEntry::decode_jentry') and e[2]:
            src, chain = unwrap_ok(e[2][0])
            src = deref_all(src)
            if src[0] == 'call' and called(src[1], 'functions::read_u32', 'iterator::read_u32') and len(src[2]) == 2:
                out.append((e[4], base_of(src[2][0]), src[2][1], e))
    return out


def cursor_deltas(body, path, start_is_entry=False):
    """{cursor key: (name, start term, end term)} for integer locals / `self` fields assigned on the path."""
    out = {}
    for k, v in path.store.items():
        if k[0] == 'L':
            l = k[1]
            ty = body.local_ty(l)
            if ty.get('k') != 'int' or ty.get('s') != 'usize':
                continue
            name = body.name_of(l)
            if name is None:
                continue
            start = None
            for s in subterms(v):
                if s[0] in ('hav', 'init') and s[1] == l:
                    start = s
                    break
            if start is None:
                continue
            out[('L', l)] = (name, start, v)
        elif k[0] == 'S' and k[1][0] == 'M' and k[2][0] == 'field':
            base = k[1][1]
            if base[0] == 'deref' and base[1][0] == 'init':
                fname = k[2][1]
                start = ('field', base, fname, k[2][2])
                if isinstance(v, tuple) and any(s == start for s in subterms(v)):
                    out[('F', base[1][1], fname)] = (fname, start, v)
    return out


def length_atoms(l):
    """atoms of a linear form that are `<entry>.length` (as usize): returns {entry term: coef}"""
    out = {}
    rest = {}
    for a, c in l[0].items():
        a0 = strip_casts(a)
        if a0[0] == 'field' and a0[2] == 'length':
            out[deref_all(a0[1])] = out.get(deref_all(a0[1]), 0) + c
        else:
            rest[a] = c
    return out, rest


def buffers_of_cursor(body, paths, ckey, start):
    """Buffers a cursor is used with: as the offset of read_u32(B, ·) or as a slice bound of B."""
    bufs = set()
    for p in paths:
        for e in p.calls():
            if called(e[1], 'functions::read_u32', 'iterator::read_u32') and len(e[2]) == 2:
                if any(s == start for s in subterms(e[2][1])):
                    bufs.add(('entry', base_of(e[2][0])))
            elif called(e[1], 'Index::index') and len(e[2]) == 2:
                if any(s == start for s in subterms(e[2][1])):
                    bufs.add(('payload', base_of(e[2][0])))
            elif called(e[1], 'functions::extract_by_jentry') and len(e[2]) == 4:
                if any(s == start for s in subterms(e[2][2])):
                    bufs.add(('payload', base_of(e[2][3])))
            elif called(e[1], 'functions::escape_scalar_string') and len(e[2]) == 4:
                if any(s == start for s in subterms(e[2][1])) or any(s == start for s in subterms(e[2][2])):
                    bufs.add(('payload', base_of(e[2][0])))
    return bufs


def queue_buffers(paths):
    """{queue term: buffer} for queues that are only ever filled with entries decoded from one buffer."""
    out = {}
    bad = set()
    for p in paths:
        reads = {E: B for (E, B, off, e) in entry_reads(p)}
        for e in p.calls():
            if called(e[1], 'VecDeque::push_back', 'Vec::push') and len(e[2]) == 2:
                q = deref_all(e[2][0])
                v = e[2][1]
                Bs = {reads[E] for E in reads if E == v or any(sx == E for sx in subterms(v))}
                if len(Bs) == 1:
                    B = next(iter(Bs))
                    if q in out and out[q] != B:
                        bad.add(q)
                    out[q] = B
    for q in bad:
        out.pop(q, None)
    return out


def queued_entries(path, qbuf):
    """Entry terms obtained by popping a queue of entries: {E: (buffer or None, None)}"""
    out = {}
    for e in path.calls():
        if called(e[1], 'VecDeque::pop_front', 'Vec::pop', 'VecDeque::pop_back') and e[2]:
            q = deref_all(e[2][0])
            B = qbuf.get(q)
            res = e[4]
            # the popped value as seen by later code: unwrap(res) / (res as Some).0, possibly a tuple whose .0 is the entry
            for form in (('call_unwrap', res),):
                pass
            out[('call', 'std::option::Option::<T>::unwrap', (res,), None)] = (B, None)
            out[('__pop__', res)] = (B, None)
    return PopMap(out)


class PopMap(dict):
    """Entry lookup that recognises any term built on a pop_front result (unwrap / as Some / tuple field)."""

    def _pop_of(self, E):
        for s in subterms(E):
            if s[0] == 'call' and called(s[1], 'VecDeque::pop_front', 'Vec::pop', 'VecDeque::pop_back'):
                k = ('__pop__', s)
                if dict.__contains__(self, k):
                    return dict.__getitem__(self, k)
        return None

    def __contains__(self, E):
        return dict.__contains__(self, E) or self._pop_of(E) is not None

    def __getitem__(self, E):
        if dict.__contains__(self, E):
            return dict.__getitem__(self, E)
        r = self._pop_of(E)
        if r is None:
            raise KeyError(E)
        return r


def pushed_terms(path):
    out = []
    for e in path.calls():
        if called(e[1], 'VecDeque::push_back', 'Vec::push') and len(e[2]) == 2:
            out.append(e[2][1])
    return out


class WalkerReport:
    def __init__(self):
        self.loops = 0
        self.iter_paths = 0
        self.entries = 0


def check_function(run, rule, body, rep):
    loops = natural_loops(body)
    ex = Explorer(body, max_paths=3000)
    all_paths = []
    regions = {}
    for s in [0] + sorted(loops):
        ps = ex.explore(start=s, stop=set(loops))
        regions[s] = ps
        all_paths.extend(ps)
    is_iter = body.path.endswith('::next') and 'iterator::' in body.path
    found = False
    qbuf = queue_buffers(all_paths)
    for h, ps in regions.items():
        if h == 0 and not is_iter:
            continue
        iter_paths = []
        for p in ps:
            if is_iter:
                if p.end[0] == 'return' and agg_variant(p.ret) and p.ret[1][2] == 'Some':
                    iter_paths.append(p)
            elif p.end[0] in ('backedge', 'stop') and p.end[1] == h:
                iter_paths.append(p)
        if not iter_paths:
            continue
        loop_has_reads = any(entry_reads(p) for p in ps)
        if not loop_has_reads:
            continue
        found = True
        rep.loops += 1
        loc = f"{body.file}:{body.blocks[h]['term'].get('line') or body.line}"
        problems = []
        for p in iter_paths:
            rep.iter_paths += 1
            reads = entry_reads(p)
            rep.entries += len(reads)
            deltas = cursor_deltas(body, p)
            by_entry = {E: (B, off) for (E, B, off, e) in reads}
            queued = queued_entries(p, qbuf)
            direct = by_entry
            by_entry = queued
            for k_, v_ in direct.items():
                dict.__setitem__(by_entry, k_, v_)
            pushed = pushed_terms(p)
            used = {}
            entry_cursor_adv = {}
            for ck, (name, start, end) in deltas.items():
                d = lin_sub(lin(end), lin(start))
                lens, rest = length_atoms(d)
                bufs = buffers_of_cursor(body, all_paths, ck, start)
                pay_bufs = {b for k, b in bufs if k == 'payload'}
                ent_bufs = {b for k, b in bufs if k == 'entry'}
                for E, c in lens.items():
                    if c != 1:
                        problems.append(f'cursor `{name}` advances by {c} × the length of one entry')
                    if E not in by_entry:
                        problems.append(f'cursor `{name}` advances by the length of an entry that was not read on this path ({show(E)[:60]})')
                        continue
                    B, off = by_entry[E]
                    # the cursor must index the same buffer the entry was read from (when we know which buffer it indexes)
                    known = pay_bufs or set()
                    if known and B is not None and B not in known:
                        problems.append(f'cursor `{name}` indexes {", ".join(show(x)[:30] for x in known)} but is advanced by the length of an entry read from {show(B)[:30]}')
                    used.setdefault(E, []).append(name)
                if not lens and not rest and d[1] and ent_bufs:
                    entry_cursor_adv[start] = d[1]
            # entry cursors: each read through cursor j on a continuing path requires j += 4 (times the reads through it)
            for (E, B, off, e) in reads:
                offl = lin(off)
                base_atoms = [a for a in offl[0] if a[0] in ('hav', 'init', 'field')]
                for ck, (name, start, end) in deltas.items():
                    if start in offl[0]:
                        d = lin_sub(lin(end), lin(start))
                        lens, rest = length_atoms(d)
                        if not lens and not rest:
                            nreads = len({off2 for (E2, B2, off2, e2) in reads if start in lin(off2)[0]})
                            if d[1] != 4 * nreads:
                                problems.append(f'entry cursor `{name}` advances by {d[1]} after {nreads} entry read(s) (expected {4 * nreads})')
                # W-PAIR: an entry read on a continuing path must have its length consumed by exactly one payload cursor,
                # unless no cursor of this walk is length-advanced at all (pure entry scans)
            if any(length_atoms(lin_sub(lin(end), lin(start)))[0] for (name, start, end) in deltas.values()) or True:
                any_len_cursor = any(length_atoms(lin_sub(lin(end), lin(start)))[0] for (name, start, end) in deltas.values())
                for (E, B, off, e) in reads:
                    # was an entry cursor advanced past this entry?
                    offl = lin(off)
                    moved = False
                    for ck, (name, start, end) in deltas.items():
                        if start in offl[0]:
                            moved = lin_sub(lin(end), lin(start))[1] != 0
                    n_used = len(used.get(E, []))
                    is_queued = any(E == x or any(sx == E for sx in subterms(x)) for x in pushed)
                    if moved and n_used == 0 and not is_queued:
                        problems.append(f'the entry cursor moves past an entry of {show(B)[:30]} but neither is a payload cursor advanced by that entry\'s length on this path nor is the entry kept for later')
                    if n_used > 1:
                        # value and key cursors of the same buffer may both legitimately skip key lengths (val_offset starts after the keys)
                        pass
        key = 'walk'
        if problems:
            uniq = []
            for x in problems:
                if x not in uniq:
                    uniq.append(x)
            run.violation(rule, body.path, f'loop@{loop_ordinal(loops, h)}', '; '.join(uniq[:3]), loc)
        else:
            run.proved(rule, body.path, f'loop@{loop_ordinal(loops, h)}', f'{len(iter_paths)} iteration path(s): entry and payload cursors advance in step with the entries read', loc)
    return found


def loop_ordinal(loops, h):
    return sorted(loops).index(h) if h in loops else 'next'


def has_payload_cursor(body, all_paths, regions, B):
    """Does this function keep a length-advanced cursor for buffer B at all?"""
    for p in all_paths:
        for ck, (name, start, end) in cursor_deltas(body, p).items():
            lens, rest = length_atoms(lin_sub(lin(end), lin(start)))
            if lens:
                bufs = buffers_of_cursor(body, all_paths, ck, start)
                if not bufs or any(b == B for k, b in bufs):
                    return True
    return False


def walker_functions(ctx, prefixes=('functions::', 'iterator::', '<iterator::')):
    out = []
    for p, b in sorted(ctx.facts.bodies.items()):
        if b.kind == 'Promoted':
            continue
        if any(p.startswith(x) for x in prefixes):
            out.append(b)
    return out


def w_advance(ctx, run, rule='R05.2', only=None, floor=None):
    rep = WalkerReport()
    n = 0
    for b in walker_functions(ctx):
        if only is not None and not only(b.path):
            continue
        if check_function(run, rule, b, rep):
            n += 1
    run.count('walker_functions', n)
    run.count('walker_loops', rep.loops)
    run.count('walker_iteration_paths', rep.iter_paths)
    run.count('entry_reads_on_paths', rep.entries)
    if floor is not None:
        run.floor(rule, 'entry-reading loops / iterator bodies', rep.loops, floor)
    return rep
