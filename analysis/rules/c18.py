"""C18 — numbers keep their exact value through the codec and are ordered by that value."""
import report
from rules import numcodec, safety

EXPLANATION = (
    "Static analysis of number.rs through MIR. R18.1: over all CFG paths of compact_encode, by interval arithmetic over the whole "
    "i64/u64 range, each width arm's guard is exactly 'fits this width and not the narrower one', the narrowing cast is lossless, "
    "zero takes the one-byte form, tag bytes are the documented constants, the returned count equals the bytes written, and floats "
    "take NaN/±inf one-byte forms or NUMBER_FLOAT + their 8 bytes with no other test of the value. R18.2: the decoder's (tag, length) "
    "table inverts the encoder's and every other row returns Err. R18.3: panic inventory of Number::decode (every index, subtraction "
    "and try_into is discharged by the length conditions of its path). R18.4: in the cone of Number's Ord/PartialEq/PartialOrd no "
    "64-bit integer is converted to a float, every float->integer cast is bounded inside the exactly representable range on every path "
    "(float comparison constants are decoded from their bit patterns), float/float comparison goes through OrderedFloat, and all nine "
    "representation pairs have an arm. R18.5: as_i64/as_u64 return the stored value or a range-checked cast, None only outside the "
    "target range; as_f64 is the plain cast. NOT decided: OrderedFloat's own NaN/-0.0 conventions (trusted), total-order laws as such.")


def check(ctx, run):
    run.rules_run = ['R18.1', 'R18.2', 'R18.3', 'R18.4', 'R18.5']
    numcodec.r18_1(ctx, run)
    numcodec.bitlen_widths(ctx, run, 'R18.1')
    numcodec.r18_2(ctx, run)
    safety.panic_inventory(ctx, run, 'R18.3', ['number::Number::decode'], floor=4)
    numcodec.r18_4(ctx, run)
    numcodec.r18_5(ctx, run)
    # stored numbers keep their value only if they reach the buffer through the codec checked above (R01.10)
    from rules import layout as _layout
    _layout.r01_10(ctx, run, rule='R18.7/R01.10')
    import boundaries
    _bf = lambda p_: p_.startswith('number::')
    boundaries.check(ctx, run, 'R18.6', [p_ for p_ in sorted(boundaries.load_baseline() or {}) if _bf(p_)], 'a numeric view / decoder rejects a value')
    return report.finish(run, level='other', explanation=EXPLANATION,
                         assumptions=["ordered-float: OrderedFloat<f64>::cmp is a total order with NaN == NaN greatest and -0.0 == +0.0", "A3: dev profile"])
