"""C17 — functions that write into a caller's buffer only append to it."""
import report
from rules import buffers

EXPLANATION = (
    "Static analysis (MIR dataflow). R17.1: for every public function with a `&mut Vec<u8>` parameter (and, transitively, every local "
    "callee or Encoder wrapper the buffer is handed to) every call that receives an alias of the buffer must be an append-class "
    "operation (extend_from_slice, push, io::Write, reserve, len, resize/IndexMut checked by R17.2); anything else (clear, truncate, "
    "insert, clone_into, ...) is a violation. R17.2: every IndexMut/resize position on the buffer must have net |buffer| coefficient 1, "
    "i.e. derive from a len() snapshot taken inside the call, directly, through reserve_jentries' result, or through a cursor "
    "(local or `&mut usize` parameter) that is initialised from such a snapshot and only advanced. R17.4: no return of a documented "
    "error (InvalidJsonType, InvalidObject, ObjectDuplicateKey) is preceded by a write to the buffer on any CFG path. R17.5: offsets "
    "pushed by the selector writers are data.len() taken after the item's bytes. Byte-for-byte equality with the empty-buffer run "
    "follows from R17.1/R17.2 and determinism and is not separately decided.")


def entries(ctx):
    out = []
    for p, fn in sorted(ctx.facts.fns.items()):
        if any(i.get('k') == 'ref' and i.get('mut') and i['inner'].get('s') == 'std::vec::Vec<u8>' for i in fn['inputs']) and p in ctx.facts.bodies:
            b = ctx.facts.bodies[p]
            if b.vis == 'pub':
                out.append(p)
    return out


def check(ctx, run):
    run.rules_run = ['R17.1', 'R17.2', 'R17.4', 'R17.5']
    ba = buffers.BufferAnalysis(ctx)
    ents = entries(ctx)
    run.floor('R17.1', 'public functions with an output buffer parameter', len(ents), 20)
    for e in ents:
        ba.analyse_entry(e)
    run.count('functions_analysed', len(ba.done))
    buffers.r17_1(ctx, run, ba)
    buffers.r17_2(ctx, run, ba)
    buffers.r17_4(ctx, run, ba, ents)
    buffers.r17_5(ctx, run)
    return report.finish(run, level='other', explanation=EXPLANATION,
                         assumptions=["io::Write for Vec<u8>, Vec::extend_from_slice, Vec::push only append", "A2/A3 as in DESIGN.md"])
