"""C05 — read-only accessors on JSONB bytes agree with the document they encode (structural clauses)."""
import report
from rules import walkers, accessors

EXPLANATION = (
    "Static analysis of every loop and iterator body that reads JSONB entry words (functions.rs, iterator.rs), by path-sensitive "
    "dataflow over loop bodies. R05.1 (W-INIT): the initial affine forms of the entry and payload cursors differ by exactly 4 × count "
    "(array) or 8 × count (object), the kind being the header tag established on every path to the loop or at every call site; iterator "
    "constructors are checked against the layout table. R05.2 (W-ADVANCE/W-PAIR): on every CFG path from a loop head back to it (and "
    "for iterator `next` bodies on every path returning Some) a cursor advanced by an entry's length is advanced by the length of an entry "
    "read on that path from the buffer that cursor indexes, the entry cursor advances by 4 per entry position, and no path moves past an "
    "entry without consuming or keeping its length. R05.4: extract_by_jentry returns containers verbatim and scalars as scalar header ‖ "
    "the same entry word ‖ exactly length bytes. R05.5: get_by_keypath uses idx for provably non-negative and len+idx for provably "
    "negative indices. R05.6: the name lookup leaves its loop early only on an exact match and latches the first case-insensitive match. "
    "R05.7: type_of's tag/first-byte tables give the documented names. R05.8: a header is read at a stepped payload offset only after the "
    "entry was tested to be a container. NOT decided: equality with the tree answer for every accessor and argument; the casts.")


def check(ctx, run):
    run.rules_run = ['R05.1', 'R05.2', 'R05.4', 'R05.5', 'R05.6', 'R05.7', 'R05.8', 'R05.9', 'R05.12', 'R05.14', 'R05.18']
    walkers.w_init(ctx, run, 'R05.1', floor=15)
    walkers.w_advance(ctx, run, 'R05.2', floor=24)
    walkers.w_pair(ctx, run, 'R05.14', floor=65)
    walkers.r05_18(ctx, run, 'R05.18')
    # the byte accessor and the accessor of the decoded tree fold case the same way (the tree answer is what C05 compares with)
    from rules import c11 as _c11
    _c11.twin_case_folding(ctx, run, 'R05.19/R11.4')
    from rules import units as _units
    _units.check(ctx, run, 'R05.15', floor=1500)
    accessors.r05_4(ctx, run)
    accessors.r05_5(ctx, run)
    accessors.r05_17(ctx, run)
    accessors.r05_6(ctx, run)
    accessors.r05_7(ctx, run)
    accessors.r05_8(ctx, run)
    accessors.r05_9(ctx, run)
    import boundaries
    _bf = lambda p_: p_ in ('functions::get_by_keypath', 'functions::get_jentry_by_index', 'functions::type_of', 'functions::get_by_index', 'functions::get_jentry_by_name', 'functions::array_length')
    boundaries.check(ctx, run, 'R05.10', [p_ for p_ in sorted(boundaries.load_baseline() or {}) if _bf(p_)], 'an accessor rejects (returns None for) a position')
    accessors.name_variants_alike(ctx, run, 'R05.11', lambda p_: p_.startswith('functions::'))
    from rules import layout as _layout
    _layout.r01_2(ctx, run, rule='R05.12/R01.2')
    from rules import intarith as _ia
    _ia.param_cast_sites(ctx, run, 'R05.16/R20.5', only=lambda p_: p_.startswith('functions::get_') or p_.startswith('functions::exists'))
    return report.finish(run, level='other', explanation=EXPLANATION, assumptions=["A1: documents are valid JSONB (the property's precondition)", "A2: no wrap of usize offsets"])
