"""C02 — JSON text parser accepts exactly the documented language, with standard meaning (structural clauses)."""
import report
from rules import textparser, parsers, safety, recursion

ROOTS = ['parser::parse_value', 'parser::parse_lazy_value']
EXPLANATION = (
    "Static analysis of parser.rs / util.rs. R02.1: parse_json_value dispatches on exactly the RFC 8259 value-start bytes (interval sets over all 256 "
    "values), every other byte is an error. R02.2: skip_unused skips is_ascii_whitespace bytes and the escaped forms \\n \\r \\t \\x0C and nothing else. "
    "R02.3: the eight RFC 8259 escapes decode to their code points, other escapes are errors. R02.4: the scanning pass and the decoding pass agree on "
    "escape widths (2/6/8) and parse_string is called only by scanners. R02.5: Ok from Parser::parse requires idx >= len after skip_unused. "
    "R02.6: plain non-negative numbers go to parse::<u64>, plain negative ones to parse::<i64>, every other form or overflow to the correctly rounded "
    "fast_float2 f64. R02.7: members are inserted with BTreeMap::insert (last duplicate wins). R02.8: panic inventory of the parse_value cone (cursor "
    "slices are reviewed assumptions, everything else discharged). R02.9: recursion on nesting (known finding). R02.10: surrogate halves ranges and the "
    "pairing formula. R02.11: each of the 24 accepting paths of the number lexer, as a sequence of cursor tests, matches "
    "-?(0|[1-9][0-9]*)(\\.[0-9]+)?([eE][+-]?[0-9]+)? with non-empty digit runs. R02.15: the string scanner fails only at end of input, inside an escape or after the closing quote, never on the value of a plain content byte. R02.16: each \\u escape decides its own bracket form from the byte at its own position (mixed-form surrogate pairs). NOT decided: acceptance of every RFC document / rejection of everything "
    "else beyond these clauses, comma/colon bookkeeping, meaning of accepted strings.")


def check(ctx, run):
    run.rules_run = ['R02.1', 'R02.2', 'R02.3', 'R02.4', 'R02.5', 'R02.6', 'R02.7', 'R02.8', 'R02.9', 'R02.10', 'R02.11', 'R02.12', 'R02.13', 'R02.14', 'R02.15', 'R02.16']
    textparser.r02_1(ctx, run)
    textparser.r02_2(ctx, run)
    textparser.r02_3(ctx, run)
    parsers.r_widths(ctx, run, 'R02.4')
    textparser.r02_5(ctx, run)
    textparser.r02_6_11(ctx, run)
    textparser.r02_7(ctx, run)
    safety.panic_inventory(ctx, run, 'R02.8', ROOTS, floor=25, only=lambda p: p.startswith('parser::') or p.startswith('util::'))
    recursion.rrec(ctx, run, 'R02.9', ROOTS, {'document'}, 'recursion of the JSON parser on nesting depth', floor=1)
    # a depth limit that counts containers instead of depth rejects valid wide documents (R20.6)
    recursion.depth_counter_pairing(ctx, run, 'R02.16/R20.6', only=lambda p_: p_.startswith(('parser::', 'util::')))
    textparser.r02_10(ctx, run)
    textparser.r02_12(ctx, run, rule='R02.12')
    safety.forbidden_calls(ctx, run, 'R02.13', ROOTS, ('String::from_utf8_lossy', 'from_utf8_lossy', 'String::from_utf16_lossy', 'char::from_u32_unchecked'),
                           'the parser', 'ill-formed input is silently repaired (U+FFFD substituted) instead of being rejected with an error',
                           only=lambda p_: p_.startswith(('util::', 'parser::', 'jsonpath::parser::', 'keypath::')))
    textparser.r02_13(ctx, run, rule='R02.15')
    textparser.r02_16(ctx, run)
    import boundaries
    _bf = lambda p_: p_.startswith(('parser::', 'util::'))
    boundaries.check(ctx, run, 'R02.14', [p_ for p_ in sorted(boundaries.load_baseline() or {}) if _bf(p_)], 'the JSON text parser rejects input')
    return report.finish(run, level='other', explanation=EXPLANATION,
                         assumptions=["fast_float2::parse is correctly rounded; str::parse::<u64/i64> is exact or Err (trusted)", "reviewed assumption table assume.json", "A3"])
