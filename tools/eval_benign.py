#!/usr/bin/env python3
"""Run every check against behaviour-preserving changes (benign/<id>/*.diff) in a scratch worktree (VERIF_REPO), never
in /repo.  Any VIOLATION here is a false alarm of the machinery (or a change that is not benign after all: triage).
usage: eval_benign.py <dir with Cxx/benign_R?.diff> [filter...]"""
import json, os, subprocess, sys, glob, re
V = '/verif'
src = sys.argv[1]
only = sys.argv[2:]
WT = '/tmp/benign_eval_wt'
subprocess.run(['git', '-C', '/repo', 'worktree', 'remove', '--force', WT], capture_output=True)
subprocess.run(['git', '-C', '/repo', 'worktree', 'add', '-q', '--detach', WT, 'HEAD'], check=True)
man = json.load(open(f'{V}/MANIFEST.json'))
pids = [c['property_id'] for c in man['checks']]
res = {}
out_path = f'{V}/benign/RESULTS.json'
if only and os.path.exists(out_path):
    res = json.load(open(out_path))
env = dict(os.environ, VERIF_REPO=WT)
try:
    for d in sorted(glob.glob(f'{src}/*/*.diff') + glob.glob(f'{src}/*.diff')):
        name = os.path.basename(os.path.dirname(d)) + '-' + os.path.basename(d)[:-5].replace('benign_', '').replace('patch', '')
        name = name.rstrip('-')
        if only and not any(o in name for o in only):
            continue
        subprocess.run(['git', '-C', WT, 'checkout', '-q', '--', '.'])
        r = subprocess.run(['git', '-C', WT, 'apply', d], capture_output=True, text=True)
        if r.returncode != 0:
            res[name] = {'error': 'patch does not apply'}
            print(name, 'PATCH DOES NOT APPLY')
            continue
        fired = {}
        for pid in pids:
            o = subprocess.run([f'{V}/check', pid], capture_output=True, text=True, cwd=V, env=env)
            if o.returncode == 1:
                fired[pid] = sorted(set(re.findall(r'rule=(\S+) function=(\S+)', o.stdout)))
            elif o.returncode != 0:
                fired[pid] = [('<check error %d>' % o.returncode, o.stderr[-300:])]
        res[name] = {'fired': fired}
        print(f"{name:20s} {'ALARM ' + json.dumps(fired) if fired else 'quiet'}", flush=True)
        os.makedirs(f'{V}/benign', exist_ok=True)
        json.dump(res, open(out_path, 'w'), indent=1)
finally:
    subprocess.run(['git', '-C', '/repo', 'worktree', 'remove', '--force', WT], capture_output=True)
print('alarms:', sum(1 for v in res.values() if v.get('fired')), '/', len(res))
