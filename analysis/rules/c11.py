"""C11 — functions give the same answer for JSON text as for its JSONB encoding (structural clauses)."""
import report
from rules import dispatch, c10

EXPLANATION = (
    "Static analysis (MIR, CFG reachability with guard edges removed). R11.1: for every public function that accepts a document as "
    "text or JSONB, and for each `&[u8]` document parameter separately, every call that consumes the raw parameter as JSONB "
    "(anything other than is_jsonb, the text parser, from_slice, first/len/cmp/from_utf8, or a public function that dispatches that "
    "position itself) must be unreachable once the true-edges of is_jsonb(param) tests are removed from the CFG, i.e. it is only "
    "reached after the sniff said JSONB; the 2^k combinations are covered because the rule is per parameter, per path. "
    "R11.2: the decoder-first fallback (from_slice, used by contains/concat) is gated as in R10.3. R11.3: every call that hands two "
    "or more documents to a core passes them in the order of the public parameters (provenance through parse_value/to_vec buffers). "
    "NOT decided: equality of results where the tree twin and the byte walker are separate code.")


def check(ctx, run):
    run.rules_run = ['R11.1', 'R11.2', 'R11.3']
    dispatch.r11_1(ctx, run)
    c10.r10_3(ctx, run, rule='R11.2')
    dispatch.r11_3(ctx, run)
    return report.finish(run, level='other', explanation=EXPLANATION, assumptions=["is_jsonb is the library's own representation sniff; text beginning with a space is excluded by the property"])
