#!/usr/bin/env python3
"""Prompt for seeded changes of the kind "a defect hidden inside a refactoring": a 20-80 line restructuring that reads as behaviour
preserving and contains one subtle change that breaks the property.  usage: seed_prompt2.py <Cxx> <worktree>"""
import subprocess, sys
pid, wt = sys.argv[1], sys.argv[2]
t = subprocess.run(['python3', '/verif/tools/seed_prompt.py', pid, wt], capture_output=True, text=True).stdout
a = t.index('YOUR TASK:')
b = t.index('For each of A and B:')
task = f'''YOUR TASK: produce THREE independent source changes ("A", "B" and "C") to the library under `{wt}/src`, each of which is a REFACTORING THAT HIDES A DEFECT: a restructuring of 20-80 changed lines that a reviewer would read as behaviour preserving (and whose description would say so), in which exactly one detail is different from the original in a way that BREAKS this property, while the crate still compiles and the existing test suite still passes. The refactoring itself must be realistic and otherwise correct; the defect must be the kind of slip that happens while restructuring. Use three different kinds of refactoring:
  A: extract or merge functions / change a private interface — pull a repeated block into a helper, merge two sibling functions behind a parameter or enum, replace out-parameters by a returned tuple or a small struct (cursor, (entry, payload) pair), turn a free function into a method — and in doing so swap or drop an argument, forget one caller's special case, return a stale field, or lose a step that only one of the merged copies had.
  B: re-express an algorithm with other control flow or another idiom — index loop to iterator adaptors (`zip`, `take`, `skip`, `chunks`, `position`, `any`/`all`), recursion to work list or back, nested `if`s to a `match` on a tuple, `while` with manual cursor to `split_at`/`split_first` — and in doing so shift a bound by one, change which element is first/last, short-circuit too early, lose an `else`, or reorder two effects.
  C: a mechanical transformation applied across several places (one conversion idiom for another, `as` to `try_from`/`from`, explicit comparisons to `matches!`/ranges, `Option` plumbing to `?`/`ok_or`, constants gathered into a table) in which ONE of the places is transformed wrongly (a range bound `..` vs `..=`, a variant left out of `matches!`, a signed/unsigned mix-up, the wrong constant picked from the table).
Prefer defects that need something specific to manifest (an unusual input, a rarely taken branch, a multi-step sequence, extreme arguments). A, B and C must touch different functions. Do not change tests, Cargo.toml, or public signatures.

'''
t = t[:a] + task + t[b:]
t = t.replace('For each of A and B:', 'For each of A, B and C:').replace('{A|B}', '{A|B|C}').replace('listing, for A and B:', 'listing, for A, B and C:').replace(
    'If after honest effort you can only produce one valid change, deliver one and say so.', 'If after honest effort you can only produce one or two valid changes, deliver those and say so. In each seed_X.md also say which line(s) of the diff are the defect and which are the honest refactoring.')
print(t)
