use jsonb::jsonpath::parse_json_path;
fn main() {
    for doc in ["5", "null", "\"text\"", "[5]"] {
        let v = jsonb::parse_value(doc.as_bytes()).unwrap().to_vec();
        let path = parse_json_path(b"$").unwrap();
        let mut data = Vec::new();
        let mut offsets = Vec::new();
        jsonb::get_by_path_array(&v, path, &mut data, &mut offsets);
        let decoded = jsonb::from_slice(&data).unwrap();
        let reenc = decoded.to_vec();
        println!("doc {doc}: result {:?} decodes to {} ; canonical={} (result {} bytes, re-encoded {} bytes)", data, decoded, reenc == data, data.len(), reenc.len());
    }
}
