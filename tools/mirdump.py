#!/usr/bin/env python3
"""Pretty-print MIR facts of bodies whose path contains a pattern:  mirdump.py FACTS PATTERN"""
import sys, json
sys.path.insert(0, '/verif/analysis')
from facts import Facts

def P(p, body=None):
    s = f"_{p['local']}"
    if body is not None and body.name_of(p['local']):
        s += f"«{body.name_of(p['local'])}»"
    for e in p.get('proj', []):
        k = e['k']
        if k == 'deref': s = f"(*{s})"
        elif k == 'field': s += f".{e['name'] or e['i']}"
        elif k == 'downcast': s += f" as {e['name']}"
        elif k == 'index': s += f"[_{e['local']}]"
        elif k == 'constindex': s += f"[{e['offset']}{'^' if e['from_end'] else ''}]"
        elif k == 'subslice': s += f"[{e['from']}..{e['to']}]"
        else: s += f".<{k}>"
    return s

def O(o, body=None):
    k = o['k']
    if k in ('copy', 'move'):
        return ('move ' if k == 'move' else '') + P(o['place'], body)
    if k == 'const':
        if 'fn' in o: return f"fn {o.get('fnfull', o['fn'])}"
        v = o.get('val')
        if 'str' in o: v = json.dumps(o['str'])
        elif 'bytes' in o: v = 'b' + json.dumps(bytes(o['bytes']).decode('latin1'))
        elif 'elems' in o: v = o['elems']
        elif 'bits' in o: v = 'bits:' + o['bits']
        s = f"const {v}_{o['ty']['s']}"
        if o.get('named'): s += f" /*{o['named']}*/"
        if 'promoted' in o: s += f" /*promoted#{o['promoted']}*/"
        return s
    return o.get('s', '?')

def RV(r, body=None):
    k = r['k']
    if k == 'use': return O(r['op'], body)
    if k == 'ref': return ('&mut ' if r['mut'] else '&') + P(r['place'], body)
    if k == 'rawptr': return '&raw ' + P(r['place'], body)
    if k == 'bin': return f"{r['op']}{'?' if r['checked'] else ''}({O(r['a'], body)}, {O(r['b'], body)})"
    if k == 'un': return f"{r['op']}({O(r['a'], body)})"
    if k == 'cast': return f"{O(r['op'], body)} as {r['to']['s']} ({r['kind']})"
    if k == 'discr': return f"discriminant({P(r['place'], body)})"
    if k == 'agg':
        ops = ', '.join(O(x, body) for x in r['ops'])
        if r['agg'] == 'adt': return f"{r['adt']}::{r['vname']}({ops})"
        if r['agg'] == 'closure': return f"closure {r['closure']}({ops})"
        return f"{r['agg']}({ops})"
    if k == 'repeat': return f"[{O(r['op'], body)}; {r['n']}]"
    return r.get('s', '?')

def dump(b):
    print(f"fn {b.path}  [{b.kind} {b.vis}] {b.file}:{b.line} argc={b.argc}")
    for l in b.locals:
        nm = f" «{l['name']}»" if l.get('name') else ''
        print(f"    let _{l['id']}: {l['ty']['s']};{nm}")
    for bl in b.blocks:
        print(f"  bb{bl['id']}{' (cleanup)' if bl.get('cleanup') else ''}:")
        for s in bl['stmts']:
            e = ' [exp:' + ','.join(s.get('macs', [])) + ']' if s.get('exp') else ''
            if s['k'] == 'assign':
                print(f"      {P(s['place'], b)} = {RV(s['rv'], b)};   // {s['line']}{e}")
            else:
                print(f"      discriminant({P(s['place'], b)}) = {s['variant']};")
        t = bl['term']
        e = ' [exp:' + ','.join(t.get('macs', [])) + ']' if t.get('exp') else ''
        k = t['k']
        if k == 'goto': print(f"      goto -> bb{t['target']};")
        elif k == 'switch':
            arms = ', '.join(f"{v}: bb{x}" for v, x in t['targets'])
            print(f"      switchInt({O(t['discr'], b)}) -> [{arms}, otherwise: bb{t['otherwise']}];   // {t['line']}")
        elif k == 'call':
            c = t['callee']
            name = c.get('full') or c.get('written') or ('indirect ' + O(c['indirect'], b))
            res = c.get('resolved')
            args = ', '.join(O(a, b) for a in t['args'])
            extra = f" => {res}" if res and res != c.get('written') else ''
            print(f"      {P(t['dest'], b)} = {name}({args}) -> bb{t['target']};{extra}   // {t['line']}{e}")
        elif k == 'assert':
            print(f"      assert({'!' if not t['expected'] else ''}{O(t['cond'], b)}, {t['kind']}({', '.join(O(a, b) for a in t['args'])})) -> bb{t['target']};   // {t['line']}")
        elif k == 'drop': print(f"      drop({P(t['place'], b)}) -> bb{t['target']};")
        else: print(f"      {k};{e}")

if __name__ == '__main__':
    f = Facts(sys.argv[1])
    pat = sys.argv[2]
    for p, b in f.bodies.items():
        if pat in p and (len(sys.argv) < 4 or b.kind != 'Promoted'):
            dump(b)
            print()
