"""R05.15 — element counts and byte quantities are not interchangeable.

A container header's low 29 bits are an element *count*.  Everything that locates bytes — a position handed to read_u32 / slicing of the
document, the length component of a selector Position, a comparison with the byte length of the document — must use it only multiplied by
the entry width (4), never as a number of bytes.  The rule tracks which integer terms are counts (the masked header word; a component of
the value a crate function returns that is such a word; a parameter that receives only counts at every call site) and reports a count
that reaches a byte position with a coefficient not divisible by 4, or that is compared with the byte length of a `[u8]` value."""
import re
from sym import Explorer, explore, show, subterms, lin
from pat import called, canon, is_call, deref_all, agg_variant, const_of, strip_casts, access_path
from mir import natural_loops
from rules.layout import cv

PREFIXES = ('functions::', 'jsonpath::selector', 'de::', 'iterator::', '<iterator')


class Units:
    def __init__(self, ctx):
        self.ctx = ctx
        self.f = ctx.facts
        self.LENMASK = cv(self.f, 'CONTAINER_HEADER_LEN_MASK')
        self._ret = {}
        self._param = {}
        self._busy = set()
        self._paths = {}

    def paths(self, b):
        if b.path not in self._paths:
            from rules.editing import region_paths
            try:
                self._paths[b.path] = region_paths(b)[0]
            except Exception:
                self._paths[b.path] = []
        return self._paths[b.path]

    # ---- which terms are counts
    def is_count_atom(self, body, a, depth=0):
        a = strip_casts(deref_all(a))
        if a[0] == 'bin' and a[1] == 'BitAnd' and any(const_of(x) == self.LENMASK for x in (a[2], a[3])):
            return True
        if depth > 3:
            return False
        # a component of a crate function's result that is a masked header word
        r, st = access_path(a)
        if r[0] == 'call' and is_call(r, 'Try::branch') and r[2]:
            r = deref_all(r[2][0])
        if r[0] == 'call' and st:
            tgt = self.f.bodies.get(r[1])
            if tgt is not None:
                comp = tuple(s for s in st if s[0] == 'f')
                if comp in self.count_components(tgt, depth + 1):
                    return True
        # a parameter that receives only counts
        if r[0] == 'init' and not st and isinstance(r[1], int) and 1 <= r[1] <= body.argc and '::{closure' not in body.path:
            return self.param_is_count(body, r[1], depth + 1)
        return False

    def count_components(self, b, depth):
        """field-step tuples (below Ok/Some) of the returned value that are counts on every return path that builds the value"""
        if b.path in self._ret:
            return self._ret[b.path]
        self._ret[b.path] = set()
        if natural_loops(b) and len(b.blocks) > 120:
            return set()
        out = None
        for q in self.paths(b):
            if q.end[0] != 'return' or q.ret is None:
                continue
            r = deref_all(q.ret)
            if agg_variant(r) and r[1][2] in ('Err', 'None'):
                continue
            if is_call(r, 'FromResidual::from_residual'):
                continue
            comps = set()
            # nom's `map(parser, |x| ..)(input)`: Ok((rest, closure(x))) — the components of what the closure returns, below (Ok.0).1
            if r[0] == 'call' and 'map::{closure' in r[1] and r[2]:
                m_ = deref_all(r[2][0])
                cl_ = [a_ for s_ in subterms(m_) for a_ in (s_[2] if s_[0] == 'call' else ()) if isinstance(a_, tuple) and a_ and a_[0] == 'agg' and isinstance(a_[1], tuple) and a_[1][0] == 'closure']
                if len(cl_) == 1 and cl_[0][1][1] in self.f.bodies:
                    inner = self.count_components(self.f.bodies[cl_[0][1][1]], depth + 1)
                    comps = {(('f', 0), ('f', 1)) + c_ for c_ in inner}
                    out = comps if out is None else (out & comps)
                    continue

            def walk(t, steps):
                t0 = deref_all(t)
                if agg_variant(t0) and t0[1][2] in ('Ok', 'Some') and t0[2]:
                    walk(t0[2][0], steps + (('f', 0),))
                    return
                if t0[0] == 'agg' and t0[1] == 'tuple':
                    for i, x in enumerate(t0[2]):
                        walk(x, steps + (('f', i),))
                    return
                if self.is_count_atom(b, t0, depth):
                    comps.add(steps)
            walk(r, ())
            out = comps if out is None else (out & comps)
        self._ret[b.path] = out or set()
        return self._ret[b.path]

    def param_is_count(self, body, k, depth):
        key = (body.path, k)
        if key in self._param:
            return self._param[key]
        if key in self._busy or body.vis == 'pub' or body.local_ty(k).get('s') not in ('usize', 'u32', 'u64', 'i32', 'i64'):
            return False
        self._busy.add(key)
        res = None
        for caller, tgts in self.ctx.cg.edges.items():
            if body.path not in tgts or caller not in self.f.bodies:
                continue
            cb = self.f.bodies[caller]
            for q in self.paths(cb):
                for e in q.calls():
                    c = e[5]['callee']
                    tg = c.get('resolved') if c.get('resolved_local') else (c.get('written') if c.get('local') else None)
                    if tg != body.path or k - 1 >= len(e[2]):
                        continue
                    l = lin(strip_casts(e[2][k - 1]))
                    pure = bool(l[0]) and all(self.is_count_atom(cb, a, depth) for a in l[0])
                    res = pure if res is None else (res and pure)
        self._busy.discard(key)
        self._param[key] = bool(res)
        return self._param[key]

    def count_coeffs(self, body, t):
        l = lin(strip_casts(t))
        return {a: c for a, c in l[0].items() if self.is_count_atom(body, a)}

    # ---- which values are byte strings
    def is_bytes(self, body, t):
        r, st = access_path(t)
        if r[0] == 'call' and is_call(r, 'Index::index', 'index::index') and r[2]:
            return self.is_bytes(body, r[2][0])
        if r[0] in ('init', 'hav') and isinstance(r[1], int):
            ty = body.local_ty(r[1])
            s = str(ty.get('s', ''))
            fs = [x for x in st if x[0] == 'f']
            if not fs:
                return bool(re.search(r'\[u8\]|Vec<u8>', s))
            # a field of a struct (self.buf): its declared type
            base = re.sub(r"^(&('\w+ )?(mut )?)+", '', s)
            base = re.sub(r'<.*$', '', base)
            adt = self.f.adts.get(base)
            if adt and adt.get('kind') == 'struct' and adt['variants']:
                flds = adt['variants'][0]['fields']
                i = fs[0][1]
                if isinstance(i, int) and i < len(flds):
                    return bool(re.search(r'\[u8\]|Vec<u8>', str(flds[i]['ty'].get('s', ''))))
        return False


def check(ctx, run, rule='R05.15', only=None, floor=None):
    f = ctx.facts
    U = Units(ctx)
    if U.LENMASK is None:
        run.undecided(rule, 'constants', 'units', 'CONTAINER_HEADER_LEN_MASK not found (anchor lost)')
        return
    n = 0
    for p, b in sorted(f.bodies.items()):
        if b.kind == 'Promoted' or not p.startswith(PREFIXES) or (only is not None and not only(p)):
            continue
        bad = {}
        for q in U.paths(b):
            for e in q.calls():
                pos = []
                if called(e[1], 'functions::read_u32') and len(e[2]) == 2:
                    pos = [e[2][1]]
                elif (called(e[1], 'Index::index', 'index::index', 'IndexMut::index_mut') or canon(e[1]).endswith(('slice::get', 'slice::get_mut', 'split_at'))) and len(e[2]) == 2 and U.is_bytes(b, e[2][0]):
                    ix = deref_all(e[2][1])
                    pos = list(ix[2]) if (agg_variant(ix) and ix[1][1].split('::')[-1].startswith('Range')) else [ix]
                for t in pos:
                    n += 1
                    off = {a: c for a, c in U.count_coeffs(b, t).items() if c % 4}
                    if off:
                        a0, c0 = sorted(off.items(), key=lambda kv: show(kv[0]))[0]
                        bad.setdefault(('position', show(t)[:70]), f'a byte position ({show(t)[:70]}) contains the element count `{show(a0)[:50]}` with coefficient {c0}: entries are 4 bytes wide, '
                                                                      f'a count locates bytes only multiplied by 4 ({e[5].get("file")}:{e[5].get("line")})')
                for a in e[2]:
                    for s in subterms(a):
                        if agg_variant(s) and s[1][1].endswith('selector::Position') and s[2]:
                            tup = deref_all(s[2][0])
                            if tup[0] == 'agg' and tup[1] == 'tuple' and len(tup[2]) == 2:
                                n += 1
                                cc = U.count_coeffs(b, tup[2][1])
                                if cc:
                                    a0 = sorted(cc, key=show)[0]
                                    bad.setdefault(('position-length', show(tup[2][1])[:70]), f'the length of a recorded position ({show(tup[2][1])[:60]}) is built from the element count '
                                                                                           f'`{show(a0)[:50]}`; it is read back as a number of bytes ({e[5].get("file")}:{e[5].get("line")})')
            # a byte length (an entry's `length`) used to count *characters*: `s.chars().skip(start).take(len)`
            for e in q.calls():
                last = canon(e[1]).split('::')[-1]
                if last in ('skip', 'take', 'nth', 'step_by') and len(e[2]) == 2 and any(s_[0] == 'call' and canon(s_[1]).split('::')[-1] in ('chars', 'char_indices') for s_ in subterms(e[2][0])):
                    n += 1
                    byte_atoms = [s_ for s_ in subterms(e[2][1]) if s_[0] == 'field' and s_[2] == 'length']
                    if byte_atoms:
                        bad.setdefault(('chars', show(e[2][1])[:60]), f'`{last}({show(e[2][1])[:50]})` counts characters of a string with an entry length, which is a number of bytes: the two differ as soon as '
                                                                      f'a key or string contains a multi-byte character ({e[5].get("file")}:{e[5].get("line")})')
            for c in q.conds:
                t = c[0]
                if t[0] == 'bin' and t[1] in ('Lt', 'Le', 'Gt', 'Ge', 'Eq', 'Ne'):
                    for x, y in ((t[2], t[3]), (t[3], t[2])):
                        xs = strip_casts(deref_all(x))
                        sl = xs[1] if xs[0] == 'len' else (xs[2][0] if is_call(xs, 'slice::len', 'Vec::len') and xs[2] else None)
                        if sl is None or not U.is_bytes(b, sl):
                            continue
                        n += 1
                        ly = lin(strip_casts(y))
                        off = {a: k_ for a, k_ in U.count_coeffs(b, y).items() if k_ % 4}
                        if off and all(U.is_count_atom(b, a) for a in ly[0]):
                            a0 = sorted(off, key=show)[0]
                            bad.setdefault(('compare', show(t)[:70]), f'the byte length of `{show(sl)[:30]}` is compared with the element count `{show(a0)[:50]}` ({show(t)[:70]}): '
                                                                     'a test in bytes against a number of 4-byte entries')
        if bad:
            for (kind, _), why in sorted(bad.items()):
                run.violation(rule, p, f'count-as-bytes[{kind}]', why, f'{b.file}:{b.line}')
    if not any(o.rule == rule and o.verdict == 'violation' for o in run.obs):
        run.proved(rule, '<crate>', 'units', f'{n} byte positions, position lengths and length comparisons examined: no element count is used as a number of bytes', nontrivial=bool(n))
    if floor is not None:
        run.floor(rule, 'byte positions and length comparisons examined', n, floor)
