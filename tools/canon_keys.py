#!/usr/bin/env python3
"""(Re)compute the rename-invariant construct descriptions (`cdesc`) of assume.json and known_findings.json entries
from the facts of the current /repo tree.  Run by hand after adding an entry; never run by a check."""
import sys, json
sys.path.insert(0, '/verif/analysis')
from extract import get_facts
from facts import Facts
from report import canon_desc, scc_members
f = Facts(get_facts()[0])
for fn in ('/verif/assume.json', '/verif/known_findings.json'):
    es = json.load(open(fn))
    n = 0
    for e in es:
        k = e.get('key')
        if not k or k.count('|') < 3:
            continue
        r, fnn, rest = k.split('|', 2)
        desc, occ = rest.rsplit('|', 1)
        if scc_members(desc) is not None:
            continue
        e['cdesc'] = canon_desc(f, fnn, desc)
        n += 1
    json.dump(es, open(fn, 'w'), indent=1)
    print(fn, n, 'entries canonicalised')
