#!/bin/sh
# usage: tools/und.sh <corpus id> <PID>  — apply the patch in /tmp/dev, run the check, list violations and undecided obligations
d=/verif/benign/$1; [ -d $d ] || d=/verif/seeded/$1
git -C /tmp/dev checkout -q -- .; git -C /tmp/dev apply $d/patch.diff || exit 1
mkdir -p /tmp/und_ev
VERIF_REPO=/tmp/dev VERIF_EVIDENCE_DIR=/tmp/und_ev /verif/check $2 | grep -v "^KNOWN" | grep "rule=\|reason\|^\[" | cut -c1-${WHYW:-300}
python3 - <<PY
import json
d=json.load(open('/tmp/und_ev/$2.json'))
for o in d['coverage']['undecided_list']: print('UND', o['key'][:110], '|', o['reason'][:${WHYW:-300}])
PY
git -C /tmp/dev checkout -q -- .
