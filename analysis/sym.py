"""Path-sensitive dataflow over loop-free regions of a MIR body (G4).

`explore` enumerates the CFG paths of a region and, along each, propagates a store of symbolic value terms
(a forward dataflow with one fact per place), the branch conditions taken and the ordered call events.
No solver is involved: conditions are only collected, constant-folded and matched structurally by the rules.

Terms (hashable tuples):
  ('const', v, ty)            ('fn', path, full)
  ('init', local, name)       value of a local at region start (argument or havoc at a cut point)
  ('field', t, name, idx)     ('deref', t)   ('ref', t)    ('index', t, i)   ('downcast', t, vname, vidx)
  ('bin', op, a, b)           ('ovf', op, a, b)      ('un', op, a)     ('cast', kind, a, ty)
  ('discr', t)                ('agg', tag, ops)      ('call', name, args, bb)   ('post', bb, t)  ('len', t)
  ('repeat', a, n)            ('other', s)
"""
from mir import natural_loops, callee_name, place_key

FACTS = None   # set by the check driver so promoted constants can be resolved
INT_RANGES = {}
for w in (8, 16, 32, 64, 128):
    INT_RANGES['u%d' % w] = (0, (1 << w) - 1)
    INT_RANGES['i%d' % w] = (-(1 << (w - 1)), (1 << (w - 1)) - 1)
INT_RANGES['usize'] = INT_RANGES['u64']
INT_RANGES['isize'] = INT_RANGES['i64']


def is_const(t):
    return t[0] == 'const'


def cval(t):
    return t[1] if t[0] == 'const' else None


def mk_const(v, ty='usize'):
    return ('const', v, ty)


def wrap(v, ty):
    r = INT_RANGES.get(ty)
    if r is None or not isinstance(v, int) or isinstance(v, bool):
        return v
    lo, hi = r
    n = hi - lo + 1
    return (v - lo) % n + lo


def fold_bin(op, a, b, ty=None):
    """Constant folding / light normalisation of a binary operation on terms."""
    if is_const(a) and is_const(b) and isinstance(a[1], int) and isinstance(b[1], int) \
            and not isinstance(a[1], bool) and not isinstance(b[1], bool):
        x, y = a[1], b[1]
        t = a[2]
        try:
            if op == 'Add':
                return ('const', wrap(x + y, t), t)
            if op == 'Sub':
                return ('const', wrap(x - y, t), t)
            if op == 'Mul':
                return ('const', wrap(x * y, t), t)
            if op == 'BitAnd':
                return ('const', x & y, t)
            if op == 'BitOr':
                return ('const', x | y, t)
            if op == 'BitXor':
                return ('const', x ^ y, t)
            if op == 'Shl':
                return ('const', wrap(x << y, t), t)
            if op == 'Shr':
                return ('const', x >> y, t)
            if op == 'Eq':
                return ('const', x == y, 'bool')
            if op == 'Ne':
                return ('const', x != y, 'bool')
            if op == 'Lt':
                return ('const', x < y, 'bool')
            if op == 'Le':
                return ('const', x <= y, 'bool')
            if op == 'Gt':
                return ('const', x > y, 'bool')
            if op == 'Ge':
                return ('const', x >= y, 'bool')
        except Exception:
            pass
    if is_const(a) and is_const(b) and isinstance(a[1], bool) and isinstance(b[1], bool):
        if op == 'Eq':
            return ('const', a[1] == b[1], 'bool')
        if op == 'Ne':
            return ('const', a[1] != b[1], 'bool')
        if op == 'BitAnd':
            return ('const', a[1] and b[1], 'bool')
        if op == 'BitOr':
            return ('const', a[1] or b[1], 'bool')
    return ('bin', op, a, b)


class Path:
    __slots__ = ('conds', 'events', 'store', 'end', 'blocks', 'ret')

    def __init__(self):
        self.conds = []     # (term, 'eq'|'ne', value|tuple(values), bb)
        self.events = []    # ('call', name, args, bb, term, dest_term) | ('assert', kind, args, bb, cond) | ('store', place, val, bb)
        self.store = {}
        self.end = None     # ('return'|'stop'|'backedge'|'diverge'|'unreachable'|'cap', bb)
        self.blocks = []
        self.ret = None

    def calls(self, suffix=None):
        for e in self.events:
            if e[0] == 'call' and (suffix is None or name_is(e[1], suffix)):
                yield e


def name_is(name, suffix):
    """Does a (resolved) callee def-path denote `suffix` (match at a path-segment boundary, generics ignored)?"""
    import re
    n = _strip_generics(name)
    s = suffix
    return n == s or n.endswith('::' + s)


_sg_cache = {}


def _strip_generics(n):
    r = _sg_cache.get(n)
    if r is None:
        out = []
        depth = 0
        for ch in n:
            if ch == '<':
                depth += 1
            elif ch == '>':
                depth -= 1
            elif depth == 0:
                out.append(ch)
        r = ''.join(out).replace('::::', '::')
        _sg_cache[n] = r
    return r


def derived_eq(cond):
    """`if x == K` / `if x != K` (a boolean branch on a comparison with an integer constant) says the same as a `match x`
    arm: also record it in the switch form (x eq K) / (x ne (K,)), so that rules read both spellings alike."""
    t, op, val = cond[0], cond[1], cond[2]
    if op != 'eq' or not isinstance(val, bool) or t[0] != 'bin' or t[1] not in ('Eq', 'Ne'):
        return []
    for a, b in ((t[2], t[3]), (t[3], t[2])):
        k = b
        while k[0] == 'cast' and len(k) > 2:
            k = k[2]
        if k[0] == 'const' and isinstance(k[1], int) and not isinstance(k[1], bool) and a[0] != 'const':
            holds = (t[1] == 'Eq') == val
            return [(a, 'eq', k[1], cond[3])] if holds else [(a, 'ne', (k[1],), cond[3])]
    return []


_PRED = {}
_PRED_BUSY = set()


def pred_summary(callee):
    """For a small crate-local `fn(..) -> bool` without loops whose every path returns a constant: [(conditions, result)], the
    conditions being over its parameters only; None when the function is not of that form.  Lets a rule read `is_object_header(h)`
    as the test on `h` it stands for."""
    if callee in _PRED:
        return _PRED[callee]
    _PRED[callee] = None
    f = FACTS
    if f is None or callee in _PRED_BUSY:
        return None
    b = f.bodies.get(callee) if hasattr(f, 'bodies') else None
    if b is None or b.kind == 'Promoted' or '::{closure' in callee or str(b.local_ty(0).get('s')) != 'bool' or len(b.blocks) > 40 or natural_loops(b):
        return None
    _PRED_BUSY.add(callee)
    try:
        ps = Explorer(b, max_paths=40).explore()
    except Exception:
        ps = None
    finally:
        _PRED_BUSY.discard(callee)
    if not ps or len(ps) > 12:
        return None
    out = []
    for q in ps:
        if q.end[0] == 'unreachable':
            continue
        if q.end[0] != 'return' or q.ret is None or q.ret[0] != 'const' or not isinstance(q.ret[1], bool):
            return None
        cs = []
        for c in q.conds:
            if any(s_[0] in ('call', 'hav', 'post') for s_ in subterms(c[0])):
                return None
            cs.append(c)
        out.append((cs, q.ret[1]))
    _PRED[callee] = out or None
    return _PRED[callee]


def _subst_params(t, args):
    if not isinstance(t, tuple) or not t:
        return t
    if t[0] == 'init' and isinstance(t[1], int) and 1 <= t[1] <= len(args):
        return args[t[1] - 1]
    return tuple(_subst_params(x, args) if isinstance(x, tuple) and x and isinstance(x[0], str) else x for x in t)


def derived_pred(cond):
    """`helper(args) == true/false` for a crate-local predicate with a summary: the conditions on `args` that every path of the helper
    with that answer establishes (all of them when there is exactly one such path)."""
    t, op, val = cond[0], cond[1], cond[2]
    if op != 'eq' or not isinstance(val, bool) or t[0] != 'call' or not isinstance(t[1], str) or FACTS is None:
        return []
    try:
        summ = pred_summary(t[1]) if t[1] in getattr(FACTS, 'bodies', {}) else None
    except Exception:
        summ = None
    if not summ:
        return []
    mine = [cs for cs, r in summ if r == val]
    if not mine:
        return []
    keep = [c for c in mine[0] if all(any(c[:3] == d[:3] for d in other) for other in mine[1:])]
    out = []
    for c in keep:
        nc = (_subst_params(c[0], t[2]), c[1], c[2], cond[3] if len(cond) > 3 else None)
        out.append(nc)
        out.extend(derived_eq(nc))
    return out


class Explorer:
    def __init__(self, body, max_paths=6000, max_blocks=400):
        self.body = body
        self.max_paths = max_paths
        self.max_blocks = max_blocks
        self.loops = natural_loops(body)
        self.capped = False
        self._modified = {}

    # ----- terms for places / operands under a store
    def init_local(self, l):
        return ('init', l, self.body.name_of(l))

    def read_local(self, store, l):
        t = store.get(('L', l))
        if t is None:
            t = self.init_local(l)
        return t

    def place_term(self, store, p):
        """Term denoting the *location* of a place (for memory keyed by location) and its current value."""
        t = self.read_local(store, p['local'])
        loc = ('L', p['local'])
        for e in p.get('proj', []):
            k = e['k']
            if k == 'deref':
                if t[0] == 'ref' and t[1][0] == 'loc':
                    # reference to a local place: read the place's current value
                    loc = t[1][1]
                    cur = store.get(loc)
                    if cur is None and loc[0] == 'L':
                        cur = self.read_local(store, loc[1])
                    t = cur if cur is not None else t[1][2]
                elif t[0] == 'ref':
                    loc = ('M', t[1])
                    t = self.read_mem(store, t[1])
                else:
                    loc = ('M', ('deref', t))
                    t = self.read_mem(store, ('deref', t))
            elif k == 'field':
                nm = e.get('name') or str(e['i'])
                loc = self.sub_loc(loc, ('field', nm, e['i']))
                t = self.project_field(store, loc, t, nm, e['i'])
            elif k == 'downcast':
                loc = self.sub_loc(loc, ('downcast', e.get('name', ''), e['v']))
                t = ('downcast', t, e.get('name', ''), e['v'])
            elif k == 'index':
                it = self.read_local(store, e['local'])
                loc = self.sub_loc(loc, ('index', it))
                t = ('index', t, it)
            elif k == 'constindex':
                it = ('const', e['offset'], 'usize')
                loc = self.sub_loc(loc, ('index', it))
                t = ('index', t, it)
            else:
                loc = self.sub_loc(loc, (k,))
                t = ('other', k)
        return loc, t

    @staticmethod
    def sub_loc(loc, step):
        return ('S', loc, step)

    def read_mem(self, store, place_t):
        v = store.get(('M', place_t))
        if v is not None:
            return v
        return place_t

    def project_field(self, store, loc, base_val, name, idx):
        v = store.get(loc)
        if v is not None:
            return v
        if base_val[0] == 'agg' and idx < len(base_val[2]) and base_val[1] != 'array':
            return base_val[2][idx]
        if base_val[0] == 'pair':
            return base_val[1 + idx] if idx < 2 else ('other', 'pair')
        if base_val[0] == 'downcast' and base_val[1][0] == 'agg' and idx < len(base_val[1][2]):
            return base_val[1][2][idx]
        return ('field', base_val, name, idx)

    def write_place(self, store, p, val):
        proj = p.get('proj', [])
        if not proj:
            store[('L', p['local'])] = val
            # drop stale sub-locations of this local
            for k in [k for k in store if k[0] == 'S' and self._root(k) == ('L', p['local'])]:
                del store[k]
            return ('L', p['local'])
        loc, _ = self.place_term(store, p)
        store[loc] = val
        return loc

    @staticmethod
    def _root(loc):
        while loc[0] == 'S':
            loc = loc[1]
        return loc

    def operand(self, store, o):
        k = o['k']
        if k == 'const':
            if 'fn' in o:
                return ('fn', o['fn'], o.get('fnfull'))
            if 'str' in o:
                v = o['str']
            elif 'bytes' in o:
                v = tuple(o['bytes'])
            elif 'elems' in o:
                v = tuple(o['elems'])
            elif 'bits' in o:
                v = 'bits:' + o['bits']
            else:
                v = o.get('val')
            if v is None and 'promoted' in o:
                pv = self.promoted_value(o['promoted'])
                if pv is not None:
                    return pv
            return ('const', v, o['ty']['s'])
        if k in ('copy', 'move'):
            return self.place_term(store, o['place'])[1]
        return ('other', o.get('s', '?'))

    def rvalue(self, store, r):
        k = r['k']
        if k == 'use':
            return self.operand(store, r['op'])
        if k in ('ref', 'rawptr'):
            loc, val = self.place_term(store, r['place'])
            # a reference to memory reached through a pointer is that pointer's pointee term
            if loc[0] == 'M':
                return ('ref', loc[1])
            return ('ref', ('loc', loc, val))
        if k == 'bin':
            a = self.operand(store, r['a'])
            b = self.operand(store, r['b'])
            if r['checked']:
                ty = r['a'].get('ty', {}).get('s') if r['a']['k'] == 'const' else None
                if ty is None and r['b']['k'] == 'const':
                    ty = r['b'].get('ty', {}).get('s')
                if ty is None and r['a']['k'] in ('copy', 'move') and not r['a']['place'].get('proj'):
                    ty = self.body.local_ty(r['a']['place']['local']).get('s')
                if ty is None and r['b']['k'] in ('copy', 'move') and not r['b']['place'].get('proj'):
                    ty = self.body.local_ty(r['b']['place']['local']).get('s')
                return ('pair', fold_bin(r['op'], a, b), ('ovf', r['op'], a, b, ty))
            return fold_bin(r['op'], a, b)
        if k == 'un':
            a = self.operand(store, r['a'])
            if r['op'] == 'Not' and a[0] == 'const' and isinstance(a[1], bool):
                return ('const', not a[1], 'bool')
            if r['op'] == 'PtrMetadata':
                return ('len', a)
            return ('un', r['op'], a)
        if k == 'cast':
            a = self.operand(store, r['op'])
            if r['kind'] == 'IntToInt' and a[0] == 'const' and isinstance(a[1], int) and not isinstance(a[1], bool):
                return ('const', wrap(a[1], r['to']['s']), r['to']['s'])
            if r['kind'].startswith('PointerCoercion'):
                return a
            return ('cast', r['kind'], a, r['to']['s'])
        if k == 'discr':
            _, v = self.place_term(store, r['place'])
            if v[0] == 'agg' and isinstance(v[1], tuple) and v[1][0] == 'adt':
                return ('const', v[1][3], 'isize')
            return ('discr', v)
        if k == 'agg':
            ops = tuple(self.operand(store, x) for x in r['ops'])
            if r['agg'] == 'adt':
                tag = ('adt', r['adt'], r['vname'], r['variant'])
            elif r['agg'] == 'closure':
                tag = ('closure', r['closure'])
            else:
                tag = r['agg']
            return ('agg', tag, ops)
        if k == 'repeat':
            return ('repeat', self.operand(store, r['op']), r['n'])
        return ('other', r.get('s', '?'))

    def promoted_value(self, n):
        """Value of a promoted constant of this body whose bytes the driver could not print (e.g. `&(0xDC00..=0xDFFF)`):
        the return term of the promoted MIR body."""
        if FACTS is None:
            return None
        base = self.body.path
        if '::{promoted#' in base:
            return None
        pb = FACTS.bodies.get(f"{base}::{{promoted#{n}}}")
        if pb is None:
            return None
        key = ('promoted', n)
        if key in self._modified:
            return self._modified[key]
        self._modified[key] = None
        ex = Explorer(pb, max_paths=8)
        ps = [p for p in ex.explore() if p.end and p.end[0] == 'return']
        val = ps[0].ret if len(ps) == 1 else None
        # a reference to the promoted body's own local: keep the value, not the (foreign) location
        if val is not None and val[0] == 'ref' and val[1][0] == 'loc' and len(val[1]) > 2:
            val = ('ref', val[1][2])
        self._modified[key] = val
        return val

    # ----- loops
    def modified_in(self, blocks):
        """Locations (locals) assigned in a set of blocks, and whether memory may be written."""
        key = frozenset(blocks)
        if key in self._modified:
            return self._modified[key]
        locs = set()
        for b in blocks:
            bl = self.body.blocks[b]
            for s in bl['stmts']:
                if s['k'] == 'assign' or s['k'] == 'setdiscr':
                    locs.add(s['place']['local'])
            t = bl['term']
            if t['k'] == 'call':
                locs.add(t['dest']['local'])
        self._modified[key] = locs
        return locs

    def havoc_loop(self, store, head, tag):
        blocks = self.loops[head]
        for l in self.modified_in(blocks):
            store[('L', l)] = ('hav', l, self.body.name_of(l), tag)
            for k in [k for k in store if k[0] == 'S' and self._root(k) == ('L', l)]:
                del store[k]
        # memory written in the loop: forget everything reached through pointers
        for k in [k for k in store if k[0] == 'M' or (k[0] == 'S' and self._root(k)[0] == 'M')]:
            del store[k]

    # ----- exploration
    def explore(self, start=0, stop=(), init_store=None, cut_loops=True, entry_is_head=False):
        """Enumerate paths from `start`.  A path ends at return/unreachable/diverging call, when it reaches a
        block in `stop` (end kind 'stop'), or when it comes back to a loop head it already passed ('backedge')."""
        body = self.body
        out = []
        stop = set(stop)
        first = Path()
        if init_store:
            first.store = dict(init_store)
        stack = [(start, first, frozenset(), True)]
        while stack:
            bb, path, heads, at_start = stack.pop()
            if len(out) >= self.max_paths:
                self.capped = True
                break
            while True:
                if bb in stop and not at_start:
                    path.end = ('stop', bb)
                    out.append(path)
                    break
                if len(path.blocks) > self.max_blocks:
                    path.end = ('cap', bb)
                    self.capped = True
                    out.append(path)
                    break
                if bb in self.loops and cut_loops:
                    if bb in heads:
                        path.end = ('backedge', bb)
                        out.append(path)
                        break
                    if not (at_start and entry_is_head and init_store is not None):
                        self.havoc_loop(path.store, bb, bb)
                    heads = heads | {bb}
                at_start = False
                path.blocks.append(bb)
                bl = body.blocks[bb]
                for s in bl['stmts']:
                    if s['k'] == 'assign':
                        v = self.rvalue(path.store, s['rv'])
                        loc = self.write_place(path.store, s['place'], v)
                        if loc[0] != 'L' and self._root(loc)[0] == 'M':
                            path.events.append(('store', loc, v, bb))
                    elif s['k'] == 'setdiscr':
                        pass
                t = bl['term']
                k = t['k']
                if k == 'goto':
                    bb = t['target']
                    continue
                if k == 'drop':
                    bb = t['target']
                    continue
                if k == 'return':
                    path.ret = self.read_local(path.store, 0)
                    path.end = ('return', bb)
                    out.append(path)
                    break
                if k in ('unreachable', 'resume', 'other'):
                    path.end = ('unreachable', bb)
                    out.append(path)
                    break
                if k == 'assert':
                    c = self.operand(path.store, t['cond'])
                    args = tuple(self.operand(path.store, a) for a in t['args'])
                    path.events.append(('assert', t['kind'], args, bb, c, t['expected'], len(path.conds)))
                    if c[0] == 'const' and isinstance(c[1], bool) and c[1] != t['expected']:
                        path.end = ('diverge', bb)
                        out.append(path)
                        break
                    path.conds.append((c, 'eq', t['expected'], bb))
                    bb = t['target']
                    continue
                if k == 'call':
                    name = callee_name(t)
                    args = tuple(self.operand(path.store, a) for a in t['args'])
                    res = ('call', name, args, bb)
                    # widening conversions of integer constants (`i8::MIN.into()`) are constants
                    if len(args) == 1 and args[0][0] == 'const' and isinstance(args[0][1], int) and not isinstance(args[0][1], bool) \
                            and (name.endswith('::into') or name.endswith('::from')):
                        dty = None
                        if not t['dest'].get('proj'):
                            dty = self.body.local_ty(t['dest']['local'])
                        if dty is not None and dty.get('k') == 'int':
                            res = ('const', args[0][1], dty['s'])
                    # checked conversions of integer constants and unwrap of a known Ok/Some
                    if len(args) == 1 and args[0][0] == 'const' and isinstance(args[0][1], int) and not isinstance(args[0][1], bool) \
                            and (name.endswith('::try_into') or name.endswith('::try_from')) and not t['dest'].get('proj'):
                        dty = self.body.local_ty(t['dest']['local'])
                        if dty.get('path') == 'std::result::Result' and dty.get('args') and dty['args'][0].get('k') == 'int':
                            ity = dty['args'][0]['s']
                            r = INT_RANGES.get(ity)
                            if r and r[0] <= args[0][1] <= r[1]:
                                res = ('agg', ('adt', 'std::result::Result', 'Ok', 0), (('const', args[0][1], ity),))
                    if len(args) >= 1 and args[0][0] == 'agg' and isinstance(args[0][1], tuple) and args[0][1][0] == 'adt' \
                            and args[0][1][2] in ('Ok', 'Some') and args[0][2] and (name.endswith('::unwrap') or name.endswith('::expect')):
                        res = args[0][2][0]
                    # |const|
                    if len(args) == 1 and args[0][0] == 'const' and isinstance(args[0][1], int) and not isinstance(args[0][1], bool) \
                            and name.split('::')[-1] in ('unsigned_abs', 'abs', 'wrapping_abs'):
                        dty = self.body.local_ty(t['dest']['local']) if not t['dest'].get('proj') else None
                        if dty is not None and dty.get('k') == 'int':
                            res = ('const', abs(args[0][1]), dty['s'])
                    # length of a fixed-size array viewed as a slice is its type-level length
                    if len(args) == 1 and name.endswith('::len') and 'slice' in name:
                        n = self.array_len(args[0])
                        if n is not None:
                            res = ('const', n, 'usize')
                    path.events.append(('call', name, args, bb, res, t, len(path.conds)))
                    # effects through &mut arguments
                    for a_op, a in zip(t['args'], args):
                        self.havoc_through(path.store, a_op, a, bb)
                    self.write_place(path.store, t['dest'], res)
                    if t.get('target') is None:
                        path.end = ('diverge', bb)
                        out.append(path)
                        break
                    bb = t['target']
                    continue
                if k == 'switch':
                    d = self.operand(path.store, t['discr'])
                    targets = t['targets']
                    if d[0] == 'const' and d[1] is not None:
                        v = d[1]
                        if isinstance(v, bool):
                            v = 1 if v else 0
                        nxt = None
                        for val, tb in targets:
                            if val == v:
                                nxt = tb
                                break
                        if nxt is None:
                            nxt = t['otherwise']
                        bb = nxt
                        continue
                    # prune using earlier constraints on the same term
                    known_eq = None
                    known_ne = set()
                    for (ct, op, val, _) in path.conds:
                        if ct == d:
                            if op == 'eq':
                                known_eq = val
                            else:
                                known_ne.update(val)
                    isbool = t['dty'].get('k') == 'bool'
                    branches = []
                    for val, tb in targets:
                        vv = bool(val) if isbool else val
                        if known_eq is not None and known_eq != vv:
                            continue
                        if vv in known_ne:
                            continue
                        branches.append((tb, (d, 'eq', vv, bb)))
                    vals = tuple((bool(v) if isbool else v) for v, _ in targets)
                    if isbool and len(vals) == 1:
                        other = (d, 'eq', not vals[0], bb)
                        if known_eq is None or known_eq == (not vals[0]):
                            branches.append((t['otherwise'], other))
                    else:
                        if known_eq is None or known_eq not in vals:
                            # is the otherwise edge feasible at all (all values covered)?
                            branches.append((t['otherwise'], (d, 'ne', vals, bb)))
                    if not branches:
                        path.end = ('unreachable', bb)
                        out.append(path)
                        break
                    for tb, cond in branches[1:]:
                        np = Path()
                        np.conds = path.conds + [cond] + derived_eq(cond) + derived_pred(cond)
                        np.events = list(path.events)
                        np.store = dict(path.store)
                        np.blocks = list(path.blocks)
                        stack.append((tb, np, heads, False))
                    tb, cond = branches[0]
                    path.conds.append(cond)
                    path.conds.extend(derived_eq(cond))
                    path.conds.extend(derived_pred(cond))
                    bb = tb
                    continue
                path.end = ('unreachable', bb)
                out.append(path)
                break
        return out

    def array_len(self, t):
        """N if the term is (a reference to / an unsizing cast of) a local of array type [T; N]"""
        import re as _re
        for _ in range(6):
            if t[0] in ('ref', 'deref'):
                t = t[1]
            elif t[0] == 'cast':
                t = t[2]
            else:
                break
        l = None
        if t[0] == 'loc' and t[1][0] == 'L':
            l = t[1][1]
        elif t[0] in ('init', 'hav'):
            l = t[1]
        if l is None:
            return None
        ty = self.body.local_ty(l)
        if ty.get('k') == 'array':
            m = _re.match(r'^\[.*; (\d+)\]$', ty.get('s', ''))
            if m:
                return int(m.group(1))
        return None

    def havoc_through(self, store, a_op, a, bb):
        """A callee may write through a `&mut` argument: forget what is known about the pointee."""
        ty = None
        if a_op['k'] in ('copy', 'move'):
            p = a_op['place']
            if not p.get('proj'):
                ty = self.body.local_ty(p['local'])
        if ty is None or ty.get('k') != 'ref' or not ty.get('mut'):
            return
        if a[0] != 'ref':
            return
        target = a[1]
        if target[0] == 'loc':
            loc = target[1]
            root = self._root(loc)
            # overwrite the location (and forget sub-locations)
            for k in [k for k in store if k == loc or (k[0] == 'S' and self._is_prefix(loc, k))]:
                del store[k]
            store[loc] = ('post', bb, ('locval', loc))
        else:
            for k in [k for k in store if (k[0] == 'M' and self._mentions(k[1], target)) or
                      (k[0] == 'S' and self._root(k)[0] == 'M' and self._mentions(self._root(k)[1], target))]:
                del store[k]
            store[('M', target)] = ('post', bb, target)

    @staticmethod
    def _is_prefix(loc, k):
        while True:
            if k == loc:
                return True
            if k[0] != 'S':
                return False
            k = k[1]

    @staticmethod
    def _mentions(t, target):
        if t == target:
            return True
        st = [t]
        while st:
            x = st.pop()
            if x == target:
                return True
            if isinstance(x, tuple):
                for y in x:
                    if isinstance(y, tuple):
                        st.append(y)
        return False


def explore(body, **kw):
    ex = Explorer(body, max_paths=kw.pop('max_paths', 6000))
    ps = ex.explore(**kw)
    return ps, ex.capped


# ---------------------------------------------------------------- linear forms

def lin(t):
    """Affine form of an integer term: ({atom: coef}, const) or None.  Casts between integer types are
    transparent (assumption A2: no wrap of offsets)."""
    k = t[0]
    if k == 'const' and isinstance(t[1], int) and not isinstance(t[1], bool):
        return ({}, t[1])
    if k == 'cast' and t[1] == 'IntToInt':
        return lin(t[2])
    if k == 'bin' and t[1] in ('Add', 'Sub'):
        a = lin(t[2])
        b = lin(t[3])
        if a is None or b is None:
            return ({t: 1}, 0)
        sgn = 1 if t[1] == 'Add' else -1
        d = dict(a[0])
        for x, c in b[0].items():
            d[x] = d.get(x, 0) + sgn * c
            if d[x] == 0:
                del d[x]
        return (d, a[1] + sgn * b[1])
    if k == 'bin' and t[1] == 'Mul':
        a = lin(t[2])
        b = lin(t[3])
        if a is not None and b is not None:
            if not a[0]:
                return ({x: c * a[1] for x, c in b[0].items() if c * a[1] != 0}, b[1] * a[1])
            if not b[0]:
                return ({x: c * b[1] for x, c in a[0].items() if c * b[1] != 0}, a[1] * b[1])
        return ({t: 1}, 0)
    return ({t: 1}, 0)


def lin_sub(a, b):
    d = dict(a[0])
    for x, c in b[0].items():
        d[x] = d.get(x, 0) - c
        if d[x] == 0:
            del d[x]
    return (d, a[1] - b[1])


def subterms(t):
    st = [t]
    while st:
        x = st.pop()
        yield x
        for y in x:
            if isinstance(y, tuple) and y and isinstance(y[0], str):
                st.append(y)
            elif isinstance(y, tuple):
                for z in y:
                    if isinstance(z, tuple) and z and isinstance(z[0], str):
                        st.append(z)


def show(t, depth=0):
    """Readable rendering of a sym term."""
    if not isinstance(t, tuple) or not t:
        return str(t)
    if depth > 10:
        return '…'
    k = t[0]
    if k == 'const':
        v = t[1]
        if isinstance(v, tuple):
            try:
                return 'b' + repr(bytes(v).decode('latin1'))
            except Exception:
                return str(v)
        return repr(v) if isinstance(v, str) else str(v)
    if k == 'fn':
        return _strip_generics(t[1]).split('::')[-1]
    if k in ('init', 'hav'):
        nm = t[2] if t[2] else f'_{t[1]}'
        return nm + ("'" if k == 'hav' else '')
    if k == 'field':
        return f"{show(t[1], depth + 1)}.{t[2]}"
    if k == 'deref':
        return f"*{show(t[1], depth + 1)}"
    if k == 'ref':
        return f"&{show(t[1], depth + 1)}"
    if k == 'loc':
        return show(t[2], depth + 1) if len(t) > 2 else show_loc(t[1], depth + 1)
    if k == 'index':
        return f"{show(t[1], depth + 1)}[{show(t[2], depth + 1)}]"
    if k == 'downcast':
        return f"({show(t[1], depth + 1)} as {t[2]})"
    if k in ('bin', 'ovf'):
        return f"{'ovf' if k == 'ovf' else ''}{t[1]}({show(t[2], depth + 1)},{show(t[3], depth + 1)})"
    if k == 'un':
        return f"{t[1]}({show(t[2], depth + 1)})"
    if k == 'len':
        return f"len({show(t[1], depth + 1)})"
    if k == 'cast':
        return f"({show(t[2], depth + 1)} as {t[3]})"
    if k == 'discr':
        return f"discr({show(t[1], depth + 1)})"
    if k == 'agg':
        tag = t[1]
        nm = tag if isinstance(tag, str) else (tag[1].split('::')[-1] + ('::' + tag[2] if tag[0] == 'adt' else ''))
        return f"{nm}({','.join(show(x, depth + 1) for x in t[2])})"
    if k == 'pair':
        return f"pair({show(t[1], depth + 1)})"
    if k == 'call':
        nm = '::'.join(_strip_generics(t[1]).split('::')[-2:])
        return f"{nm}({','.join(show(x, depth + 1) for x in t[2])})"
    if k == 'post':
        return f"post@{t[1]}({show(t[2], depth + 1)})"
    if k == 'locval':
        return show_loc(t[1], depth + 1)
    return str(t)


def show_loc(loc, depth=0):
    if loc[0] == 'L':
        return f"_{loc[1]}"
    if loc[0] == 'M':
        return f"*[{show(loc[1], depth + 1)}]"
    if loc[0] == 'S':
        return f"{show_loc(loc[1], depth + 1)}.{loc[2][1] if len(loc[2]) > 1 else loc[2][0]}"
    return str(loc)
