#!/usr/bin/env python3
"""Prompt for seeded changes of the kind the brief singles out: "two cooperating sites that each look fine alone" (A) and "needs a
multi-step sequence of operations / an unusual class of input to manifest" (B).  usage: seed_prompt3.py <Cxx> <worktree>"""
import subprocess, sys
pid, wt = sys.argv[1], sys.argv[2]
t = subprocess.run(['python3', '/verif/tools/seed_prompt.py', pid, wt], capture_output=True, text=True).stdout
a = t.index('YOUR TASK:')
b = t.index('For each of A and B:')
task = f'''YOUR TASK: produce TWO independent, realistic source changes ("A" and "B") to the library under `{wt}/src`, each of which BREAKS this property while the crate still compiles and the existing test suite still passes. They must NOT be sabotage that ordinary use would expose at once, and they must be of these two kinds:
  A: TWO COOPERATING SITES that each look fine alone. Either (i) change a producer and leave its consumer (or the reverse) so that the two now disagree about a convention both used to share — a unit (count vs bytes), an inclusive/exclusive bound, a base an offset is relative to, which of two lengths a field holds, whether a tag was already consumed, sort order, sign convention, who is responsible for a check — where the changed site, read by itself, is still self-consistent and plausible; or (ii) make two small edits in two different functions, each of which is harmless without the other, whose combination breaks the property. The demonstration must need the interaction (explain in seed_A.md why each site alone looks right).
  B: a change that needs a SPECIFIC MULTI-STEP SEQUENCE of public operations or an UNUSUAL CLASS OF INPUT to manifest: the output of one library function fed into another (build/edit then read, parse then encode then compare, path selection then a cast), a particular shape of earlier siblings (zero-length payloads, nested empty containers, multi-byte keys, 256+ elements, widths at a power-of-two boundary), extreme arguments, or the less used of two input representations. One-step calls on ordinary documents must still behave correctly.
A and B must touch different mechanisms/functions, and each should be small (typically 2-20 changed lines). Do not change tests, Cargo.toml, or public signatures.

'''
t = t[:a] + task + t[b:]
print(t)
