#!/usr/bin/env python3
"""Record the decision-boundary signatures (analysis/boundaries.py) of the functions of the pinned tree.  Run by hand on a
clean /repo; never run by a check."""
import sys, json, subprocess
sys.path.insert(0, '/verif/analysis')
st = subprocess.run(['git', '-C', '/repo', 'status', '--porcelain', '--', 'src'], capture_output=True, text=True).stdout.strip()
if st:
    sys.exit('/repo is not clean')
from extract import get_facts
from facts import Facts
import sym, boundaries
f = Facts(get_facts()[0]); sym.FACTS = f
out = {}
for p, b in sorted(f.bodies.items()):
    if b.kind == 'Promoted' or p.startswith('<'):
        continue
    try:
        sig = boundaries.signature(b)
    except Exception as e:
        continue
    if sig:
        out[p] = sig
json.dump(out, open('/verif/baseline_boundaries.json', 'w'), indent=0, sort_keys=True)
print(len(out), 'functions with decision bounds;', sum(len(v) for s in out.values() for v in s.values()), 'bounds')
