"""C04 — compare is a total order matching value equality and the documented ranking (structural clauses)."""
import report
from rules import ordering, numcodec, dispatch, walkers


EXPLANATION = (
    "Static analysis through MIR. R04.1: the rank constants are strictly decreasing in the documented order and jentry_compare_level maps "
    "each entry tag to its own rank (containers between null and string). R04.2: the header-kind switch of compare and compare_container "
    "handles every kind pair with the outcomes the ranking demands (scalar vs container split on null), constant outcomes are antisymmetric, "
    "delegating calls pass (left, right) operands in order; compare_scalar compares ranks first, then same-kind entries with left.cmp(right) "
    "on decoded numbers / strings and recursion into compare_container. R04.3 = R18.4 (no lossy numeric comparison). R04.4 = R11.1 + R11.3 on "
    "compare (each argument dispatched on its own representation; the re-dispatching calls pass (left, right) in order). R04.5: walker discipline on compare_array/compare_object (each side's "
    "payload cursor advances by the length of its own entry). R04.6: a non-Equal element result is returned unchanged and the fall-through "
    "is left_length.cmp(right_length). NOT decided: reflexivity/antisymmetry/transitivity as such, Equal <=> value-equal.")


def check(ctx, run):
    run.rules_run = ['R04.1', 'R04.2', 'R04.3', 'R04.4', 'R04.5', 'R04.6', 'R04.7', 'R04.8', 'R05.14']
    ordering.r04_1(ctx, run)
    ordering.r04_2(ctx, run)
    ordering.r04_2b(ctx, run)
    numcodec.r18_4(ctx, run, rule='R04.3/R18.4')
    dispatch.r11_1(ctx, run, rule='R04.4/R11.1', only={'functions::compare'})
    dispatch.r11_3(ctx, run, rule='R04.4/R11.3', only={'functions::compare'})
    dispatch.r11_7(ctx, run, rule='R04.4/R11.7', only={'functions::compare'})
    only = lambda p: p.startswith('functions::compare')
    walkers.w_init(ctx, run, 'R04.5/R05.1', only=only, floor=4)
    walkers.w_advance(ctx, run, 'R04.5/R05.2', only=only, floor=4)
    walkers.w_pair(ctx, run, 'R04.5/R05.14', only=only, floor=8)
    ordering.r04_6(ctx, run)
    ordering.r04_8(ctx, run)
    run.floor('R04.8', 'updates of one operand\'s offsets / cursors', run.counts.get('side_updates', 0), 10)
    from rules import layout as _layout
    _layout.r01_2(ctx, run, rule='R04.7/R01.2')
    return report.finish(run, level='other', explanation=EXPLANATION, assumptions=["A1: valid documents", "ordered-float contract for f64"])
