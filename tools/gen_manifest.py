#!/usr/bin/env python3
"""Generate /verif/MANIFEST.json from the per-property table below (single source of truth)."""
import json, os, sys
V = os.path.dirname(os.path.dirname(os.path.abspath(__file__)))

CLAIMED = {
 'C01': ("structural necessary conditions of the round trip decided for all inputs: documented constants, mask partition, mutually inverse writer/reader tag tables, exact+shortest+lossless number width partition by interval arithmetic over the whole type range, decoder table inverse to the encoder, returned-length = bytes-appended contracts by path-wise ghost accounting (assume-guarantee over the recursive encoder), ordered unique key source; decode(encode(v)) == v as a whole is NOT decided",
         "static analysis: MIR table extraction, interval arithmetic over type ranges, path-wise ghost-length accounting"),
 'C20': ("decides for all inputs: (R20.1) every document-driven recursion reachable from the entry points has a depth guard (eight unguarded SCCs are listed as known findings), (R20.2) no checked arithmetic on a <=32-bit integer in the cone can overflow for parameters over their whole type, (R20.3) every index into a fixed-size table is bounded; stack use of non-recursive code and allocation failure are NOT decided",
         "static analysis: call-graph SCCs with depth-guard detection, interval analysis along CFG paths"),
 'C10': ("decides for all byte strings: (R10.1) every panic site in the cone of from_slice/parse_jsonb (bounds and unsigned-subtraction asserts, unwrap/expect, slice indexing, explicit panics) is discharged on every CFG path by interval/difference-constraint facts, success of checked readers and element-count accounting of queues, or is a reviewed assumption; (R10.2) no unvalidated bytes become a str; (R10.3) the binary decoder is entered only for a JSONB first byte or after the text parser rejected the input; (R10.4) the decoder reads its input only through checked readers; (R10.5) recursion on nesting depth (known finding). That every proper prefix is rejected is NOT decided",
         "static analysis: MIR panic-site inventory with interval + zone provers, queue-count accounting, dominance/path conditions"),
 'C17': ("decides for all inputs and buffer contents: (R17.1) only append-class operations ever receive the caller's buffer, transitively through helpers and the Encoder wrapper; (R17.2) every index-assign/resize position is relative to a length snapshot taken inside the call (net |buffer| coefficient 1); (R17.4) no documented error is returned after a write; (R17.5) reported offsets are data.len() after the item",
         "static analysis: alias/provenance dataflow over MIR, linear |buffer|-coefficient tagging, path enumeration"),
 'C11': ("decides for all inputs, per document parameter and per path: (R11.1) the raw parameter reaches a JSONB-only consumer only behind is_jsonb(param) == true (CFG reachability with the guard's true-edges removed), so text in any argument position is never read as binary; (R11.2) the decoder-first fallback is gated; (R11.3) cores receive the documents in parameter order. Equality of results between separately coded tree and byte implementations is NOT decided",
         "static analysis: CFG reachability under guard-edge removal, provenance of buffer arguments"),
 'C18': ("decides over the whole i64/u64/f64 value space by interval arithmetic on CFG paths: exact, lossless, shortest width partition of the encoder, inverse decoder table with Err defaults, decoder panic-freedom, no lossy int->float conversion and only range-guarded float->int casts in the ordering cone, OrderedFloat for float/float, exact-or-absent integer views. OrderedFloat's conventions are trusted; total-order laws as such are NOT decided",
         "static analysis: interval arithmetic over type ranges on MIR paths, float-constant guard decoding, comparator whitelist"),
 'C05': ("decides for every valid document, on all CFG paths of every entry-reading loop and iterator body: cursor initial forms match the layout (4n / 8n after the entry words, kind from the dominating header tag), entry and payload cursors advance in step with the entries actually read from the buffer they index, sub-values are re-wrapped exactly, negative key-path indices use len+idx only when provably negative, the name lookup exits early only on an exact match and latches the first case-insensitive match, type names follow the tag tables, headers are read at stepped offsets only for container entries. Equality with the tree answer for every accessor/argument is NOT decided",
         "static analysis: path-sensitive dataflow over loop bodies (affine cursor deltas), interval facts, table extraction"),
 'C03': ("decides for all inputs: every byte that RFC 8259 requires to be escaped takes an escape path (exhaustive over the 256 byte values by interval sets), escape strings denote their byte, pending ordinary bytes are flushed before each escape, pretty and compact renderings push the same non-whitespace constants on all path pairs differing only in the flag, numbers are formatted by itoa / ryu::<f64> without conversion, renderer cursors follow the layout. That the text denotes the same document as a whole is NOT decided",
         "static analysis: switch/range table extraction with interval sets over byte values, path-pair comparison, callee whitelists"),
 'C04': ("decides for all inputs: rank constants and the entry-tag->rank table follow the documented ranking, every header-kind pair has the outcome the ranking demands with antisymmetric constants and (left,right) argument order, same-kind scalars compare decoded numbers / strings left-vs-right, no lossy numeric comparison (R18.4), each argument of compare is dispatched on its own representation, both sides' cursors advance by their own entries, tie-break by length. Order laws as such and Equal<=>value-equal are NOT decided",
         "static analysis: table extraction from MIR switches, path enumeration, provenance of comparator arguments, walker dataflow"),
 'C08': ("decides for all accepted paths and valid documents: no todo!/unimplemented! reachable; selector panic inventory (document slices assumed valid, queue pops by count accounting, unreachable! arms as reviewed assumptions tied to the parser's constructible variants); no i32 overflow over the whole index range; convert_index/convert_slice only return positions in [0,length); the six-operator table over the three orderings and the &&/|| truth tables; every constructible step variant has an arm; compare_value always gets (left,right); evaluator recursion is a known finding. That the selected items are exactly those denoted is NOT decided",
         "static analysis: call-graph reachability, panic-site provers, interval analysis, operator/truth-table extraction from MIR paths, argument provenance"),
 'C15': ("decides for all paths/documents: the entry points funnel through find_positions and three writers, the mode is read only by select, the mode table (with the exact count interval for mixed mode), one offset per item taken after its bytes, one entry word per popped position in array mode, predicate/exists/match derive their boolean from the same non-emptiness",
         "static analysis: who-may-read/who-may-call rules, path enumeration with branch intervals, CFG must-pass-through"),
 'C19': ("decides for all documents: number and kind mapping tables of the three converters (u64 before i64 before f64; exact integer conversions; non-finite -> Err in the byte walker), the object-only variant returns None exactly for array/scalar headers and shares the element converter. Structural fidelity of whole documents is NOT decided",
         "static analysis: table extraction from MIR switch arms and constructor aggregates"),
 'C09': ("decides for all inputs: printer and grammar token tables agree, && nests under ||, nested &&/|| operands are printed in parentheses, whole-input check on every Ok, complete combinators only, every index/slice of the scanners is safe on every path (inductive cursor invariants + callee lemma) so no byte string panics there, scanner and decoder escape widths agree, every literal kind incl. the empty string has an alternative, no alternative of any alt() is shadowed by an earlier prefix match; grammar recursion and left-deep accumulation are known findings. Completeness over the whole grammar is NOT decided",
         "static analysis: nom combinator table extraction from MIR, format-template decoding, panic-site provers with inductive loop invariants, call-graph SCCs"),
 'C16': ("decides for all inputs: key-path cone panic inventory (shared scanners proven as in C09), whole-input check, alternative order index/quoted/plain with no shadowing, printer shapes (Display between plain quotes, { , }), complete combinators, escape widths. Completeness and escape decoding results are NOT decided",
         "static analysis: panic-site provers with inductive invariants, combinator and format-template table extraction"),
 'C02': ("decides for all byte strings: value-start dispatch table over all 256 bytes, whitespace set, the eight escape decodings, agreement of scanner and decoder escape widths, trailing-input check, number classification (u64 / i64 / correctly rounded f64), last-duplicate-wins insertion, panic inventory of the parser cone, surrogate ranges and formula, and that each of the 24 accepting paths of the number lexer matches the RFC 8259 number grammar; recursion on nesting is a known finding. Full language equality and the meaning of accepted strings are NOT decided",
         "static analysis: byte-class tables by interval sets, path-language matching of the lexer against the RFC regular expression, panic-site provers, call-graph SCCs"),
 'C06': ("decides for all valid inputs: documented errors precede writes; every copied (entry word, payload) pair comes from one source; builders return exactly the bytes they append (exact rebuilt lengths at any depth); object-header writers emit keys from an ordered map; signed positions are cast to usize only where provably non-negative; in every entry-copying loop an entry is either copied or dropped under the edit's own condition; iterator cursors follow the layout; the duplicate-key scan of object_insert compares keys in the order the builders lay them out. Equality of the output with the tree edit beyond these clauses is NOT decided",
         "static analysis: provenance of call arguments, path-wise ghost-length accounting, interval facts on casts, per-editor drop-condition tables over loop paths"),
 'C07': ("decides the inductive step 'canonical in => canonical out' structurally for every writer: consistent raw copies, measured lengths in encoder and builders, ordered unique keys for every object-header writer, exact re-wrap and exact (offset, length) positions in the selector, and that no other function writes a container header. Equality with the tree result along a history is NOT decided",
         "static analysis: compositional writer rules (provenance, ghost accounting, who-may-write) over MIR"),
 'C12': ("decides for all valid documents: the byte walker compares scalar payloads only through scalar_eq, which decodes numbers and compares them with Number's exact ==; in the tree twin every recursive containment test is guarded by equal kinds or a container right operand (the top-level array/scalar exception cannot leak); the nested-candidate filter depends on the entry kind only; kinds differ -> false; contains dispatches each argument independently. Reflexivity, transitivity and the @> semantics as a whole are NOT decided",
         "static analysis: who-may-compare rule, guard edge-dominance on the CFG, closure return-term matching"),
 'C13': ("decides for all valid documents: element key type (entry word + payload) in all four functions, complementary path classes of intersection/except (so the results partition the first list), ArrayBuilder-only output with consistent copies, three-way header dispatch per argument, result elements from the first / lookup structure from the second argument, overlap true only after a found element, every fill site of the count map stores a multiplicity >= 1 where the consumer tests count > 0, independent ordered dispatch of the public wrappers. First-occurrence order and idempotence of distinct are NOT decided",
         "static analysis: MIR local types, path-class tables over loop iterations, argument provenance"),
 'C14': ("decides structural necessary conditions of the order embedding: rank bytes are compare's ranks, the f64 bit transform is the standard monotone map, every element is emitted through the prefixing helper at the right depth, helper cursors follow the layout; four violations of the property on the pinned tree are known findings (lossy as_f64 image, to_bits of signed zero, undelimited strings, u8 depth overflow). The order embedding itself is NOT decided",
         "static analysis: expression-tree matching, who-may-append rule, interval analysis on u8, walker dataflow"),
}
NOT_APPLICABLE = {
}
PENDING = "rules for this property are still being built in this session; not claimed yet"

def main():
    props = [json.loads(l) for l in open(os.path.join(V, 'properties.jsonl'))]
    checks = []
    na = []
    for p in props:
        pid = p['id']
        if pid in CLAIMED:
            text, tech = CLAIMED[pid]
            checks.append({
                'property_id': pid,
                'quick_cmd': f'./check {pid} --tier quick',
                'thorough_cmd': f'./check {pid} --tier thorough',
                'evidence_file': f'evidence/{pid}.json',
                'replay_cmd_template': f'./check {pid} --replay {{path}}',
                'engine': 'mirfacts+rules',
                'level_claimed': {'category': 'other', 'text': 'static analysis — ' + text, 'design_ref': f'DESIGN.md §4 {pid}'},
                'level_note': 'trusted base: rustc MIR construction and type resolution; std/nom/byteorder contracts modelled in analysis/ (listed per evidence file); README.md / RFC 8259 tables as oracles; reviewed assumption table assume.json',
                'technique': tech,
            })
        else:
            na.append({'property_id': pid, 'reason': NOT_APPLICABLE.get(pid, PENDING)})
    m = {
        'version': 1,
        'setup_cmd': 'cd /verif/driver && CARGO_NET_OFFLINE=true cargo build --release --offline && cd /verif && python3 analysis/extract.py default && python3 analysis/extract.py no-default',
        'hooks': {
            'guard': 'jsonb_verif',
            'enable': 'none needed: the checks analyse /repo\'s own sources through a rustc_private driver injected with RUSTC_WORKSPACE_WRAPPER; nothing is compiled into /repo',
            'baseline_off_cmd': 'cd /repo && cargo test --workspace --no-fail-fast --offline',
            'source_commits': [],
            'add_only': True,
        },
        'engines': [
            {'name': 'mirfacts', 'path': 'driver/', 'serves_properties': sorted(CLAIMED), 'kind_free_text': 'rustc_private MIR/type fact extractor (nightly), one JSON fact file per source hash'},
            {'name': 'rules', 'path': 'analysis/', 'serves_properties': sorted(CLAIMED), 'kind_free_text': 'python3 rule engine: CFG/dominators/loops, resolved call graph + SCCs, path-sensitive dataflow over loop-free regions with interval/zone facts, ghost-length accounting, table extraction'},
        ],
        'checks': checks,
        'not_applicable': na,
        'notes': 'quick = every rule of the property over the default build configuration; thorough = the same rules additionally over --no-default-features, plus a self-test of the check on scratch copies of /repo\'s working tree against the committed corpora (seeded/: property-breaking changes it must report; benign/: behaviour-preserving changes it must stay quiet on; mismatches are SELFTEST-WARNING lines and never change the verdict). Verdicts per obligation: proved / assumed (assume.json) / undecided (code not in a shape the rule reads; exit code unaffected) / violation. Every check decides structural clauses of its property from /repo\'s current source (type-checked MIR); behavioural cores that no sound static argument in reach decides are named in DESIGN.md §5 and in each evidence file. fix: commits in /repo are listed in known_findings.json with status fixed.',
    }
    json.dump(m, open(os.path.join(V, 'MANIFEST.json'), 'w'), indent=1)
    print('claimed', len(checks), 'not_applicable', len(na))

if __name__ == '__main__':
    main()
