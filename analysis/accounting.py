"""Ghost-length accounting (G6, realised path-wise): proves for a writer function F that the measure it returns
(usize result, or the `length` field of the JEntry it returns) equals the number of bytes it appended to the
output buffer, on every path, by assume-guarantee over a contract table.

Regions: the function is cut at loop heads.  For every region path
    Δacc(path) = Σ Δ|buf|(events of the path)
must hold, where acc is the accumulator local(s) whose value flows into the returned measure, and at a return
    measure(ret) - acc_at_region_start = Σ Δ|buf|.
The per-event Δ|buf| comes from `contracts` (callee suffix -> function(call_event) -> linear form | None)."""
from sym import Explorer, lin, lin_sub, show, subterms
from pat import called, canon, strip_casts, is_call
from mir import natural_loops


def lin_add(a, b):
    d = dict(a[0])
    for x, c in b[0].items():
        d[x] = d.get(x, 0) + c
        if d[x] == 0:
            del d[x]
    return (d, a[1] + b[1])


ZERO = ({}, 0)


def lin_show(l):
    parts = []
    for a, c in l[0].items():
        parts.append((f"{c}*" if c != 1 else '') + show(a))
    if l[1] or not parts:
        parts.append(str(l[1]))
    return ' + '.join(parts)


def normalize_len_atoms(l, equalities):
    """Rewrite atoms through an equality map {atom: canonical atom} (e.g. str::len(x) == len(as_bytes(x)))."""
    d = {}
    for a, c in l[0].items():
        a2 = equalities(a)
        if a2 is None:
            continue
        if isinstance(a2, tuple) and a2 and a2[0] == '__lin__':
            for x, cc in a2[1][0].items():
                d[x] = d.get(x, 0) + c * cc
            l = (l[0], l[1] + c * a2[1][1])
            continue
        d[a2] = d.get(a2, 0) + c
    return ({k: v for k, v in d.items() if v != 0}, l[1])


class Accounting:
    def __init__(self, body, measure, contracts, atom_norm=None, max_paths=3000, is_buffer=None):
        """measure(ret_term) -> term of the returned byte count; contracts: list of (suffixes, fn(event)->lin|None|'opaque')"""
        self.body = body
        self.measure = measure
        self.contracts = contracts
        self.atom_norm = atom_norm or (lambda a: a)
        self.is_buffer = is_buffer or (lambda t: True)
        self.max_paths = max_paths
        self.problems = []   # (kind, message, bb)
        self.checked = 0
        self.regions = 0

    def delta_of(self, ev):
        name = ev[1]
        for sufs, fn in self.contracts:
            if called(name, *sufs):
                return fn(ev)
        return None   # no effect on the buffer (callee not in the table)

    def norm(self, l):
        return normalize_len_atoms(l, self.atom_norm)

    def run(self):
        body = self.body
        loops = natural_loops(body)
        heads = sorted(loops)
        starts = [0] + heads
        for s in starts:
            ex = Explorer(body, max_paths=self.max_paths)
            paths = ex.explore(start=s, stop=set(heads), entry_is_head=False)
            if ex.capped:
                self.problems.append(('cap', f'region at bb{s} exceeds the path cap', s))
            self.regions += 1
            for p in paths:
                if p.end[0] in ('unreachable', 'diverge', 'cap'):
                    continue
                self.check_path(s, p, loops)
        return self.problems

    def check_path(self, s, p, loops):
        self.checked += 1
        self._unknown = None
        n0 = len(self.problems)
        self._check_path(s, p, loops)
        if self._unknown:
            # mismatches found on a path that runs through an unsummarised writer are lack of information
            for i in range(n0, len(self.problems)):
                k, msg, bb = self.problems[i]
                if k in ('mismatch', 'shape'):
                    self.problems[i] = ('unknown', msg + f' — but the path calls {self._unknown}(), a function of this crate with mutable access whose effect on the buffer is not in the contract table', bb)

    def _check_path(self, s, p, loops):
        # Σ Δ|buf| along the path; |buf| at a `Vec::len(buffer)` call is B0 + Σ so far
        total = ZERO
        measured = {}
        B0 = ('buf0',)
        for ev in p.events:
            if ev[0] != 'call':
                continue
            d = self.delta_of(ev)
            if d is None:
                if called(ev[1], 'Vec::len') and self.is_buffer(ev[2][0]):
                    measured[ev[4]] = lin_add(({B0: 1}, 0), total)
                else:
                    # a function of this crate that is not in the contract table but receives something mutable
                    # (the writer itself, the buffer): its effect on the buffer is unknown on this path
                    import sym
                    fb = sym.FACTS.bodies if sym.FACTS is not None else {}
                    if ev[1] in fb:
                        t = ev[5]
                        for a in t.get('args', []):
                            if a.get('k') in ('copy', 'move') and str(self.body.local_ty(a['place']['local']).get('s', '')).startswith('&mut'):
                                self._unknown = canon(ev[1]).split('::')[-1]
                                break
                continue
            if d == 'unknown':
                self._unknown = canon(ev[1]).split('::')[-1]
                continue
            if d == 'opaque':
                # a writer whose byte count is unknown: a ghost quantity that only a len() measurement can capture
                total = lin_add(total, ({('ghost', ev[3]): 1}, 0))
                continue
            total = lin_add(total, self.norm(d))

        def atom_norm2(a):
            if a in measured:
                return ('__lin__', measured[a])
            # the count an opaque writer *returns* (`compact_encode(..).unwrap()`): the writer's own rule shows that it returns the number of
            # bytes it wrote (R18.1 count clause), so the returned count is the ghost quantity of that very call
            try:
                from pat import _through_unwraps
                x = _through_unwraps(a)
                if x[0] == 'call' and len(x) > 3 and self.delta_of(('call', x[1], x[2], x[3], x, {})) == 'opaque':
                    return ('ghost', x[3])
            except Exception:
                pass
            return self.atom_norm(a)
        # the accumulator side
        start_is_head = s in loops
        if p.end[0] == 'return':
            m = self.measure(p.ret)
            if m is None:
                self.problems.append(('shape', f'returned value has no byte-count measure: {show(p.ret)}', p.end[1]))
                return
            lm = normalize_len_atoms(lin(m), atom_norm2)
            # subtract accumulators at region start (hav atoms of this head) — they stand for bytes written before
            acc0 = {a: c for a, c in lm[0].items() if a[0] == 'hav' and start_is_head}
            for a, c in acc0.items():
                if c != 1:
                    self.problems.append(('shape', f'accumulator {show(a)} has coefficient {c}', p.end[1]))
                    return
            rest = ({a: c for a, c in lm[0].items() if a not in acc0}, lm[1])
            if not start_is_head or acc0:
                diff = lin_sub(rest, total)
                if diff[0] or diff[1]:
                    self.problems.append(('mismatch',
                                          f'returned byte count {lin_show(lm)} but bytes appended on this path = '
                                          f'{("(count at loop head) + " if acc0 else "")}{lin_show(total)}', p.end[1]))
            else:
                # region starts at a loop head but the measure does not depend on a loop-carried accumulator
                diff = lin_sub(rest, total)
                if total[0] or total[1]:
                    self.problems.append(('mismatch', f'bytes appended after the loop head ({lin_show(total)}) are not '
                                          f'part of the returned count {lin_show(lm)}', p.end[1]))
        else:
            # path ends at a loop head: every loop-carried integer accumulator must have advanced by Σ Δ|buf|
            head = p.end[1]
            accs = self.accumulators()
            if not accs and (total[0] or total[1]) and not self.measures_by_len():
                # bytes are appended on the way to a loop head, but nothing that flows into the returned count moves
                self.problems.append(('mismatch', f'bytes are appended on a path reaching the loop head bb{head} ({lin_show(total)}) but no length accumulator '
                                      f'that flows into the returned count advances on it', head))
            for l in accs:
                v = p.store.get(('L', l))
                if v is None:
                    v = ('init', l, self.body.name_of(l))
                lv = normalize_len_atoms(lin(v), atom_norm2)
                base = [a for a in lv[0] if a[0] in ('hav', 'init') and a[1] == l]
                if s == 0 and not start_is_head:
                    adv = lv
                else:
                    if len(base) != 1 or lv[0][base[0]] != 1:
                        self.problems.append(('shape', f'accumulator {self.body.name_of(l)} is not advanced additively: {lin_show(lv)}', head))
                        continue
                    adv = ({a: c for a, c in lv[0].items() if a != base[0]}, lv[1])
                diff = lin_sub(adv, total)
                if diff[0] or diff[1]:
                    self.problems.append(('mismatch', f'on a path reaching the loop head bb{head} the length accumulator '
                                          f'`{self.body.name_of(l) or l}` advances by {lin_show(adv)} but the bytes appended = {lin_show(total)}', head))

    def measures_by_len(self):
        """the returned count is computed from a buffer-length measurement (len() after - len() before) on some return path"""
        if hasattr(self, '_mbl'):
            return self._mbl
        self._mbl = False
        body = self.body
        loops = natural_loops(body)
        ex = Explorer(body, max_paths=self.max_paths)
        for s in [0] + sorted(loops):
            for p in ex.explore(start=s, stop=set(loops)):
                if p.end[0] != 'return':
                    continue
                m = self.measure(p.ret)
                if m is None:
                    continue
                for x in subterms(m):
                    if x[0] == 'call' and called(x[1], 'Vec::len', 'slice::len') or x[0] == 'len':
                        self._mbl = True
        return self._mbl

    def accumulators(self):
        """Locals that are loop-carried and flow additively into the returned measure."""
        if hasattr(self, '_accs'):
            return self._accs
        accs = set()
        body = self.body
        loops = natural_loops(body)
        ex = Explorer(body, max_paths=self.max_paths)
        for s in sorted(loops):
            for p in ex.explore(start=s, stop=set(loops)):
                if p.end[0] == 'return':
                    m = self.measure(p.ret)
                    if m is None:
                        continue
                    for a in lin(m)[0]:
                        if a[0] == 'hav':
                            accs.add(a[1])
        self._accs = accs
        return accs
