"""C11 — functions give the same answer for JSON text as for its JSONB encoding (structural clauses)."""
import report
from rules import accessors
from rules import dispatch, c10, c12, editing
from mir import callee_name
from pat import canon

EXPLANATION = (
    "Static analysis (MIR, CFG reachability with guard edges removed). R11.1: for every public function that accepts a document as "
    "text or JSONB, and for each `&[u8]` document parameter separately, every call that consumes the raw parameter as JSONB "
    "(anything other than is_jsonb, the text parser, from_slice, first/len/cmp/from_utf8, or a public function that dispatches that "
    "position itself) must be unreachable once the true-edges of is_jsonb(param) tests are removed from the CFG, i.e. it is only "
    "reached after the sniff said JSONB; the 2^k combinations are covered because the rule is per parameter, per path. "
    "R11.2: the decoder-first fallback (from_slice, used by contains/concat) is gated as in R10.3. R11.3: every call that hands two "
    "or more documents to a core passes them in the order of the public parameters (provenance through parse_value/to_vec buffers). "
    "R11.4: where the tree twin and the byte walker are separate code, three deciding steps are cross-checked: strip_nulls visits every nested container in "
    "both (R06.9), the tree twin of contains guards every recursive test as the byte walker does (R12.2), and case-insensitive member lookup folds case with the "
    "same primitive in both. NOT decided: equality of results of twin implementations in general.")


FOLDS = ('eq_ignore_ascii_case', 'to_lowercase', 'to_uppercase', 'to_ascii_lowercase', 'to_ascii_uppercase', 'make_ascii_lowercase', 'make_ascii_uppercase',
         'eq_ignore_case', 'case_fold')


def twin_case_folding(ctx, run, rule):
    """Case-insensitive member lookup: the tree twin (Value::get_by_name_ignore_case) and the byte walker
    (get_jentry_by_name) must fold case with the same primitive, otherwise text input and its encoding match different keys."""
    f = ctx.facts
    twins = {'tree': "value::Value::<'a>::get_by_name_ignore_case", 'bytes': 'functions::get_jentry_by_name'}
    got = {}
    for k, p in twins.items():
        b = f.bodies.get(p)
        if b is None:
            run.undecided(rule, p, 'case-folding', 'function not found (anchor lost)')
            return
        cone = [x for x in ctx.cg.reachable([p]) if x in f.bodies and (x == p or x.startswith(p + '::{closure'))]
        names = set()
        for x in cone:
            for _, t in f.bodies[x].calls():
                last = canon(callee_name(t)).split('::')[-1]
                if last in FOLDS:
                    names.add(last)
        got[k] = names
    loc = f"{f.bodies[twins['tree']].file}:{f.bodies[twins['tree']].line}"
    if not got['tree'] or not got['bytes']:
        run.undecided(rule, twins['tree'], 'case-folding', f'no case-folding primitive recognised in one of the twins ({got}): not decided', loc)
    elif got['tree'] == got['bytes']:
        run.proved(rule, twins['tree'], 'case-folding', f'both twins compare keys with {sorted(got["tree"])}', loc)
    else:
        run.violation(rule, twins['tree'], 'case-folding', f'the tree twin folds case with {sorted(got["tree"])}, the byte walker with {sorted(got["bytes"])}: a key that differs from the name only in the case of a '
                      'non-ASCII letter matches for JSON text but not for its JSONB encoding (or the reverse)', loc)


def check(ctx, run):
    run.rules_run = ['R11.1', 'R11.2', 'R11.3', 'R11.4']
    dispatch.r11_1(ctx, run)
    dispatch.r11_7(ctx, run)
    run.floor('R11.7', 'calls of the text parser on a sniffed argument', run.counts.get('text_parse_sites', 0), 49)
    c10.r10_3(ctx, run, rule='R11.2')
    dispatch.r11_3(ctx, run)
    # ---- R11.4 the tree twin and the byte walker of one operation agree on the steps that decide its result
    editing.r06_9(ctx, run, rule='R11.4/R06.9', which=('bytes', 'tree'))
    c12.tree_twin_guards(ctx, run, 'R11.4/R12.2')
    c12.tree_twin_counts(ctx, run, 'R11.4/R12.2')
    twin_case_folding(ctx, run, 'R11.4')
    import boundaries
    _bf = lambda p_: p_ in ('functions::get_by_keypath',)
    boundaries.check(ctx, run, 'R11.4/bounds', [p_ for p_ in sorted(boundaries.load_baseline() or {}) if _bf(p_)], 'the text branch and the JSONB branch of an accessor reject positions')
    accessors.name_variants_alike(ctx, run, 'R11.4/names', lambda p_: p_.startswith('functions::'))
    from rules import editing as _ed
    _ed.r06_13(ctx, run, rule='R11.5/R06.13')
    _ed.r11_6(ctx, run, rule='R11.6')
    # an argument narrowed on one representation's branch only is a different argument there (R20.5)
    from rules import intarith as _ia
    _ia.param_cast_sites(ctx, run, 'R11.5/R20.5', only=lambda p_: p_.startswith('functions::'))
    from rules import dispatch as _dispatch
    _dispatch.sniff_table(ctx, run, 'R11.6/R10.10')
    return report.finish(run, level='other', explanation=EXPLANATION, assumptions=["is_jsonb is the library's own representation sniff; text beginning with a space is excluded by the property"])
