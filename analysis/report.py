"""Obligations, verdicts, known findings, evidence files and the VIOLATION / KNOWN-FINDING protocol."""
import json, os, re, time

VERIF = os.path.dirname(os.path.dirname(os.path.abspath(__file__)))

PROVED, ASSUMED, UNDECIDED, VIOLATION = 'proved', 'assumed', 'undecided', 'violation'


class Ob:
    """One obligation of a rule."""
    __slots__ = ('rule', 'fn', 'desc', 'n', 'verdict', 'why', 'loc', 'nontrivial', 'witness')

    def __init__(self, rule, fn, desc, verdict, why='', loc='', nontrivial=True, witness=None, n=0):
        self.rule = rule
        self.fn = fn
        self.desc = desc
        self.n = n
        self.verdict = verdict
        self.why = why
        self.loc = loc
        self.nontrivial = nontrivial
        self.witness = witness

    @property
    def key(self):
        return f"{self.rule}|{self.fn}|{self.desc}|{self.n}"

    def to_json(self):
        d = {'key': self.key, 'rule': self.rule, 'function': self.fn, 'construct': self.desc,
             'verdict': self.verdict, 'reason': self.why, 'at': self.loc}
        if self.witness is not None:
            d['witness'] = self.witness
        return d


_SCC = re.compile(r'^scc\{(.*)\}$')


def canon_desc(facts, fn, desc):
    """Construct description with the names of the function's locals (and numbered temporaries) replaced by `$`, so that a
    key recorded in assume.json / known_findings.json survives a rename of a variable.  Field names, callee names and
    constants stay."""
    b = facts.body(fn) if facts is not None and fn else None
    if b is None and facts is not None and fn and not fn.startswith('<'):
        b = facts.one(fn)
    names = set()
    if b is not None:
        names = {n for n in b.names.values() if n}
    out = re.sub(r"(?<![\w.:])_\d+\b'?", '$', desc)
    if names:
        alt = '|'.join(sorted((re.escape(n) for n in names), key=len, reverse=True))
        out = re.sub(r"(?<![\w.:$])(?:%s)\b'?(?!\s*\()(?!::)" % alt, '$', out)
    return out


def scc_members(desc):
    m = _SCC.match(desc)
    return set(m.group(1).split(',')) if m else None


class Run:
    """Collects the obligations of one property check."""

    def __init__(self, pid, tier, facts, srchash):
        self.pid = pid
        self.tier = tier
        self.facts = facts
        self.srchash = srchash
        self.obs = []
        self.counts = {}
        self.floors = []       # (name, found, floor)
        self.notes = []
        self.rules_run = []
        self.t0 = time.time()
        self._occ = {}
        self.dry = False       # dry runs (thorough tier, auxiliary passes) neither print nor write evidence
        self.selftest = None

    def add(self, rule, fn, desc, verdict, why='', loc='', nontrivial=True, witness=None):
        base = (rule, fn, desc)
        n = self._occ.get(base, 0)
        self._occ[base] = n + 1
        ob = Ob(rule, fn, desc, verdict, why, loc, nontrivial, witness, n)
        self.obs.append(ob)
        return ob

    def proved(self, rule, fn, desc, why='', loc='', nontrivial=True):
        return self.add(rule, fn, desc, PROVED, why, loc, nontrivial)

    def assumed(self, rule, fn, desc, why='', loc=''):
        return self.add(rule, fn, desc, ASSUMED, why, loc)

    def undecided(self, rule, fn, desc, why='', loc=''):
        return self.add(rule, fn, desc, UNDECIDED, why, loc)

    def violation(self, rule, fn, desc, why='', loc='', witness=None):
        return self.add(rule, fn, desc, VIOLATION, why, loc, True, witness)

    def floor(self, rule, name, found, floor, loc=''):
        """Instance-count guard: when a rule matches fewer instances than were counted by hand on the pinned tree, the
        code it is anchored in has changed shape and part of the rule may hold vacuously.  That is a statement about
        the checker's reach, not about the property, so it is reported as an *undecided* obligation (visible in the
        output and the evidence) and never as a violation: a behaviour-preserving refactoring (a helper extracted, a
        panic site removed) must not raise an alarm."""
        self.floors.append({'rule': rule, 'anchor': name, 'found': found, 'floor': floor})
        if found < floor:
            self.undecided(rule, '<crate>', f'anchor-weakened[{name}]',
                           f'rule matched {found} instance(s) of "{name}", fewer than the {floor} counted on the pinned tree: '
                           f'the code has changed shape; what the rule no longer sees is not decided', loc)
            return False
        return True

    def count(self, k, n=1):
        self.counts[k] = self.counts.get(k, 0) + n


def load_known():
    p = os.path.join(VERIF, 'known_findings.json')
    if not os.path.exists(p):
        return []
    with open(p) as f:
        return json.load(f)


def ckey_of(run, rule, fn, desc):
    return f"{rule}|{fn}|{canon_desc(run.facts, fn, desc)}"


_BASE = None


def baseline_functions():
    global _BASE
    if _BASE is None:
        p = os.path.join(VERIF, 'baseline_functions.json')
        _BASE = set(json.load(open(p))) if os.path.exists(p) else None
        if _BASE is None:
            _BASE = set()
            _BASE.add('*')
    return _BASE


def is_baseline_fn(path):
    """Did a function with this (module-independent) short name exist on the pinned tree?  True when no baseline is recorded."""
    base = baseline_functions()
    if '*' in base:
        return True
    from rules.recursion import short_name
    return short_name(path) in base


def match_known(run, o, known_active):
    """Key of the known finding that this violation is, or None.  Exact key first; otherwise the same rule and function with
    the same construct up to local-variable names; a recursion finding (construct scc{...}) is the same finding when the
    cycle still contains a function of the recorded cycle (cycles are disjoint, so this identifies the cycle)."""
    if o.key in known_active:
        return o.key
    mem = scc_members(o.desc)
    for k, e in known_active.items():
        kr, kf, kd, kn = k.split('|', 3) if k.count('|') >= 3 else (k, '', '', '')
        if kr != o.rule:
            continue
        km = scc_members(kd)
        if mem is not None and km is not None:
            # same cycle if it still contains a recorded member and every member that was not recorded is a function
            # that did not exist on the pinned tree (an extracted helper or a renamed member), i.e. no pre-existing
            # function was newly pulled into the recursion
            if mem & km and (mem <= km or ('*' not in baseline_functions() and not ((mem - km) & baseline_functions()))):
                return k
            # the whole recorded cycle renamed: none of its members exists any more, and the reported cycle consists only of
            # functions that did not exist on the pinned tree, in the same number, in the same source file
            if not (mem & km) and '*' not in baseline_functions() and len(mem) == len(km) and not (mem & baseline_functions()):
                try:
                    from rules.recursion import short_name
                    current = {short_name(p_) for p_ in run.facts.bodies}
                    same_file = kf.split('::')[0] == o.fn.split('::')[0]      # same module
                    if not (km & current) and same_file:
                        return k
                except Exception:
                    pass
            continue
        if kf == o.fn and e.get('cdesc') is not None and e['cdesc'] == canon_desc(run.facts, o.fn, o.desc) and str(o.n) == kn:
            return k
    return None


def finish(run, level='other', explanation='', assumptions=(), extra=None, exhaustive=None):
    """Write evidence, print protocol lines, return exit code."""
    pid = run.pid
    if run.dry:
        return 0
    known = [k for k in load_known() if k.get('property') == pid]
    known_active = {k['key']: k for k in known if k.get('status') == 'known'}
    viol = [o for o in run.obs if o.verdict == VIOLATION]
    matched = {}
    for o in viol:
        k = match_known(run, o, known_active)
        if k is not None:
            matched[id(o)] = k
    new = [o for o in viol if id(o) not in matched]
    kn = [o for o in viol if id(o) in matched]
    stale = [k for k in known_active if k not in set(matched.values())]

    evdir = os.environ.get('VERIF_EVIDENCE_DIR') or os.path.join(VERIF, 'evidence')
    vdir = os.path.join(evdir, 'violations', pid)
    os.makedirs(vdir, exist_ok=True)
    for f in os.listdir(vdir):
        try:
            os.remove(os.path.join(vdir, f))
        except OSError:
            pass
    lines = []
    for i, o in enumerate(new):
        rp = os.path.join(vdir, f'{i}.json')
        with open(rp, 'w') as f:
            json.dump({'property': pid, 'srchash': run.srchash, **o.to_json()}, f, indent=1)
        lines.append(f"VIOLATION property={pid} replay={rp}")
        lines.append(f"  rule={o.rule} function={o.fn} at={o.loc}\n  construct: {o.desc}\n  reason: {o.why}")
    for o in kn:
        lines.append(f"KNOWN-FINDING: property={pid} {known_active[matched[id(o)]].get('what', o.desc)} [{matched[id(o)]}]")

    nontrivial_keys = {o.key for o in run.obs if o.nontrivial and o.verdict in (PROVED, ASSUMED, VIOLATION)}
    samples = []
    seen_rules = set()
    for o in run.obs:
        if o.rule not in seen_rules and o.nontrivial:
            seen_rules.add(o.rule)
            samples.append(o.to_json())
    for o in viol[:10]:
        samples.append(o.to_json())
    by_verdict = {}
    for o in run.obs:
        by_verdict[o.verdict] = by_verdict.get(o.verdict, 0) + 1
    by_rule = {}
    for o in run.obs:
        d = by_rule.setdefault(o.rule, {})
        d[o.verdict] = d.get(o.verdict, 0) + 1
    cov = {
        'explanation': explanation,
        'evaluations': len(run.obs),
        'distinct_nontrivial': len(nontrivial_keys),
        'rule': 'one evaluation = one obligation (a construct of /repo that a rule of this property examined: a table '
                'row, a call site, a panic site, a CFG path class, an SCC); non-trivial = its verdict needed at least '
                'one guard, derivation, table lookup or dataflow fact (constant-true obligations are excluded); '
                'distinct = distinct obligation keys (rule|function|construct|occurrence)',
        'samples': samples[:24],
        'obligations': len(run.obs),
        'discharged': by_verdict.get(PROVED, 0),
        'assumed': by_verdict.get(ASSUMED, 0),
        'undecided': by_verdict.get(UNDECIDED, 0),
        'violations_new': len(new),
        'known_findings_reported': len(kn),
        'known_findings_not_reproduced': stale,
        'by_rule': by_rule,
        'floors': run.floors,
        'rules_run': run.rules_run,
        'counters': run.counts,
        'functions_in_crate': len(run.facts.local_fn_bodies()),
        'source_hash': run.srchash,
        'rustc': run.facts.stamp.get('rustc'),
        'assumed_list': [o.to_json() for o in run.obs if o.verdict == ASSUMED][:60],
        'undecided_list': [o.to_json() for o in run.obs if o.verdict == UNDECIDED][:60],
        'notes': run.notes,
    }
    if run.selftest is not None:
        cov['selftest'] = run.selftest
    if exhaustive is not None:
        cov['exhaustive'] = exhaustive
    if extra:
        cov.update(extra)
    ev = {
        'property_id': pid,
        'tier': run.tier,
        'seed': int(os.environ.get('VERIF_SEED', '0') or 0),
        'level': level,
        'coverage': cov,
        'assumptions': list(assumptions),
        'wall_s': round(time.time() - run.t0, 3),
        'violations': len(new),
    }
    os.makedirs(evdir, exist_ok=True)
    tmp = os.path.join(evdir, f'{pid}.json.tmp.{os.getpid()}')
    with open(tmp, 'w') as f:
        json.dump(ev, f, indent=1)
    os.replace(tmp, os.path.join(evdir, f'{pid}.json'))
    for l in lines:
        print(l)
    print(f"[{pid}] tier={run.tier} obligations={len(run.obs)} proved={by_verdict.get(PROVED, 0)} "
          f"assumed={by_verdict.get(ASSUMED, 0)} undecided={by_verdict.get(UNDECIDED, 0)} "
          f"violations={len(new)} known={len(kn)} wall={ev['wall_s']}s")
    return 1 if new else 0
