"""C05 — read-only accessors on JSONB bytes agree with the document they encode (structural clauses)."""
import report
from rules import walkers

EXPLANATION = "work in progress"


def check(ctx, run):
    run.rules_run = ['R05.2']
    walkers.w_advance(ctx, run, 'R05.2', floor=24)
    return report.finish(run, level='other', explanation=EXPLANATION)
