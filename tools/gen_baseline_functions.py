#!/usr/bin/env python3
"""Record the short names of all functions of the pinned tree (used only to tell an extracted/renamed helper from a
pre-existing function when a recursion cycle recorded as a known finding changes its member set)."""
import sys, json, os
sys.path.insert(0, '/verif/analysis')
from extract import get_facts
from facts import Facts
from rules.recursion import short_name
fp = get_facts()[0]
f = Facts(fp)
names = sorted({short_name(b.path) for b in f.local_fn_bodies()})
json.dump(names, open('/verif/baseline_functions.json', 'w'), indent=0)
print(len(names), 'functions')
