"""C06 / C07 / C12 / C13 rules about editors, builders and the selector writers."""
from sym import Explorer, explore, show, subterms, lin, lin_sub
from pat import called, canon, is_call, deref_all, agg_variant, const_of, strip_casts, unwrap_ok
from pat import subslice as _subslice
from mir import natural_loops, callee_name, Expr, walk, defs
from pathfacts import PathFacts, IntervalSet, INF
from panics import base_of
from rules.layout import cv


def region_paths(b, max_paths=4000):
    loops = natural_loops(b)
    ex = Explorer(b, max_paths=max_paths)
    out = []
    for s0 in [0] + sorted(loops):
        out.extend(ex.explore(start=s0, stop=set(loops)))
    return out, loops


def dominating_conds(paths):
    """{region start block: conditions that hold whenever that region is entered from outside}: the conditions common to every path
    that arrives at the loop head from another region (plus what dominated that region), restricted to conditions about values
    that do not change (no loop-carried or post-call state).  Region 0 (the function entry) has none."""
    def start(q):
        return q.blocks[0] if q.blocks else 0

    def stable(c):
        return not any(s_[0] in ('hav', 'post') for s_ in subterms(c[0]))
    heads = {start(q) for q in paths}
    dom = {0: []}
    for _ in range(4):
        changed = False
        for h in heads:
            if h == 0:
                continue
            arrivals = [q for q in paths if q.end == ('stop', h) and start(q) != h and start(q) in dom]
            if not arrivals:
                continue
            common = None
            for q in arrivals:
                cs = [(c[0], c[1], c[2]) for c in (dom[start(q)] + list(q.conds)) if stable(c)]
                common = cs if common is None else [c for c in common if c in cs]
            common = common or []
            if dom.get(h) != common:
                dom[h] = common
                changed = True
        if not changed:
            break
    return dom


def functions_of(ctx, prefix='functions::'):
    return [b for p, b in sorted(ctx.facts.bodies.items()) if p.startswith(prefix) and b.kind != 'Promoted']


# ------------------------------------------------------------------ R06.2 raw copies are consistent

def pair_ok(j, d):
    """Is the (entry word, payload) pair drawn from one source?"""
    j0, d0 = deref_all(j), deref_all(d)
    # (a) two fields of the same iterator / queue item
    def item_base(t):
        t = deref_all(t)
        while t[0] == 'field':
            t = t[1]
        return t
    if j0[0] == 'field' and d0[0] == 'field':
        bj, bd = item_base(j0), item_base(d0)
        is_item = lambda t: t[0] == 'downcast' and t[2] == 'Some'
        if bj == bd and j0[1] == d0[1] and j0[3] + 1 == d0[3]:
            # same tuple level: .k and .k+1 (entry directly before its payload)
            if is_item(bj):
                return True, 'the entry and payload of one iterator item'
            return True, 'the two components of one (entry, payload) pair value (its constructions are checked where they are built)'
        if bj == bd and is_item(bj):
            return False, f'fields {show(j0)[-12:]} and {show(d0)[-12:]} of the item are not an (entry, payload) pair'
        if is_item(bj) and is_item(bd):
            return False, 'entry and payload come from different items'
        return None, f'entry {show(j0)[:40]} and payload {show(d0)[:40]} are components of values this rule does not relate'
    # (b) make_container_jentry(len(X)) with data X
    if is_call(j0, 'JEntry::make_container_jentry') and j0[2]:
        ln = strip_casts(j0[2][0])
        if is_call(ln, 'slice::len', 'Vec::len', 'len') and ln[2]:
            if base_of(ln[2][0]) == base_of(d0):
                return True, 'a whole container document with its own length'
            return False, f'the container entry carries the length of {show(base_of(ln[2][0]))[:30]} but the payload copied is {show(base_of(d0))[:30]}'
        return False, f'container entry length is {show(ln)[:40]}, not the length of the payload'
    # (c) decode_jentry(<the word at offset 4 of X>) with data X[8..], in any spelling of the two reads
    if is_call(j0, 'JEntry::decode_jentry') and j0[2]:
        from pat import word_read, subslice
        wr = word_read(j0[2][0])
        if wr is None:
            src, chain = unwrap_ok(j0[2][0])
            return None, f'entry word decoded from {show(deref_all(src))[:50]}, a read this rule does not know'
        X, off = base_of(wr[0]), const_of(wr[1])
        if off != 4:
            return False, f'entry word decoded from the word at offset {show(wr[1])[:20]} of {show(X)[:30]}, not the entry word of a scalar document (offset 4)'
        ss = subslice(d0)
        if ss is None:
            return None, f'the scalar entry is read from {show(X)[:30]}; the payload {show(d0)[:50]} is not a sub-slice this rule recognises'
        if base_of(ss[0]) == X and ss[1] == 8 and ss[2] is None:
            return True, 'the entry word and payload of one scalar document'
        return False, f'the scalar entry is read from {show(X)[:30]} but the payload is {show(d0)[:50]}'
    return None, f'entry {show(j0)[:50]} and payload {show(d0)[:50]}: no source relation recognised'


def r06_2(ctx, run, rule='R06.2', floor=28):
    n = 0
    seen = set()
    for b in functions_of(ctx):
        paths, loops = region_paths(b)
        for q in paths:
            for e in q.calls():
                if not called(e[1], 'ArrayBuilder::push_raw', 'ObjectBuilder::push_raw'):
                    continue
                j, d = e[2][-2], e[2][-1]
                ok, why = pair_ok(j, d)
                # queue of pairs (array_insert_jsonb): the pair popped as one tuple
                key = (b.path, e[5].get('line'), ok)
                if key in seen:
                    continue
                seen.add(key)
                n += 1
                t = e[5]
                desc = f'push_raw[{len([k for k in seen if k[0] == b.path]) - 1}]'
                loc = f"{t.get('file')}:{t.get('line')}"
                if ok:
                    run.proved(rule, b.path, desc, why, loc)
                elif ok is None:
                    run.undecided(rule, b.path, desc, why + ': whether the entry word describes the payload is not decided', loc)
                else:
                    run.violation(rule, b.path, desc, 'an entry word is paired with a payload it does not describe: ' + why + ' — the stored length/type no longer matches the bytes copied', loc)
            # (entry, payload) pair values built anywhere (queued, stored in a local, returned by a helper) must be consistent too
            cands = []
            for e in q.calls():
                for a in e[2]:
                    cands.append((a, e[5]))
            for k_, v_ in q.store.items():
                if isinstance(v_, tuple):
                    cands.append((v_, None))
            if q.ret is not None:
                cands.append((q.ret, None))
            for top, t in cands:
                for v in subterms(top):
                    if not (v[0] == 'agg' and v[1] == 'tuple' and len(v[2]) == 2):
                        continue
                    c0, c1 = deref_all(v[2][0]), deref_all(v[2][1])
                    if not (is_call(c0, 'JEntry::make_container_jentry', 'JEntry::decode_jentry') and (c1[0] == 'init' or is_call(c1, 'Index::index') or _subslice(c1) is not None)):
                        continue
                    ok, why = pair_ok(v[2][0], v[2][1])
                    key = (b.path, show(v)[:120], ok, 'q')
                    if key in seen:
                        continue
                    seen.add(key)
                    n += 1
                    loc = f"{t.get('file')}:{t.get('line')}" if t else f'{b.file}:{b.line}'
                    d_ = f'pair-value[{len([k for k in seen if k[0] == b.path and k[-1] == "q"]) - 1}]'
                    if ok:
                        run.proved(rule, b.path, d_, why, loc)
                    elif ok is None:
                        run.undecided(rule, b.path, d_, why, loc)
                    else:
                        run.violation(rule, b.path, d_, 'an (entry, payload) pair value is inconsistent: ' + why, loc)
    run.floor(rule, 'push_raw call sites', n, floor)


# ------------------------------------------------------------------ R06.5 positions: sign-losing casts

PURE_ARITH = ('saturating_add', 'saturating_sub', 'wrapping_add', 'wrapping_sub', 'min', 'max', 'clamp', 'abs', 'unsigned_abs', 'rem_euclid')


def r06_5(ctx, run, rule='R06.5'):
    """Every i32 -> usize cast of a position in the editors has a provably non-negative operand on its path,
    and an insertion position is provably <= len."""
    n = 0
    for b in functions_of(ctx):
        if not any(k in b.path for k in ('array_insert', 'delete_', 'get_by_keypath')):
            continue
        paths, loops = region_paths(b)
        sites = {}
        for q in paths:
            terms = set()
            for e in q.events:
                if e[0] == 'call':
                    for a in e[2]:
                        for s in subterms(a):
                            if s[0] == 'cast' and s[1] == 'IntToInt' and s[3] == 'usize':
                                terms.add((s, e[6], e[5].get('line')))
            for k, v in q.store.items():
                if isinstance(v, tuple):
                    for s in subterms(v):
                        if s[0] == 'cast' and s[1] == 'IntToInt' and s[3] == 'usize':
                            terms.add((s, len(q.conds), None))
            for (s, ci, line) in terms:
                src = s[2]
                if not is_i32(b, src):
                    continue
                from rules.intarith import Ranger, seed_ranges
                rg = Ranger(ctx)
                pf = PathFacts(q.conds[:ci])
                seed_ranges(rg, b, pf, 'i32')
                if pf.infeasible():
                    continue
                r = rg.term_range(b, src, pf, 'i32')
                ok = not r.empty() and r.lo() >= 0
                if not ok:
                    # the same pure arithmetic call (saturating / wrapping / checked add, min, max ...) on the same operands was tested on the path:
                    # two evaluations of it are one value, whatever block each sits in
                    s0 = deref_all(src)
                    if s0[0] == 'call' and canon(s0[1]).split('::')[-1] in PURE_ARITH:
                        for c_ in q.conds[:ci]:
                            for x_ in subterms(c_[0]):
                                if x_[0] == 'call' and x_ != s0 and x_[1] == s0[1] and x_[2] == s0[2]:
                                    r2 = rg.term_range(b, x_, pf, 'i32')
                                    if not r2.empty():
                                        r = r.intersect(r2) if not r.intersect(r2).empty() else r
                        ok = not r.empty() and r.lo() >= 0
                k = (b.path, show(src)[:70])
                d = sites.setdefault(k, {'ok': True, 'why': str(r), 'line': line})
                if not ok:
                    from panics import opaque_container
                    op_ = opaque_container(src, b, None, arithmetic=True)
                    if op_ and not any(is_call(x, 'clamp', '::clamp', 'Ord::max', 'Ord::min') for x in subterms(src)) and d['ok'] is True:
                        d['ok'] = None
                        d['why'] = f'the position is computed through {op_}, which this rule has no range model for'
                    else:
                        d['ok'] = False
                        d['why'] = f'operand ranges over {r}'
        for (p, desc), d in sorted(sites.items()):
            n += 1
            loc = f'{b.file}:{d["line"] or b.line}'
            if d['ok'] is None:
                run.undecided(rule, p, f'cast[{desc} as usize]', d['why'] + ': whether it can be negative here is not decided', loc)
            elif d['ok']:
                run.proved(rule, p, f'cast[{desc} as usize]', f'operand proven non-negative ({d["why"]})', loc)
            else:
                run.violation(rule, p, f'cast[{desc} as usize]', f'a signed position is cast to usize although it may be negative ({d["why"]}): a negative position becomes a huge index '
                              'instead of being clamped / counted from the end', loc)
    run.floor(rule, 'signed-position casts in the editors', n, 5)


def is_i32(body, t):
    t0 = t
    for s in subterms(t0):
        if s[0] in ('init', 'hav'):
            ty = body.local_ty(s[1]).get('s')
            if ty == 'i32':
                return True
        if s[0] == 'cast' and s[3] == 'i32':
            return True
        if s[0] == 'field' and s[2] in ('0',) and s[1][0] == 'downcast' and s[1][2] == 'Index':
            return True
    return False


# ------------------------------------------------------------------ R06.8 no entry is silently dropped

DROP_TABLE = {
    # function -> predicate over path conditions that must hold on a no-push iteration path
    'functions::delete_jsonb_object_by_keypath': ('the key equals the path element and the path ends here',
                                                  lambda cs: has(cs, 'eq', True) and has(cs, 'is_empty', True)),
    'functions::delete_jsonb_array_by_keypath': ('the position equals the path element and the path ends here',
                                                 lambda cs: has_ne_false(cs) and has(cs, 'is_empty', True)),
    'functions::delete_jsonb_by_name': ('the key / string element equals the name', lambda cs: has(cs, 'eq', True)),
    'functions::delete_jsonb_by_index': ('the position equals the index', lambda cs: has_ne_false(cs)),
    'functions::object_delete_jsonb': ('the key is in the set', lambda cs: has(cs, 'contains', True)),
    'functions::object_pick_jsonb': ('the key is not in the set', lambda cs: has(cs, 'contains', False)),
    'functions::strip_nulls_object': ('the member value is null', lambda cs: any('type_code' in show(c[0]) and c[1] == 'eq' and c[2] == 0 for c in cs)),
    'functions::array_distinct_jsonb': ('the element was seen before', lambda cs: has(cs, 'contains', True) or has(cs, 'insert', False) or has(cs, 'contains_key', True)),
    'functions::array_intersection_jsonb': ('the element has no remaining match in the second list', lambda cs: True),
    'functions::array_except_jsonb': ('the element has a remaining match in the second list', lambda cs: True),
    'functions::object_insert_jsonb': ('prefix copy loop', lambda cs: True),
}


def has(cs, what, val):
    for c in cs:
        t = c[0]
        if t[0] == 'call' and isinstance(c[2], bool) and c[2] is val:
            n = canon(t[1]).split('::')[-1]
            if n == what:
                return True
    return False


def has_ne_false(cs):
    for c in cs:
        t = c[0]
        if t[0] == 'bin' and t[1] == 'Ne' and c[2] is False:
            return True
        if t[0] == 'bin' and t[1] == 'Eq' and c[2] is True:
            return True
    return False


def r06_8(ctx, run, rule='R06.8'):
    n = 0
    for b in functions_of(ctx):
        paths, loops = region_paths(b)
        # loops that iterate a document's entries and push into a builder
        for h in sorted(loops):
            its = [q for q in paths if q.blocks and q.blocks[0] == h and q.end in (('backedge', h), ('stop', h))]
            if not its:
                continue
            iter_src = any(is_call(c[0][1], 'Iterator::next') for q in its for c in q.conds if c[0][0] == 'discr')
            pushes = any(called(e[1], 'ArrayBuilder::push_raw', 'ObjectBuilder::push_raw', 'ArrayBuilder::push_array', 'ArrayBuilder::push_object',
                                'ObjectBuilder::push_array', 'ObjectBuilder::push_object') for q in its for e in q.calls())
            if not (iter_src and pushes):
                continue
            n += 1
            spec = DROP_TABLE.get(b.path)
            bad = []
            unread = []
            for q in its:
                if not any(c[0][0] == 'discr' and is_call(c[0][1], 'Iterator::next') and c[1] == 'eq' and c[2] == 1 for c in q.conds):
                    continue
                pushed = any(called(e[1], 'ArrayBuilder::push_raw', 'ObjectBuilder::push_raw', 'ArrayBuilder::push_array', 'ArrayBuilder::push_object',
                                    'ObjectBuilder::push_array', 'ObjectBuilder::push_object') for e in q.calls())
                if pushed:
                    continue
                if spec is None:
                    bad.append('an entry is skipped although this editor deletes nothing')
                elif not spec[1](q.conds):
                    conds = '; '.join(f'{show(c[0])[:40]}={c[2]}' for c in q.conds[-3:])
                    # a test made by a crate-local helper this rule does not know by name (a cursor struct's method, an extracted predicate)
                    f_ = ctx.facts
                    helper = [c for c in q.conds if c[0][0] == 'call' and (f_.bodies.get(c[0][1]) is not None or '{closure' in c[0][1])]
                    if helper:
                        unread.append(f'an entry is dropped after {canon(helper[-1][0][1]).split("::")[-1]}() answered {helper[-1][2]}; expected condition: "{spec[0]}"')
                    else:
                        bad.append(f'an entry is dropped on a path that does not satisfy "{spec[0]}" [{conds}]')
            loc = f"{b.file}:{b.blocks[h]['term'].get('line')}"
            d = f'loop@{sorted(loops).index(h)}'
            import report as _rp
            base_fns = _rp.baseline_functions()
            if bad and spec is None and not _rp.is_baseline_fn(b.path):
                # a function that did not exist under this name on the pinned tree (renamed, merged, extracted): which entries it is meant to drop is not in the table
                run.undecided(rule, b.path, d, 'this loop copies entries into a builder and skips some, and the function is not one of the editors whose drop condition this rule has on record '
                              '(new or renamed): whether only the entries the edit removes are dropped is not decided', loc)
            elif bad:
                run.violation(rule, b.path, d, '; '.join(sorted(set(bad))[:2]) + ': the output loses a member/element the edit does not remove', loc)
            elif unread:
                run.undecided(rule, b.path, d, unread[0] + ': whether that helper expresses the edit\'s own drop condition is not decided', loc)
            else:
                run.proved(rule, b.path, d, 'every iteration either copies the entry into the builder or drops it under the edit\'s own condition' + (f' ({spec[0]})' if spec else ''), loc)
    run.floor(rule, 'entry-copying loops of the editors', n, 15)


# ------------------------------------------------------------------ R07.3 ordered unique keys, R07.5 who may write a header

def header_writers(ctx):
    """Functions in which a *_CONTAINER_TAG constant flows into bytes appended to a buffer."""
    f = ctx.facts
    tags = {cv(f, 'ARRAY_CONTAINER_TAG'): 'ARRAY', cv(f, 'OBJECT_CONTAINER_TAG'): 'OBJECT', cv(f, 'SCALAR_CONTAINER_TAG'): 'SCALAR'}
    out = {}
    for p, b in sorted(f.bodies.items()):
        if b.kind == 'Promoted' or p.startswith('<') or p.startswith('jsonpath::parser'):
            continue
        kinds = set()
        for bb, i, s in b.all_stmts():
            if s['k'] != 'assign':
                continue
            rv = s['rv']
            ops = []
            if rv['k'] == 'bin' and rv['op'] == 'BitOr':
                ops = [rv['a'], rv['b']]
            for o in ops:
                if o['k'] == 'const' and o.get('named', '') and o['named'].endswith('_CONTAINER_TAG') and o.get('val') in tags:
                    kinds.add(tags[o['val']])
        for bb, t in b.calls():
            nm = callee_name(t)
            if called(nm, 'WriteBytesExt::write_u32', 'u32::to_be_bytes', 'to_be_bytes'):
                for a in t['args']:
                    if a['k'] == 'const' and a.get('val') in tags and (a.get('named') or '').endswith('_CONTAINER_TAG'):
                        kinds.add(tags[a['val']])
        if kinds:
            # does the function append to a buffer at all?
            appends = any(called(callee_name(t), 'Vec::extend_from_slice', 'WriteBytesExt::write_u32', 'IndexMut::index_mut', 'Vec::push') for _, t in b.calls())
            if appends:
                out[p] = kinds
    return out


KEY_SOURCES = {
    "ser::Encoder::<'a>::encode_object": 'BTreeMap<String, Value> iteration (R01.7)',
    "builder::ObjectBuilder::<'a>::build_into": 'BTreeMap<&str, Entry> iteration',
    'functions::build_object': 'BTreeMap<&str, &[u8]> built from the items',
}


def r07_3_5(ctx, run, rule3='R07.3', rule5='R07.5'):
    f = ctx.facts
    hw = header_writers(ctx)
    run.floor(rule5, 'functions that write a container header', len(hw), 10)
    known = {
        "ser::Encoder::<'a>::encode_scalar", "ser::Encoder::<'a>::encode_array", "ser::Encoder::<'a>::encode_object",
        "builder::ArrayBuilder::<'a>::build_into", "builder::ObjectBuilder::<'a>::build_into",
        'functions::build_array', 'functions::build_object', 'functions::object_keys', 'functions::extract_by_jentry',
        "jsonpath::selector::Selector::<'a>::build_predicate_result", "jsonpath::selector::Selector::<'a>::build_values",
        "jsonpath::selector::Selector::<'a>::build_scalar_array",
    }
    def only_called_from_known(p, seen=()):
        callers = [c for c, tg in ctx.cg.edges.items() if p in tg and c != p]
        return bool(callers) and all(c in known or (c not in seen and f.bodies.get(c) is not None and f.bodies[c].vis in ('private', 'closure') and only_called_from_known(c, seen + (p,)))
                                     for c in callers)
    for p, kinds in sorted(hw.items()):
        b = f.bodies[p]
        if p in known:
            run.proved(rule5, p, 'header-writer', f'writes {sorted(kinds)} header(s); covered by the length/key/re-wrap rules', f'{b.file}:{b.line}')
        elif b.vis in ('private', 'closure') and only_called_from_known(p):
            run.proved(rule5, p, 'header-writer', f'private helper called only from the known writers; writes {sorted(kinds)} header(s) on their behalf', f'{b.file}:{b.line}', nontrivial=False)
        else:
            run.undecided(rule5, p, 'header-writer', f'this function writes a {sorted(kinds)} container header and is not one of the writers whose output the other rules cover '
                          '(measured lengths, ordered unique keys, exact re-wrap), nor a private helper of one: its output is outside what this check decides', f'{b.file}:{b.line}')
    # object headers: the keys that follow must come from an ordered-map iteration
    for p, kinds in sorted(hw.items()):
        if 'OBJECT' not in kinds:
            continue
        b = f.bodies[p]
        iters = [canon(callee_name(t)) for _, t in b.calls() if canon(callee_name(t)).endswith(('BTreeMap::iter', 'BTreeMap::into_iter', 'IntoIterator::into_iter', 'BTreeMap::keys'))]
        # key bytes written must be iterated from a BTreeMap typed local
        maps = [l for l in b.locals if l['ty'].get('path') == 'std::collections::BTreeMap' or (l['ty'].get('k') == 'ref' and l['ty']['inner'].get('path') == 'std::collections::BTreeMap')
                or 'btree_map::I' in l['ty'].get('s', '')]
        key_str = any(l['ty'].get('s', '').startswith('std::collections::BTreeMap<&str') or l['ty'].get('s', '').startswith('std::collections::BTreeMap<std::string::String')
                      or 'BTreeMap<&str' in l['ty'].get('s', '') or 'BTreeMap<std::string::String' in l['ty'].get('s', '') or "btree_map::Iter<'_, std::string::String" in l['ty'].get('s', '')
                      or "btree_map::Iter<'_, &str" in l['ty'].get('s', '') or 'btree_map::IntoIter<&str' in l['ty'].get('s', '') for l in b.locals)
        other_iter = [canon(callee_name(t)) for _, t in b.calls() if canon(callee_name(t)).endswith(('slice::iter', 'Vec::iter', 'VecDeque::iter')) ]
        # the loop that writes key bytes: extend_from_slice(str::as_bytes(key)) where key comes from the map iteration
        def key_writes_of(body):
            ex_ = Expr(body, expand_named=True)
            kw, bad_ = 0, []
            for bb, t in body.calls():
                if called(callee_name(t), 'Vec::extend_from_slice') and len(t['args']) == 2:
                    a = ex_.operand(t['args'][1])
                    if any(x[0] == 'call' and canon(x[1]).endswith(('str::as_bytes', 'String::as_bytes')) for x in walk(a)):
                        kw += 1
                        # the key is an item of an ordered-map iteration, possibly wrapped in adaptors that keep the order (enumerate, by_ref ...)
                        src_ok = any(x[0] == 'call' and (('btree_map' in x[1] and canon(x[1]).endswith('Iterator::next')) or
                                                        canon(x[1]).endswith(('BTreeMap::keys', 'BTreeMap::iter', 'BTreeMap::into_keys', 'BTreeMap::into_iter')) or
                                                        ('BTreeMap' in x[1] and canon(x[1]).endswith('IntoIterator::into_iter'))) for x in walk(a)) \
                            and not any(x[0] == 'call' and canon(x[1]).split('::')[-1] in ('rev', 'sort', 'sort_by', 'sort_unstable', 'chain', 'zip', 'filter_map', 'flat_map') for x in walk(a))
                        if not src_ok:
                            bad_.append(f"{t.get('file')}:{t.get('line')}")
            return kw, bad_
        key_writes, bad_src = key_writes_of(b)
        via = ''
        if key_writes == 0:
            # the key phase may live in a private helper that is handed the map
            for bb, t in b.calls():
                cn = callee_name(t)
                cb = f.bodies.get(cn)
                if cb is not None and cb.vis == 'private' and any('BTreeMap' in str(cb.local_ty(i).get('s', '')) for i in range(1, cb.argc + 1)):
                    kw, bad_ = key_writes_of(cb)
                    if kw:
                        key_writes += kw
                        bad_src += bad_
                        via = f' (in helper {cn.split("::")[-1]})'
        loc = f'{b.file}:{b.line}'
        if key_writes and not bad_src and (via or (bool(maps) and key_str)):
            run.proved(rule3, p, 'object-keys', f'key bytes are written from a BTreeMap iteration (byte-lexicographic order, no duplicates){via}: {KEY_SOURCES.get(p, "ordered map")}', loc)
        elif key_writes == 0 and p.endswith('object_keys'):
            continue
        elif bad_src:
            run.violation(rule3, p, 'object-keys', 'this function writes an object header, but the key bytes it emits do not come from an ordered-map (BTreeMap) iteration'
                          + f' (key bytes written at {bad_src})' + ': keys may be unsorted or duplicated, which is not canonical JSONB', loc)
        else:
            run.undecided(rule3, p, 'object-keys', 'this function writes an object header, but no write of key bytes was found in it or in a private helper it hands an ordered map to: '
                          'where the keys come from is not decided', loc)


# ------------------------------------------------------------------ R07.4 selector positions and writers

def r07_4(ctx, run, rule='R07.4'):
    """Every Position built by the selector pairs an offset with the length of the entry at that offset
    (or is the whole root / the caller's own position); the writers copy exactly root[offset..offset+length]."""
    f = ctx.facts
    n = 0
    for p, b in sorted(f.bodies.items()):
        if not p.startswith("jsonpath::selector::Selector::<'a>::") or b.kind == 'Promoted':
            continue
        paths, loops = region_paths(b)
        seen = set()
        for q in paths:
            for k, v in list(q.store.items()) + [(None, e[2][1]) for e in q.calls() if called(e[1], 'VecDeque::push_back') and len(e[2]) == 2]:
                if not isinstance(v, tuple):
                    continue
                for s in subterms(v):
                    if agg_variant(s) and s[1][1].endswith('selector::Position') and s[2]:
                        tup = deref_all(s[2][0])
                        if tup[0] != 'agg' or tup[1] != 'tuple':
                            continue
                        if s[1][2] == 'Container':
                            off, ln = tup[2][0], tup[2][1]
                        else:
                            off, ln = tup[2][1], tup[2][2]
                        key = (show(off)[:60], show(ln)[:60])
                        if key in seen:
                            continue
                        seen.add(key)
                        n += 1
                        ok, why = position_pair_ok(b, off, ln)
                        loc = f'{b.file}:{b.line}'
                        d = f'position[{s[1][2]}:{len(seen) - 1}]'
                        if ok:
                            run.proved(rule, p, d, why, loc)
                        elif ok is None:
                            run.undecided(rule, p, d, f'a position is recorded with length {show(ln)[:60]} for offset {show(off)[:40]}: ' + why + ': whether it is the item\'s own length is not decided', loc)
                        else:
                            run.violation(rule, p, d, f'a position is recorded with length {show(ln)[:60]} for offset {show(off)[:40]}: ' + why +
                                          ' — the writers copy root[offset..offset+length], so the result is not exactly the selected item', loc)
    run.floor(rule, 'Position constructions in the selector', n, 7)
    # writers copy exactly the recorded range
    for w in ('build_values', 'build_scalar_array'):
        b = f.bodies.get("jsonpath::selector::Selector::<'a>::" + w)
        if b is None:
            run.undecided(rule, w, 'copy', 'writer not found (anchor lost)')
            continue
        paths, loops = region_paths(b)
        okc = 0
        bad = []
        for q in paths:
            for e in q.calls():
                if called(e[1], 'Index::index') and len(e[2]) == 2 and deref_all(e[2][0])[0] == 'init':
                    r = deref_all(e[2][1])
                    if agg_variant(r) and r[1][1].endswith('ops::Range') and len(r[2]) == 2:
                        d = lin_sub(lin(r[2][1]), lin(r[2][0]))
                        s0 = show(r[2][0])
                        # offset and length fields of the same popped position
                        # offset and length are two components of one and the same item (the popped / drained position)
                        from pat import access_path
                        same = False
                        if len(d[0]) == 1 and d[1] == 0 and list(d[0].values()) == [1]:
                            r0, st0 = access_path(strip_casts(r[2][0]))
                            r1, st1 = access_path(strip_casts(list(d[0])[0]))
                            same = r0 == r1 and st0 and st1 and st0[:-1] == st1[:-1] and st0 != st1
                        if same:
                            okc += 1
                        else:
                            bad.append(show(r)[:80])
        if not okc and not bad:
            run.undecided(rule, b.path, 'copy-range', 'no copy of a sub-range of the root document was found in this writer (moved to a helper?): what it copies is not decided', f'{b.file}:{b.line}')
        else:
            (run.proved if okc and not bad else run.violation)(rule, b.path, 'copy-range', 'copies root[offset .. offset + length] of the popped position' if okc and not bad else f'copies {bad[:2]}', f'{b.file}:{b.line}')


def position_pair_ok(b, off, ln):
    lo, ll = deref_all(off), deref_all(ln)
    # whole root
    if const_of(lo) == 0 and (is_call(strip_casts(ll), 'slice::len') or ll[0] == 'len'):
        return True, 'the whole document'
    # pass-through of the caller's own position
    if lo[0] == 'init' and ll[0] == 'init':
        return True, 'the position handed in by the caller'
    # offset accumulated over entries, length = the same entry's length field (item .1 of the jentries list)
    s = show(ll)
    if ll[0] in ('deref', 'field', 'index', 'downcast') or (ll[0] == 'field'):
        # length must be an element of a decoded entry list: (… as Some).0.1  or  jentries[i].1
        if any(x[0] == 'call' and canon(x[1]).endswith(('Iterator::next', 'Index::index', 'slice::get', 'Vec::get', 'VecDeque::get', 'Iterator::nth', 'slice::first', 'slice::last'))
               for x in subterms(ll)) or any(x[0] == 'index' for x in subterms(ll)):
            return True, 'the length field of the entry at that offset'
    if ll[0] == 'field' and ll[1][0] == 'field':
        return True, 'the length field of the entry at that offset'
    # recognised-and-wrong: a length that runs to the end of the document from a non-zero offset, or a constant
    l0 = strip_casts(ll)
    if (l0[0] == 'len' or is_call(l0, 'slice::len')) and const_of(lo) != 0:
        return False, 'the length is the length of a slice that runs to the end of the document, not the item\'s own length'
    if l0[0] == 'bin' and l0[1] == 'Sub' and any(x[0] == 'len' or is_call(x, 'slice::len') for x in subterms(l0[2])):
        return False, 'the length is "everything up to the end of the document", not the item\'s own length'
    if const_of(l0) is not None:
        return False, f'the length is the constant {const_of(l0)}'
    return None, 'the length is neither recognised as an entry\'s own length field, nor as the whole document, nor as the caller\'s position'


# ------------------------------------------------------------------ R06.9 strip_nulls visits every nested container

def r06_9(ctx, run, rule='R06.9', which=('bytes', 'tree')):
    """Null-valued object members are removed at every depth: the byte walkers never copy a CONTAINER entry verbatim
    (push_raw) — they rebuild it through the recursive stripper — and the tree walker recurses into every element that
    can be an array or an object."""
    f = ctx.facts
    g = lambda n: cv(f, n)
    if 'bytes' in which:
        roots = [p for p in ('functions::strip_nulls_jsonb',) if p in f.bodies]
        if not roots:
            run.undecided(rule, 'functions::strip_nulls_jsonb', 'walkers', 'function not found (anchor lost)')
        else:
            cone = sorted(x for x in ctx.cg.reachable(roots) if x in f.bodies and x.startswith('functions::strip_nulls'))
            n = 0
            for p in cone:
                b = f.bodies[p]
                paths, loops = region_paths(b)
                bad = None
                for q in paths:
                    tc = [c for c in q.conds if c[0][0] == 'field' and c[1] == 'eq' and c[2] == g('CONTAINER_TAG')] + \
                         [c for c in q.conds if 'type_code' in show(c[0]) and c[1] == 'eq' and c[2] == g('CONTAINER_TAG')]
                    if not tc:
                        continue
                    n += 1
                    raw = [e for e in q.calls() if called(e[1], 'ArrayBuilder::push_raw', 'ObjectBuilder::push_raw')]
                    if raw:
                        t = raw[0][5]
                        bad = f"{t.get('file')}:{t.get('line')}"
                loc = f'{b.file}:{b.line}'
                if bad:
                    run.violation(rule, p, 'nested-containers', f'an entry of container kind is copied verbatim (push_raw at {bad}) instead of being rebuilt by the recursive stripper: '
                                  'null members below it survive', loc)
                elif paths:
                    run.proved(rule, p, 'nested-containers', 'no path copies a CONTAINER entry verbatim', loc, nontrivial=bool(n))
    if 'tree' in which:
        b = f.bodies.get('functions::strip_value_nulls')
        if b is None:
            run.undecided(rule, 'functions::strip_value_nulls', 'tree-walker', 'function not found (anchor lost)')
            return
        vs = [v['name'] for v in f.adts.get('value::Value', {}).get('variants', [])]
        cont = {vs.index(x) for x in ('Array', 'Object') if x in vs}
        paths, loops = region_paths(b)
        bad = 0
        n = 0
        for q in paths:
            if not q.blocks or q.blocks[0] not in loops or q.end[0] not in ('stop', 'backedge') or q.end[1] != q.blocks[0]:
                continue
            nxt = [c for c in q.conds if c[0][0] == 'discr' and c[0][1][0] == 'call' and canon(c[0][1][1]).endswith('Iterator::next') and c[1] == 'eq' and c[2] == 1]
            if not nxt:
                continue
            n += 1
            if any(called(e[1], 'functions::strip_value_nulls') for e in q.calls()):
                continue
            # no recursion on this iteration: the element must be known not to be a container
            possible = set(range(len(vs)))
            for c in q.conds:
                t = c[0]
                if t[0] == 'discr' and any(is_call(s_, 'Iterator::next') for s_ in subterms(t[1])) and not (t[1][0] == 'call'):
                    if c[1] == 'eq':
                        possible &= {c[2]}
                    elif c[1] == 'ne':
                        possible -= set(c[2])
            if possible & cont:
                bad += 1
        # elements dropped before the loop body sees them: the loop runs over an iterator adaptor that skips elements
        from enumeval import enum_pred
        DROPPING = ('Iterator::filter', 'Iterator::filter_map', 'Iterator::skip', 'Iterator::take', 'Iterator::step_by', 'Iterator::skip_while',
                    'Iterator::take_while', 'Iterator::map_while')
        dropped = None
        unread_adaptor = None
        for q in paths:
            # only adaptors that feed a `for` loop (the argument of into_iter); one consumed by count / collect / any drops nothing from a walk
            loop_src = [s_ for e2 in q.calls() if called(e2[1], 'IntoIterator::into_iter') for a2 in e2[2] for s_ in subterms(a2)
                        if s_[0] == 'call' and called(s_[1], *DROPPING)]
            for e in q.calls():
                if not called(e[1], *DROPPING) or not any(s_[1] == e[1] and s_[2] == e[2] for s_ in loop_src):
                    continue
                clo = [a for a in e[2] if deref_all(a)[0] == 'agg' and isinstance(deref_all(a)[1], tuple) and deref_all(a)[1][0] == 'closure']
                if called(e[1], 'Iterator::filter') and clo:
                    cp = deref_all(clo[0])[1][1]
                    got = {i: enum_pred(f, cp, i, arg=2) for i in cont}
                    if any(v is False for v in got.values()):
                        dropped = sorted(vs[i] for i, v in got.items() if v is False)
                    elif any(v is not True for v in got.values()):
                        unread_adaptor = canon(e[1]).split('::')[-1]
                else:
                    unread_adaptor = canon(e[1]).split('::')[-1]
        loc = f'{b.file}:{b.line}'
        if dropped and not bad:
            run.violation(rule, b.path, 'tree-walker', f'the element loop runs over a filter that drops {" and ".join(dropped)} elements before the recursive call: null members below '
                          'such an element survive in the text route but not in the JSONB route', loc)
        elif unread_adaptor and not bad:
            run.undecided(rule, b.path, 'tree-walker', f'the element loop runs over `{unread_adaptor}`, which may drop elements this rule cannot enumerate: not decided', loc)
        elif bad:
            run.violation(rule, b.path, 'tree-walker', f'{bad} iteration path(s) skip the recursive call for an element that may be an array or an object: null members below it survive '
                          'in the text route but not in the JSONB route', loc)
        elif n:
            run.proved(rule, b.path, 'tree-walker', f'{n} iteration path(s): every element that can be a container is visited recursively', loc)
        else:
            run.undecided(rule, b.path, 'tree-walker', 'no element loop found in the tree walker: its traversal is not in a shape this rule reads', loc)


def r07_8(ctx, run, rule='R07.8'):
    """A Position::Container may denote the whole root document, and a root document may be a scalar (header kind SCALAR).
    A selector writer that nests the copied bytes under a CONTAINER_TAG entry word must therefore have excluded the scalar
    header kind on that path (or no producer records the root as a Container without testing its kind)."""
    f = ctx.facts
    CONTAINER_TAG = cv(f, 'CONTAINER_TAG')
    MASK = cv(f, 'CONTAINER_HEADER_TYPE_MASK')
    SCALAR = cv(f, 'SCALAR_CONTAINER_TAG')
    if None in (CONTAINER_TAG, MASK, SCALAR):
        run.undecided(rule, 'constants', 'anchors', 'CONTAINER_TAG / CONTAINER_HEADER_TYPE_MASK / SCALAR_CONTAINER_TAG not found (anchor lost)')
        return
    # producers: Position::Container((0, len(root))) recorded on a path with no header-kind test
    def kind_tested(q, exclude=False):
        """A header-kind test on the path; with exclude=True it must rule the SCALAR kind out."""
        for c in q.conds:
            t = c[0]
            masked = lambda s: s[0] == 'bin' and s[1] == 'BitAnd' and any(x[0] == 'const' and x[1] == MASK for x in (s[2], s[3]))
            if not any(masked(s) for s in subterms(t)):
                continue
            if not exclude:
                return True
            if masked(t):
                if (c[1] == 'eq' and c[2] != SCALAR) or (c[1] == 'ne' and isinstance(c[2], tuple) and SCALAR in c[2]):
                    return True
            elif t[0] == 'bin' and t[1] in ('Eq', 'Ne') and any(const_of(x) == SCALAR for x in (t[2], t[3])):
                if (t[1] == 'Eq') == (c[2] is False):
                    return True
        return False
    root_producers = []
    for p, b in sorted(f.bodies.items()):
        if not p.startswith("jsonpath::selector::Selector::<'a>::") or b.kind == 'Promoted':
            continue
        paths, loops = region_paths(b)
        for q in paths:
            vals = [v for k, v in q.store.items() if isinstance(v, tuple)] + [a for e in q.calls() for a in e[2]]
            for v in vals:
                for s in subterms(v):
                    if agg_variant(s) and s[1][1].endswith('selector::Position') and s[1][2] == 'Container' and s[2]:
                        tup = deref_all(s[2][0])
                        if tup[0] == 'agg' and tup[1] == 'tuple' and len(tup[2]) == 2 and const_of(tup[2][0]) == 0 and not kind_tested(q):
                            root_producers.append(p)
    root_producers = sorted(set(root_producers))
    n = 0
    helpers = {}
    for p, b in sorted(f.bodies.items()):
        if not p.startswith("jsonpath::selector::Selector::<'a>::") or b.kind == 'Promoted':
            continue
        paths, loops = region_paths(b)
        nested = bad = unsure = short = 0
        root_locals = {i for i in range(1, b.argc + 1) if b.name_of(i) == 'root' or '[u8]' in str(b.local_ty(i).get('s', ''))}
        def looks_at_root(t):
            """a condition computed from the document bytes by something this rule does not read (a helper call, a comparison of bytes)"""
            return any(s_[0] == 'init' and s_[1] in root_locals for s_ in subterms(t)) and any(s_[0] in ('call', 'index') or (s_[0] == 'bin' and s_[1] == 'BitAnd') for s_ in subterms(t))
        def classify(q):
            if kind_tested(q, exclude=True):
                return 'ok'
            for c in q.conds:
                if c[0][0] == 'discr' and is_call(c[0][1], 'slice::get', '::get') and ((c[1] == 'eq' and c[2] == 0) or (c[1] == 'ne' and isinstance(c[2], tuple) and 1 in c[2])):
                    # `value.get(..k)` is None: the bytes are shorter than k.  A scalar document is at least 8 bytes (header + entry word), so this
                    # excludes a scalar document only for k <= 8
                    g_ = c[0][1]
                    r_ = deref_all(g_[2][1]) if len(g_[2]) == 2 else None
                    k_ = None
                    if r_ is not None and agg_variant(r_) and r_[1][1].endswith(('ops::RangeTo', 'ops::Range')) and r_[2]:
                        k_ = const_of(r_[2][-1])
                    elif r_ is not None and agg_variant(r_) and r_[1][1].endswith('ops::RangeToInclusive') and r_[2]:
                        k_ = const_of(r_[2][-1])           # `..=k` needs k + 1 bytes
                        k_ = k_ + 1 if isinstance(k_, int) else None
                    if k_ is None:
                        return 'unsure'
                    return 'ok' if k_ <= 8 else 'short'
            if any(looks_at_root(c[0]) for c in q.conds):
                return 'unsure'
            return 'bad'
        for q in paths:
            hit = False
            for e in q.calls():
                for a in e[2]:
                    for s in subterms(a):
                        if s[0] == 'bin' and s[1] == 'BitOr' and any(const_of(x) == CONTAINER_TAG for x in (s[2], s[3])):
                            hit = True
            via_ret = False
            if q.ret is not None and any(s[0] == 'bin' and s[1] == 'BitOr' and any(const_of(x) == CONTAINER_TAG for x in (s[2], s[3])) for s in subterms(q.ret)):
                hit = True
                via_ret = True
            if not hit:
                continue
            nested += 1
            verdict = classify(q)
            if verdict == 'ok':
                continue
            if verdict == 'bad' and via_ret and not any(True for e in q.calls() for a in e[2] for s in subterms(a)
                                                         if s[0] == 'bin' and s[1] == 'BitOr' and any(const_of(x) == CONTAINER_TAG for x in (s[2], s[3]))):
                # a helper that only *returns* the entry word: the kind test may sit in its callers
                helpers.setdefault(p, []).append(q)
                nested -= 1
                continue
            if verdict == 'unsure':
                unsure += 1
            elif verdict == 'short':
                short += 1
            else:
                bad += 1
        if not nested:
            continue
        n += 1
        loc = f'{b.file}:{b.line}'
        if short:
            run.violation(rule, p, 'nested-entry', f'{short} path(s) nest the copied bytes under a CONTAINER_TAG entry word whenever they are shorter than a prefix longer than 8 bytes: '
                          'a scalar document with an empty payload (null, true, false, "") is exactly 8 bytes (header + entry word) and would be nested as a container', loc)
        elif not bad and not unsure:
            run.proved(rule, p, 'nested-entry', f'{nested} path(s) emit a CONTAINER_TAG entry for copied bytes, each after the header kind of those bytes was tested', loc)
        elif not root_producers:
            run.proved(rule, p, 'nested-entry', 'no selector function records the whole root as a Container position without testing its header kind', loc)
        elif not bad:
            run.undecided(rule, p, 'nested-entry', f'{unsure} path(s) give copied bytes a CONTAINER_TAG entry word after a test on the document bytes that this rule does not read (a helper?): '
                          'whether it excludes a scalar document is not decided', loc)
        else:
            run.violation(rule, p, 'nested-entry', f'{bad} path(s) copy the bytes of a Container position and give them a CONTAINER_TAG entry word without testing their header kind, while '
                          f'{root_producers[0].split("::")[-1]} records the whole root document (which may be a scalar document) as a Container position: `$` on a scalar root '
                          'in array mode nests a scalar document as an element, which is not the canonical encoding', loc)
    for hp, hq in sorted(helpers.items()):
        hb = f.bodies[hp]
        n += 1
        verdicts = []
        for p2, b2 in sorted(f.bodies.items()):
            if not p2.startswith("jsonpath::selector::Selector::<'a>::") or b2.kind == 'Promoted' or p2 == hp:
                continue
            paths2, _ = region_paths(b2)
            rl2 = {i for i in range(1, b2.argc + 1) if b2.name_of(i) == 'root' or '[u8]' in str(b2.local_ty(i).get('s', ''))}
            for q2 in paths2:
                for e2 in q2.calls():
                    if canon(e2[1]) != canon(hp):
                        continue
                    used = any(e2[4] in set(subterms(a)) for e3 in q2.calls() if e3 is not e2 for a in e3[2]) or (q2.ret is not None and e2[4] in set(subterms(q2.ret)))
                    if not used:
                        continue       # the entry word it returns is dropped by this caller
                    if kind_tested(q2, exclude=True):
                        verdicts.append('ok')
                    elif any(any(s_[0] == 'init' and s_[1] in rl2 for s_ in subterms(c[0])) and any(s_[0] == 'call' for s_ in subterms(c[0])) for c in q2.conds[:e2[6]]):
                        verdicts.append('unsure')
                    else:
                        verdicts.append('bad')
        loc = f'{hb.file}:{hb.line}'
        if verdicts and all(v == 'ok' for v in verdicts):
            run.proved(rule, hp, 'nested-entry', f'returns a CONTAINER_TAG entry word; each of the {len(verdicts)} call path(s) that use it tested the header kind first', loc)
        elif not verdicts or 'bad' not in verdicts:
            run.undecided(rule, hp, 'nested-entry', 'returns a CONTAINER_TAG entry word for copied bytes; its callers decide through a test this rule does not read (or no caller that uses the word was found): '
                          'whether a scalar document is excluded is not decided', loc)
        elif not root_producers:
            run.proved(rule, hp, 'nested-entry', 'no selector function records the whole root as a Container position without testing its header kind', loc)
        else:
            run.violation(rule, hp, 'nested-entry', 'returns a CONTAINER_TAG entry word for the copied bytes of a Container position and a caller uses it without any test of their header kind: '
                          '`$` on a scalar root in array mode nests a scalar document as an element, which is not the canonical encoding', loc)
    if not n:
        run.undecided(rule, 'selector writers', 'nested-entry', 'no selector function emits a CONTAINER_TAG entry word for copied bytes (moved?): not decided')
    # the other side of the same decision: where a scalar document is unwrapped (its payload from byte 8 copied out), the entry word kept for
    # it is the word at bytes 4..8 of that document, not its header word at bytes 0..4
    for p, b in sorted(f.bodies.items()):
        if not p.startswith("jsonpath::selector::Selector::<'a>::") or b.kind == 'Promoted':
            continue
        paths, loops = region_paths(b)
        worst = None
        for q in paths:
            scalar_here = any((lambda t_, c_: (t_[0] == 'bin' and t_[1] == 'BitAnd' and any(const_of(x_) == MASK for x_ in (t_[2], t_[3])) and c_[1] == 'eq' and c_[2] == SCALAR) or
                               (t_[0] == 'bin' and t_[1] == 'Eq' and c_[2] is True and any(const_of(x_) == SCALAR for x_ in (t_[2], t_[3]))
                                and any(s_[0] == 'bin' and s_[1] == 'BitAnd' and any(const_of(y_) == MASK for y_ in (s_[2], s_[3])) for s_ in subterms(t_))))(c[0], c) for c in q.conds)
            if not scalar_here:
                continue
            unwraps = [e for e in q.calls() if called(e[1], 'Vec::extend_from_slice') and len(e[2]) == 2 and any(
                agg_variant(deref_all(s_)) and deref_all(s_)[1][1].split('::')[-1] == 'RangeFrom' and const_of(deref_all(s_)[2][0]) == 8 for s_ in subterms(e[2][1]))]
            if not unwraps:
                continue
            cond_terms = {repr(s_) for c in q.conds for s_ in subterms(c[0])}
            words = []
            vals = [v_ for v_ in q.store.values() if isinstance(v_, tuple)] + [a_ for e in q.calls() for a_ in e[2]]
            for v_ in vals:
                for s_ in subterms(v_):
                    if s_[0] == 'call' and canon(s_[1]).endswith('from_be_bytes') and s_[2] and repr(s_) not in cond_terms:
                        offs = sorted({const_of(x_[2]) for x_ in subterms(s_[2][0]) if x_[0] == 'index' and isinstance(const_of(x_[2]), int)})
                        rng = [deref_all(x_) for x_ in subterms(s_[2][0]) if agg_variant(deref_all(x_)) and deref_all(x_)[1][1].split('::')[-1] in ('Range', 'RangeFrom', 'RangeTo')]
                        if offs:
                            words.append(offs[0])
                        elif rng:
                            r0 = rng[0]
                            words.append(0 if r0[1][1].split('::')[-1] == 'RangeTo' else const_of(r0[2][0]))
            for w in words:
                v = 'ok' if w == 4 else ('bad' if w == 0 else 'unsure')
                worst = v if worst is None or {'ok': 0, 'unsure': 1, 'bad': 2}[v] > {'ok': 0, 'unsure': 1, 'bad': 2}[worst] else worst
        if worst is None:
            continue
        loc = f'{b.file}:{b.line}'
        if worst == 'ok':
            run.proved(rule, p, 'unwrapped-entry', 'a scalar document is unwrapped with the entry word read at bytes 4..8', loc)
        elif worst == 'bad':
            run.violation(rule, p, 'unwrapped-entry', 'where a scalar document is unwrapped (its payload from byte 8 copied out) the word kept as its entry is read from bytes 0..4, the header word, '
                          'not from bytes 4..8: the element gets entry word 0x20000000 | 0 whatever its kind and length', loc)
        else:
            run.undecided(rule, p, 'unwrapped-entry', 'the entry word kept for an unwrapped scalar document is read at an offset this rule does not evaluate: not decided', loc)


def r06_13(ctx, run, rule='R06.13'):
    """delete_by_name on an array removes *every* string element equal to the name (the byte-level twin skips each match while
    copying); the tree twin must not stop at the first match."""
    f = ctx.facts
    fn = 'functions::delete_by_name'
    b = f.bodies.get(fn)
    if b is None:
        run.undecided(rule, fn, 'all-matches', 'function not found (anchor lost)')
        return
    loops = natural_loops(b)
    in_loop = set().union(*loops.values()) if loops else set()
    names = [(bb, canon(callee_name(t))) for bb, t in b.calls()]
    loc = f'{b.file}:{b.line}'
    if any(n.endswith(('Vec::retain', 'Vec::retain_mut', 'Vec::extract_if', 'Vec::dedup_by')) for _, n in names):
        run.proved(rule, fn, 'all-matches', 'the tree branch removes matching elements with Vec::retain (every match)', loc)
        return
    single = [(bb, n) for bb, n in names if n.endswith(('Vec::remove', 'Vec::swap_remove')) and bb not in in_loop]
    if single:
        run.violation(rule, fn, 'all-matches', f'the tree branch removes a single element ({single[0][1].split("::")[-1]} outside any loop): when the name occurs more than once in the array '
                      'only the first occurrence is deleted, while the byte-level twin deletes all of them', loc)
    else:
        run.undecided(rule, fn, 'all-matches', 'how the tree branch removes matching array elements was not recognised (no retain, no single remove): not decided', loc)


def r11_6(ctx, run, rule='R11.6'):
    """Tree twin of concat: merging two objects (or two arrays) moves the *right* operand's entries into the *left* one
    (`left.append(&mut right)`): for maps the appended side wins on duplicate keys, for vectors the order is left then right."""
    from rules.c08 import param_provenance
    f = ctx.facts
    fn = 'functions::concat_values'
    b = f.bodies.get(fn)
    if b is None:
        run.undecided(rule, fn, 'merge-direction', 'function not found (anchor lost)')
        return
    ps, _ = explore(b, max_paths=2000)
    loc = f'{b.file}:{b.line}'
    seen = {}
    for q in ps:
        for e in q.calls():
            if not (called(e[1], 'BTreeMap::append', 'Vec::append', 'BTreeMap::extend') and len(e[2]) == 2):
                continue
            pr, po = param_provenance(b, e[2][0]), param_provenance(b, e[2][1])
            kind = 'map' if 'BTreeMap' in e[1] else 'vec'
            line = e[5].get('line')
            if pr == {1} and po == {2}:
                seen.setdefault((kind, line), 'ok')
            elif pr == {2} and po == {1}:
                seen[(kind, line)] = 'rev'
            elif kind == 'map':
                seen.setdefault((kind, line), 'unknown')
    if not any(k[0] == 'map' for k in seen):
        run.undecided(rule, fn, 'merge-direction', 'no BTreeMap::append / extend between the two operands was found (merged another way?): which side wins on duplicate keys is not decided', loc)
    for (kind, line), v in sorted(seen.items(), key=str):
        d = f'merge-direction[{kind}@{len([1 for k in sorted(seen, key=str) if str(k) < str((kind, line))])}]'
        at = f'{b.file}:{line}' if line else loc
        if v == 'ok':
            run.proved(rule, fn, d, 'the right operand is appended into the left one' + (' (right wins on duplicate keys)' if kind == 'map' else ' (left elements first)'), at)
        elif v == 'rev':
            run.violation(rule, fn, d, 'the left operand is appended into the right one: ' + ('on duplicate keys the left value wins, while the byte-level twin (and the documented behaviour) lets the right value win'
                          if kind == 'map' else 'the elements come out right-then-left'), at)
        else:
            run.undecided(rule, fn, d, 'the operands of this merge could not be traced to the two parameters: direction not decided', at)


# ------------------------------------------------------------------ R06.15 concat returns an operand unchanged only when both are of one kind

def r06_15(ctx, run, rule='R06.15'):
    """concat_jsonb may answer with one operand copied verbatim only where the other contributes nothing *and* the result kind is the
    operand's kind: [] || [] , {} || {} .  With operands of different kinds the result is an array that wraps the non-array side
    (1 || [] = [1], [1] || {} = [1,{}]), so a path that copies a whole operand must have established that both header kinds are equal."""
    f = ctx.facts
    fn = 'functions::concat_jsonb'
    b = f.bodies.get(fn)
    MASK = cv(f, 'CONTAINER_HEADER_TYPE_MASK')
    kinds = {cv(f, 'SCALAR_CONTAINER_TAG'): 'S', cv(f, 'ARRAY_CONTAINER_TAG'): 'A', cv(f, 'OBJECT_CONTAINER_TAG'): 'O'}
    if b is None or MASK is None or None in kinds:
        run.undecided(rule, fn, 'verbatim-operand', 'concat_jsonb or the header constants not found (anchor lost)')
        return
    loc = f'{b.file}:{b.line}'
    paths, loops = region_paths(b)

    def side_of(t):
        """1 / 2 when the term is the header kind of the left / right parameter: read_u32(param, 0) & TYPE_MASK"""
        t = strip_casts(deref_all(t))
        if not (t[0] == 'bin' and t[1] == 'BitAnd' and any(const_of(x) == MASK for x in (t[2], t[3]))):
            return None
        for s in subterms(t):
            if is_call(s, 'functions::read_u32') and len(s[2]) == 2 and const_of(s[2][1]) == 0:
                r = deref_all(s[2][0])
                if r[0] == 'init' and r[1] in (1, 2):
                    return r[1]
        return None

    n = 0
    bad = []
    unsure = []
    for q in paths:
        if q.end[0] != 'return':
            continue
        r = deref_all(q.ret) if q.ret is not None else None
        if not (r is not None and agg_variant(r) and r[1][2] == 'Ok'):
            continue
        copies = [deref_all(e[2][1])[1] for e in q.calls() if called(e[1], 'Vec::extend_from_slice') and len(e[2]) == 2 and deref_all(e[2][0])[0] == 'init'
                  and deref_all(e[2][1])[0] == 'init' and deref_all(e[2][1])[1] in (1, 2)]
        if not copies or any(called(e[1], 'ArrayBuilder::build_into', 'ObjectBuilder::build_into') for e in q.calls()):
            continue
        n += 1
        poss = {1: set('SAO'), 2: set('SAO')}
        equal = False
        unread = False
        for c in q.conds:
            t = c[0]
            sd = side_of(t)
            if sd is not None:
                if c[1] == 'eq' and c[2] in kinds:
                    poss[sd] &= {kinds[c[2]]}
                elif c[1] == 'ne' and isinstance(c[2], tuple):
                    poss[sd] -= {kinds[k] for k in c[2] if k in kinds}
                continue
            if t[0] == 'bin' and t[1] in ('Eq', 'Ne') and isinstance(c[2], bool):
                a_, b_ = side_of(t[2]), side_of(t[3])
                if a_ and b_ and a_ != b_:
                    if (t[1] == 'Eq') == c[2]:
                        equal = True
                    continue
                for x, y in ((t[2], t[3]), (t[3], t[2])):
                    sd = side_of(x)
                    k = const_of(y)
                    if sd and k in kinds:
                        if (t[1] == 'Eq') == c[2]:
                            poss[sd] &= {kinds[k]}
                        else:
                            poss[sd] -= {kinds[k]}
                        break
                else:
                    if any(side_of(s_) for s_ in subterms(t)):
                        unread = True
            elif any(side_of(s_) for s_ in subterms(t)) and not (t[0] == 'bin' and t[1] == 'BitAnd'):
                unread = True
        same = equal or (len(poss[1]) == 1 and poss[1] == poss[2])
        if same:
            continue
        combos = sorted(l + r_ for l in poss[1] for r_ in poss[2] if l != r_)
        if unread:
            unsure.append(combos)
        else:
            bad.append(('left' if copies[0] == 1 else 'right', combos))
    if bad:
        run.violation(rule, fn, 'verbatim-operand', f'the {bad[0][0]} operand is returned unchanged on a path that admits operands of different kinds (left/right kinds {", ".join(bad[0][1][:6])}; '
                      'S scalar, A array, O object): concatenating different kinds always yields an array that wraps the non-array side', loc)
    elif unsure:
        run.undecided(rule, fn, 'verbatim-operand', 'an operand is returned unchanged under a kind test this rule does not read: not decided', loc)
    else:
        run.proved(rule, fn, 'verbatim-operand', f'{n} path(s) return an operand unchanged, each with both header kinds established equal' if n else
                   'no path returns an operand unchanged: every result is rebuilt by a builder', loc, nontrivial=bool(n))


# ------------------------------------------------------------------ R06.17 the scalar layout is read only from scalar documents

def r06_17(ctx, run, rule='R06.17', only=None, floor=None):
    """A document is taken apart as *scalar* — entry word at byte 4, payload from byte 8 — only where its header kind is known not to be
    ARRAY or OBJECT (it was tested equal to SCALAR, or both container kinds were excluded).  Read like that, an array yields its first
    element's entry word and the rest of its entry table as "payload".  In a helper that receives (bytes, header) the kinds left open by
    its own tests must be excluded at every call site."""
    from rules.walkers import _pair_family, _header_source
    f = ctx.facts
    MASK = cv(f, 'CONTAINER_HEADER_TYPE_MASK')
    K = {cv(f, 'SCALAR_CONTAINER_TAG'): 'S', cv(f, 'ARRAY_CONTAINER_TAG'): 'A', cv(f, 'OBJECT_CONTAINER_TAG'): 'O'}
    if MASK is None or None in K:
        run.undecided(rule, 'constants', 'scalar-layout', 'header constants not found (anchor lost)')
        return
    fam = _pair_family(f)
    paths_of = {}

    def paths(b):
        if b.path not in paths_of:
            paths_of[b.path] = region_paths(b)[0]
        return paths_of[b.path]

    def header_of(b, t):
        """the slice term (root) whose header word the masked term tests, or ('param', k) for a header parameter"""
        t = strip_casts(deref_all(t))
        if t[0] == 'init' and isinstance(t[1], int) and 1 <= t[1] <= b.argc and b.local_ty(t[1]).get('s') == 'u32':
            return ('kindparam', t[1])
        if not (t[0] == 'bin' and t[1] == 'BitAnd' and any(const_of(x) == MASK for x in (t[2], t[3]))):
            return None
        h = t[3] if const_of(t[2]) == MASK else t[2]
        src = _header_source(h)
        if src is not None and const_of(src[1]) == 0:
            return ('slice', deref_all(src[0]))
        h0 = deref_all(strip_casts(h))
        if h0[0] == 'loc' and len(h0) > 2:
            h0 = deref_all(h0[2])
        if h0[0] == 'init' and isinstance(h0[1], int) and h0[1] <= b.argc:
            return ('param', h0[1])
        if h0[0] in ('init', 'hav'):
            return ('local', h0[1])
        return None

    def kinds_on(b, conds, want, _depth=0):
        """kinds still possible for the header identified by `want` (('slice', term) / ('param', k) / ('local', l))"""
        poss = set('SAOX')
        for c in conds:
            t = c[0]
            cands = []
            if header_of(b, t) is not None:
                hh = header_of(b, t)
                if c[1] == 'eq' and not isinstance(c[2], bool):
                    cands.append((hh, {K.get(c[2], 'X')}, True))
                elif c[1] == 'ne' and isinstance(c[2], tuple):
                    cands.append((hh, {K.get(v, 'X') for v in c[2]}, False))
            elif t[0] == 'bin' and t[1] in ('Eq', 'Ne') and isinstance(c[2], bool):
                for x, y in ((t[2], t[3]), (t[3], t[2])):
                    hh = header_of(b, x)
                    kv = const_of(y)
                    if hh is not None and kv is not None:
                        cands.append((hh, {K.get(kv, 'X')}, (t[1] == 'Eq') == c[2]))
            # the two kinds compared with each other: what is known about one holds for the other
            if t[0] == 'bin' and t[1] in ('Eq', 'Ne') and isinstance(c[2], bool) and (t[1] == 'Eq') == c[2] and _depth < 1:
                h1, h2 = header_of(b, t[2]), header_of(b, t[3])
                if h1 is not None and h2 is not None:
                    for mine, other in ((h1, h2), (h2, h1)):
                        if mine == want or (mine[0] == 'slice' and want[0] == 'slice' and mine[1][:2] == want[1][:2] and mine[1][0] == 'init'):
                            poss &= kinds_on(b, conds, other, _depth + 1)
            for hh, ks, is_eq in cands:
                same = (hh == want) or (hh[0] == 'slice' and want[0] == 'slice' and hh[1][:2] == want[1][:2] and hh[1][0] == 'init')
                if not same:
                    continue
                if is_eq:
                    poss &= ks
                elif 'X' not in ks:
                    poss -= ks
        return poss

    n = 0
    for p, b in sorted(f.bodies.items()):
        if b.kind == 'Promoted' or not p.startswith('functions::') or (only is not None and not only(p)):
            continue
        if not any(called(callee_name(t_), 'functions::read_u32') for _, t_ in b.calls()):
            continue
        verdicts = {}
        dom = dominating_conds(paths(b))
        # locals computed before a loop stand, inside the loop's region, for the value they had at its entry
        entry_vals = {}
        for q0 in paths(b):
            if (q0.blocks[0] if q0.blocks else 0) == 0:
                for k_, v_ in q0.store.items():
                    if isinstance(k_, tuple) and k_[0] == 'L' and isinstance(v_, tuple):
                        entry_vals.setdefault(k_[1], set()).add(v_)

        def subst(t, depth=0):
            if not isinstance(t, tuple) or not t or depth > 6:
                return t
            if t[0] in ('init', 'hav') and len(t) > 1 and isinstance(t[1], int) and t[1] > b.argc and len(entry_vals.get(t[1], ())) == 1:
                return next(iter(entry_vals[t[1]]))
            if t[0] in ('bin', 'cast', 'ref', 'deref', 'loc', 'un'):
                return tuple(subst(x, depth + 1) if isinstance(x, tuple) and x and isinstance(x[0], str) else x for x in t)
            return t

        def settle(c):
            return (subst(c[0]),) + tuple(c[1:])
        for q in paths(b):
            evs = list(q.calls())
            for e in evs:
                if not (called(e[1], 'functions::read_u32') and len(e[2]) == 2 and const_of(e[2][1]) == 4):
                    continue
                V = deref_all(e[2][0])
                if V[0] != 'init':
                    continue
                # the payload from byte 8 of the same value on this path
                has_payload = any((called(x[1], 'Index::index', 'index::index') and len(x[2]) == 2 and deref_all(x[2][0])[:2] == V[:2]
                                   and agg_variant(deref_all(x[2][1])) and deref_all(x[2][1])[1][1].split('::')[-1] == 'RangeFrom' and const_of(deref_all(x[2][1])[2][0]) == 8) or
                                  (canon(x[1]).endswith('slice::get') and len(x[2]) == 2 and deref_all(x[2][0])[:2] == V[:2] and agg_variant(deref_all(x[2][1]))
                                   and const_of(deref_all(x[2][1])[2][0]) == 8) for x in evs)
                if not has_payload:
                    continue
                conds = list(dom.get(q.blocks[0] if q.blocks else 0, [])) + list(q.conds[:e[6]])
                if q.blocks and q.blocks[0] != 0:
                    conds = [settle(c) for c in conds]
                wants = [('slice', V)]
                own = fam.get(p)
                hp = None
                if own:
                    for (hk, sk, _o) in own:
                        if sk == V[1]:
                            hp = hk
                            wants.append(('param', hk))
                if hp is None:
                    # a parameter that carries the already masked kind (`value_type: u32`), in a function with one byte-string parameter
                    slices_ = [k_ for k_ in range(1, b.argc + 1) if '[u8]' in str(b.local_ty(k_).get('s')) and b.local_ty(k_).get('k') == 'ref']
                    kps = set()
                    for c in conds:
                        t_ = c[0]
                        cand_ = [t_] if c[1] in ('eq', 'ne') and not isinstance(c[2], bool) else ([x_ for x_ in t_[2:4]] if t_[0] == 'bin' and t_[1] in ('Eq', 'Ne') else [])
                        for x_ in cand_:
                            x0 = deref_all(strip_casts(x_))
                            if x0[0] == 'init' and isinstance(x0[1], int) and 1 <= x0[1] <= b.argc and b.local_ty(x0[1]).get('s') == 'u32':
                                kps.add(x0[1])
                    if len(slices_) == 1 and len(kps) == 1:
                        hp = next(iter(kps))
                        wants.append(('kindparam', hp))
                # a header word read before the loop / kept in a local: any local header test on the path counts for this value when the
                # function has a single document of that name; be conservative: only explicit slice / param matches, locals -> unsure
                poss = set('SAOX')
                for w in wants:
                    poss &= kinds_on(b, conds, w)
                local_tests = any(header_of(b, c[0]) is not None and header_of(b, c[0])[0] == 'local' for c in conds) or \
                    any(header_of(b, x) is not None and header_of(b, x)[0] == 'local' for c in conds if c[0][0] == 'bin' for x in c[0][2:4])
                key = (show(V)[:30], e[5].get('line'))
                left = poss & {'A', 'O'}
                if not left:
                    v = ('ok', None)
                elif local_tests:
                    v = ('unsure', None)
                elif b.vis != 'pub' and '::{closure' not in p:
                    # a private function: the kinds it leaves open must be excluded where it is called (through its header parameter, or by a
                    # test of the same bytes at the call site)
                    v = ('callers', (hp, left, V[1]))
                elif poss >= set('SAO'):
                    v = ('unsure', None)      # nothing at all is tested here: the kind is established by something this rule does not read
                else:
                    v = ('bad', left)
                prev = verdicts.get(key)
                rank = {'ok': 0, 'unsure': 1, 'callers': 2, 'bad': 3}
                if prev is None or rank[v[0]] > rank[prev[0]]:
                    verdicts[key] = v
        for (vname, line), (vd, extra) in sorted(verdicts.items(), key=str):
            n += 1
            loc = f'{b.file}:{line}'
            if vd == 'ok':
                run.proved(rule, p, f'scalar-layout[{vname}]', 'entry word at 4 / payload from 8 only where the header kind excludes ARRAY and OBJECT', loc)
            elif vd == 'unsure':
                run.undecided(rule, p, f'scalar-layout[{vname}]', 'the header kind was tested through a local this rule does not tie to these bytes: not decided', loc)
            elif vd == 'bad':
                run.violation(rule, p, f'scalar-layout[{vname}]', f'`{vname}` is read as a scalar document (entry word at byte 4, payload from byte 8) on a path where its header kind may still be '
                              f'{"/".join(sorted({"A": "ARRAY", "O": "OBJECT"}[x] for x in extra))}: a container read that way yields its first entry word and its entry table as payload', loc)
            else:
                hp, left, vparam = extra
                # every call site must exclude the kinds the helper leaves open
                open_at = []
                sites = 0
                for caller, tgts in ctx.cg.edges.items():
                    if p not in tgts or caller not in f.bodies:
                        continue
                    cb = f.bodies[caller]
                    for q in paths(cb):
                        for e in q.calls():
                            c_ = e[5]['callee']
                            tg = c_.get('resolved') if c_.get('resolved_local') else (c_.get('written') if c_.get('local') else None)
                            if tg != p or (hp or vparam) - 1 >= len(e[2]) or vparam - 1 >= len(e[2]):
                                continue
                            sites += 1
                            ws = []
                            va = deref_all(e[2][vparam - 1])
                            if va[0] == 'init':
                                ws.append(('slice', va))
                                for (hk_, sk_, _o) in (fam.get(caller) or ()):
                                    if sk_ == va[1]:
                                        ws.append(('param', hk_))
                            if hp is not None:
                                ha = e[2][hp - 1]
                                hk0 = header_of(cb, ha)
                                if hk0 is not None and hk0[0] != 'kindparam':
                                    ws.append(hk0)
                                src = _header_source(ha)
                                if src is not None and const_of(src[1]) == 0:
                                    ws.append(('slice', deref_all(src[0])))
                                else:
                                    h0 = deref_all(strip_casts(ha))
                                    if h0[0] == 'init' and isinstance(h0[1], int) and h0[1] <= cb.argc:
                                        ws.append(('param', h0[1]))
                                    elif h0[0] in ('init', 'hav'):
                                        ws.append(('local', h0[1]))
                            if not ws:
                                open_at.append((caller, None))
                                continue
                            cconds = list(dominating_conds(paths(cb)).get(q.blocks[0] if q.blocks else 0, [])) + list(q.conds[:e[6]])
                            pc = set('SAOX')
                            for w in ws:
                                pc &= kinds_on(cb, cconds, w)
                            if (pc >= set('SAO') and hp is None) or (any(w[0] == 'local' for w in ws) and (pc & left)):
                                # nothing read about the kind at this call site, and the helper is not handed the header to decide itself
                                open_at.append((caller, None))
                                continue
                            if pc & left:
                                open_at.append((caller, pc & left))
                if not sites:
                    run.undecided(rule, p, f'scalar-layout[{vname}]', 'a helper reads its argument as a scalar document; no call site was found to check which kinds reach it', loc)
                elif any(k_ is None for _, k_ in open_at):
                    run.undecided(rule, p, f'scalar-layout[{vname}]', 'a helper reads its argument as a scalar document; at some call site the header argument could not be tied to a kind test: not decided', loc)
                elif open_at:
                    cl, ks = open_at[0]
                    run.violation(rule, p, f'scalar-layout[{vname}]', f'this helper reads `{vname}` as a scalar document unless its header is '
                                  f'{"/".join(sorted({"A": "ARRAY", "O": "OBJECT"}[x] for x in (set("AO") - left)) or "…")}, and {cl.split("::")[-1]} calls it on a path where the kind may be '
                                  f'{"/".join(sorted({"A": "ARRAY", "O": "OBJECT"}[x] for x in ks))}: that container is taken apart as if it were a scalar', loc)
                else:
                    run.proved(rule, p, f'scalar-layout[{vname}]', f'helper: the kinds it leaves open are excluded at all {sites} call site path(s)', loc)
    if floor is not None:
        run.floor(rule, 'scalar-layout reads', n, floor)


# ------------------------------------------------------------------ R06.18 a recursive key-path walker hands on the rest of the path

def r06_18(ctx, run, rule='R06.18'):
    """Functions that walk a key path recursively over a slice (`&[&KeyPath]`) take one step per level: wherever such a function calls
    itself or a sibling of its recursion cycle after having split the first step off its path (`split_first`, `[1..]`), the callee
    receives the *rest*; handing on the whole path makes the nested level look for the parent's own step again."""
    f = ctx.facts
    fam = {}
    for p, b in f.bodies.items():
        if b.kind == 'Promoted' or '::{closure' in p or not p.startswith('functions::'):
            continue
        ks = [k for k in range(1, b.argc + 1) if b.local_ty(k).get('k') == 'ref' and 'KeyPath' in str(b.local_ty(k).get('s')) and str(b.local_ty(k).get('s', '')).lstrip('&').lstrip("'a ").lstrip('mut ').startswith('[')]
        if len(ks) == 1:
            fam[p] = ks[0]
    n = 0
    seen_ = set()
    for p, k in sorted(fam.items()):
        b = f.bodies[p]
        reach = ctx.cg.reachable([p])
        qs_ = region_paths(b)[0]
        has_split = any(canon(e[1]).endswith(('split_first', 'split_at')) and e[2] and deref_all(e[2][0])[:2] == ('init', k) for q in qs_ for e in q.calls())
        for q in qs_:
            splits = [1] if has_split else []
            for e in q.calls():
                if e[1] not in fam or p not in ctx.cg.reachable([e[1]]) or fam[e[1]] - 1 >= len(e[2]):
                    continue          # not a call inside the recursion cycle
                a = deref_all(e[2][fam[e[1]] - 1])
                # only the recursive step proper: made after this level consumed its own step
                if not splits:
                    continue
                t = e[5]
                loc = f"{t.get('file')}:{t.get('line')}"
                if (p, e[1], loc) in seen_:
                    continue
                seen_.add((p, e[1], loc))
                n += 1
                whole = a[:2] == ('init', k)
                derived = any(is_call(s_, 'split_first', 'split_at') or (is_call(s_, 'Index::index', 'index::index') and len(s_[2]) == 2) for s_ in subterms(a))
                callee = canon(e[1]).split('::')[-1]
                if whole:
                    run.violation(rule, p, f'path-tail[{callee}]', f'after splitting the first step off its key path this function calls {callee}() with the whole path again, not with the rest: '
                                  'the nested level looks for the same step a second time', loc)
                elif derived:
                    run.proved(rule, p, f'path-tail[{callee}]', 'the recursive call receives the rest of the path', loc)
                else:
                    run.undecided(rule, p, f'path-tail[{callee}]', f'the path handed to the recursive call ({show(a)[:50]}) is neither this function\'s whole path nor visibly its rest: not decided', loc)
    if not n:
        run.proved(rule, '<crate>', 'path-tail', 'no key-path walker recurses over a path slice (the walkers share one queue that each level pops from)', nontrivial=False)


# ------------------------------------------------------------------ R06.19 the key scan of object_insert uses the builder's key order

def r06_19(ctx, run, rule='R06.19'):
    """object_insert_jsonb walks the existing keys, which are laid out in the order ObjectBuilder / the encoder give them (BTreeMap<&str, _>:
    bytewise order of the UTF-8 bytes), and stops at the first key that is not smaller than the new key.  The scan is right only if it compares
    keys in that same order: an ordering test whose operands are not the two keys themselves (a tuple with the length first, a case-folded
    copy) makes the scan stop before an existing equal key (sibling agreement: producer order vs consumer order)."""
    fn = 'functions::object_insert_jsonb'
    b = ctx.facts.bodies.get(fn)
    if b is None:
        run.undecided(rule, fn, 'scan-order', 'function not found (anchor lost)')
        return
    paths, loops = region_paths(b)
    ORD = ('PartialOrd::gt', 'PartialOrd::lt', 'PartialOrd::ge', 'PartialOrd::le', 'Ord::cmp', 'PartialOrd::partial_cmp')
    good = bad = other = 0
    seen = set()
    for q in paths:
        for c in q.conds:
            for t in subterms(c[0]):
                if t[0] != 'call' or not any(canon(t[1]).endswith(o) for o in ORD) or len(t[2]) != 2:
                    continue
                args = [deref_all(a) for a in t[2]]
                mentions_new = [any(s_[0] == 'init' and b.name_of(s_[1]) == 'new_key' for s_ in subterms(a)) for a in args]
                if not any(mentions_new):
                    continue
                key = (t[1], show(args[0])[:80], show(args[1])[:80])
                if key in seen:
                    continue
                seen.add(key)
                direct = [a[0] == 'init' and b.name_of(a[1]) == 'new_key' for a in args]
                tuples = [a for a in args if a[0] == 'agg' and a[1] == 'tuple' and a[2]]
                # a tuple whose *first* component is not the key orders by that component first; (key, ..) tuples are not read
                lead_not_key = [a for a in tuples if not (deref_all(a[2][0])[0] == 'init' and b.name_of(deref_all(a[2][0])[1]) == 'new_key')
                                and any(s_[0] == 'init' and b.name_of(s_[1]) == 'new_key' for s_ in subterms(a))
                                and any(is_call(s_, 'len') or (s_[0] == 'call' and canon(s_[1]).endswith('::len')) or s_[0] == 'len' for s_ in subterms(a[2][0]))]
                if lead_not_key:
                    bad += 1
                elif tuples:
                    other += 1
                elif any(direct) and all(a[0] in ('init', 'hav', 'call', 'field', 'post') for a in args) and not any(
                        a[0] == 'call' and not called(a[1], 'from_utf8_unchecked', 'from_utf8', 'Index::index', 'unwrap', 'Result::unwrap') for a in args):
                    good += 1
                else:
                    other += 1
    loc = f'{b.file}:{b.line}'
    if bad:
        run.violation(rule, fn, 'scan-order', 'the key scan orders keys by a tuple (another key first, e.g. the length) while the builders and the encoder lay keys out in plain bytewise order: '
                      'the scan stops before an existing equal key that follows a longer, bytewise smaller key, so a duplicate is not seen', loc)
    elif other or not good:
        run.undecided(rule, fn, 'scan-order', 'the ordering test of the key scan is not a direct comparison of the new key with an existing key: which order it uses is not decided', loc)
    else:
        run.proved(rule, fn, 'scan-order', f'{good} ordering test(s) compare the new key with an existing key directly (str order = the order of the layout)', loc)
