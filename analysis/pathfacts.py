"""Facts implied by the branch conditions of one CFG path: interval sets per atom and difference constraints
between atoms (zone), decided by shortest-path closure.  No external solver."""
from sym import lin, show, INT_RANGES

INF = float('inf')


class IntervalSet:
    """Finite union of closed integer intervals."""

    def __init__(self, ivs=None):
        self.ivs = self._norm(ivs if ivs is not None else [(-INF, INF)])

    @staticmethod
    def _norm(ivs):
        ivs = sorted((lo, hi) for lo, hi in ivs if lo <= hi)
        out = []
        for lo, hi in ivs:
            if out and lo <= out[-1][1] + 1:
                out[-1] = (out[-1][0], max(out[-1][1], hi))
            else:
                out.append((lo, hi))
        return out

    @classmethod
    def of_type(cls, ty):
        r = INT_RANGES.get(ty)
        return cls([r]) if r else cls()

    def intersect(self, other):
        out = []
        for a in self.ivs:
            for b in other.ivs:
                lo, hi = max(a[0], b[0]), min(a[1], b[1])
                if lo <= hi:
                    out.append((lo, hi))
        return IntervalSet(out)

    def union(self, other):
        return IntervalSet(self.ivs + other.ivs)

    def complement(self):
        out = []
        prev = -INF
        for lo, hi in self.ivs:
            if lo > prev:
                out.append((prev, lo - 1))
            prev = hi + 1
        if prev <= INF:
            out.append((prev, INF))
        return IntervalSet(out)

    def empty(self):
        return not self.ivs

    def subset_of(self, other):
        return self.intersect(other.complement()).empty()

    def lo(self):
        return self.ivs[0][0] if self.ivs else INF

    def hi(self):
        return self.ivs[-1][1] if self.ivs else -INF

    def shift(self, c):
        return IntervalSet([(lo + c, hi + c) for lo, hi in self.ivs])

    def neg(self):
        return IntervalSet([(-hi, -lo) for lo, hi in self.ivs])

    def __eq__(self, other):
        return self.ivs == other.ivs

    def __repr__(self):
        def f(x):
            return '-inf' if x == -INF else 'inf' if x == INF else str(x)
        return ' ∪ '.join(f'[{f(lo)},{f(hi)}]' for lo, hi in self.ivs) or '∅'


def cmp_set(op, c):
    """{x | x op c}"""
    if op == 'Eq':
        return IntervalSet([(c, c)])
    if op == 'Ne':
        return IntervalSet([(c, c)]).complement()
    if op == 'Lt':
        return IntervalSet([(-INF, c - 1)])
    if op == 'Le':
        return IntervalSet([(-INF, c)])
    if op == 'Gt':
        return IntervalSet([(c + 1, INF)])
    if op == 'Ge':
        return IntervalSet([(c, INF)])
    return IntervalSet()


def _unref(t):
    while isinstance(t, tuple) and t and (t[0] in ('ref', 'deref') or (t[0] == 'loc' and len(t) > 2)):
        t = t[2] if t[0] == 'loc' else t[1]
    return t


def _cint(t):
    """integer value of a constant term, looking through a negation"""
    if t[0] == 'const' and isinstance(t[1], int) and not isinstance(t[1], bool):
        return t[1]
    if t[0] == 'un' and t[1] == 'Neg':
        v = _cint(t[2])
        return -v if v is not None else None
    if t[0] == 'cast' and len(t) > 2:
        return _cint(t[2])
    return None


_INT_RANGES = {'i8': (-128, 127), 'i16': (-32768, 32767), 'i32': (-2**31, 2**31 - 1), 'i64': (-2**63, 2**63 - 1), 'isize': (-2**63, 2**63 - 1),
               'u8': (0, 255), 'u16': (0, 65535), 'u32': (0, 2**32 - 1), 'u64': (0, 2**64 - 1), 'usize': (0, 2**64 - 1), 'i128': (-2**127, 2**127 - 1), 'u128': (0, 2**128 - 1)}


def _tryfrom_range(name):
    import re
    m = re.search(r'TryFrom<\w+> for (\w+)>::try_from$', name)
    return _INT_RANGES.get(m.group(1)) if m else None


def _range_contains(t):
    """RangeInclusive::contains(&(lo..=hi), &x) / Range::contains(&(lo..hi), &x) -> (lo term, hi term, inclusive?, x)"""
    name = t[1]
    if not name.endswith('::contains') or 'Range' not in name or len(t[2]) != 2:
        return None
    r = _unref(t[2][0])
    x = _unref(t[2][1])
    if r[0] == 'call' and r[1].endswith('RangeInclusive::<Idx>::new') or (r[0] == 'call' and 'RangeInclusive' in r[1] and r[1].endswith('::new')):
        a, b = r[2]
        return a, b, True, x
    if r[0] == 'agg' and isinstance(r[1], tuple) and r[1][0] == 'adt' and r[1][1].endswith('ops::Range') and len(r[2]) == 2:
        a, b = r[2]
        return a, b, False, x
    return None


NEG = {'Eq': 'Ne', 'Ne': 'Eq', 'Lt': 'Ge', 'Ge': 'Lt', 'Gt': 'Le', 'Le': 'Gt'}
FLIP = {'Eq': 'Eq', 'Ne': 'Ne', 'Lt': 'Gt', 'Gt': 'Lt', 'Le': 'Ge', 'Ge': 'Le'}


class PathFacts:
    def __init__(self, conds, nonneg=None, typed=None):
        """conds: [(term, 'eq'|'ne', value, bb)];  nonneg(atom)->bool tells which atoms are unsigned quantities;
        typed(atom)->IntervalSet|None gives the range an atom has by its type."""
        self.iv = {}      # atom -> IntervalSet
        self.diff = {}    # (a, b) -> c   meaning a - b <= c   (a, b atoms or ZERO)
        self.nonneg = nonneg or (lambda a: False)
        self.typed = typed or (lambda a: None)
        self.raw = []
        self.lin_iv = {}
        for c in conds:
            self.add(c)
        self._closed = False

    ZERO = ('zero',)

    def add(self, c):
        t, op, val = c[0], c[1], c[2]
        if t[0] == 'bin' and t[1] in NEG and op == 'eq' and isinstance(val, bool):
            o = t[1] if val else NEG[t[1]]
            self.add_cmp(o, t[2], t[3])
        elif t[0] == 'un' and t[1] == 'Not' and op == 'eq' and isinstance(val, bool):
            self.add((t[2], 'eq', not val, c[3] if len(c) > 3 else None))
        elif t[0] == 'call' and op == 'eq' and val is True and _range_contains(t) is not None:
            lo, hi, inc, x = _range_contains(t)
            k = lambda y: ('const', _cint(y), 'i128') if _cint(y) is not None else y
            self.add_cmp('Ge', x, k(lo))
            self.add_cmp('Le' if inc else 'Lt', x, k(hi))
        elif t[0] == 'discr' and isinstance(t[1], tuple) and t[1] and t[1][0] == 'call' and 'TryFrom<' in t[1][1] and t[1][1].endswith('::try_from') and len(t[1][2]) == 1 \
                and _tryfrom_range(t[1][1]) is not None and (op == 'eq' and val in (0, 1) or op == 'ne' and isinstance(val, tuple) and len(val) == 1 and val[0] in (0, 1)):
            # `N::try_from(x)` is Ok exactly when x lies in the range of N
            lo, hi = _tryfrom_range(t[1][1])
            ok_ = (val == 0) if op == 'eq' else (val[0] == 1)
            x = _unref(t[1][2][0])
            if ok_:
                self.add_cmp('Ge', x, ('const', lo, 'i128'))
                self.add_cmp('Le', x, ('const', hi, 'i128'))
            else:
                la = lin(x)
                if la is not None and len(la[0]) == 1 and list(la[0].values()) == [1] and la[1] == 0:
                    a_ = list(la[0])[0]
                    outside = IntervalSet([(-INF, lo - 1), (hi + 1, INF)])
                    self.iv[a_] = self.iv.get(a_, IntervalSet()).intersect(outside)
                    self._closed = False
        elif op == 'eq' and isinstance(val, int) and not isinstance(val, bool):
            self.add_cmp('Eq', t, ('const', val, 'i128'))
        elif op == 'ne' and isinstance(val, tuple):
            for v in val:
                if isinstance(v, int) and not isinstance(v, bool):
                    self.add_cmp('Ne', t, ('const', v, 'i128'))
        self.raw.append(c)

    def add_cmp(self, op, a, b):
        la, lb = lin(a), lin(b)
        if la is None or lb is None:
            return
        d = {}
        for x, k in la[0].items():
            d[x] = d.get(x, 0) + k
        for x, k in lb[0].items():
            d[x] = d.get(x, 0) - k
        d = {x: k for x, k in d.items() if k != 0}
        c = lb[1] - la[1]     # Σ d·x  op  c
        if len(d) == 1:
            (x, k), = d.items()
            if k == 1:
                s = cmp_set(op, c)
            elif k == -1:
                s = cmp_set(FLIP[op], -c)
            else:
                return
            self.iv[x] = self.iv.get(x, IntervalSet()).intersect(s)
            self._closed = False
            # |y| op c, written y.unsigned_abs() / y.abs(): a fact about y itself
            xs = x
            while xs[0] == 'cast' and len(xs) > 2:
                xs = xs[2]
            if xs[0] == 'call' and xs[2] and xs[1].split('::')[-1] in ('unsigned_abs', 'abs'):
                y = _unref(xs[2][0])
                m = self.iv[x].intersect(IntervalSet([(0, INF)]))
                if not m.empty():
                    parts = []
                    for (lo_, hi_) in m.ivs:
                        parts.append((-hi_, -lo_))
                        parts.append((lo_, hi_))
                    self.iv[y] = self.iv.get(y, IntervalSet()).intersect(IntervalSet(parts))
        elif len(d) == 2:
            items = sorted(d.items(), key=lambda kv: -kv[1])
            (x, kx), (y, ky) = items
            if kx == 1 and ky == -1:
                # x - y op c
                if op in ('Le', 'Lt', 'Eq'):
                    self._dc(x, y, c - (1 if op == 'Lt' else 0))
                if op in ('Ge', 'Gt', 'Eq'):
                    self._dc(y, x, -c - (1 if op == 'Gt' else 0))
            else:
                self._lin_fact(d, op, c)
        elif len(d) == 0:
            pass
        else:
            self._lin_fact(d, op, c)

    def _lin_fact(self, d, op, c):
        """A comparison of a general linear form with a constant: remember the range of the form itself."""
        key = tuple(sorted(d.items(), key=lambda kv: repr(kv[0])))
        neg = tuple((a, -k) for a, k in key)
        s = cmp_set(op, c)
        self.lin_iv[key] = self.lin_iv.get(key, IntervalSet()).intersect(s)
        self.lin_iv[neg] = self.lin_iv.get(neg, IntervalSet()).intersect(s.neg())

    def _dc(self, a, b, c):
        k = (a, b)
        if k not in self.diff or self.diff[k] > c:
            self.diff[k] = c
            self._closed = False

    def close(self):
        if self._closed:
            return
        nodes = set()
        for (a, b) in self.diff:
            nodes.add(a)
            nodes.add(b)
        for a, s in self.iv.items():
            nodes.add(a)
        Z = self.ZERO
        nodes.add(Z)
        dist = dict(self.diff)
        for a in list(nodes):
            if a is Z:
                continue
            s = self.iv.get(a)
            tr = self.typed(a)
            if tr is not None:
                s = tr if s is None else s.intersect(tr)
            if self.nonneg(a):
                s = IntervalSet([(0, INF)]) if s is None else s.intersect(IntervalSet([(0, INF)]))
            if s is not None:
                self.iv[a] = s
            lo = s.lo() if s is not None else -INF
            hi = s.hi() if s is not None else INF
            if hi != INF:
                k = (a, Z)
                dist[k] = min(dist.get(k, INF), hi)
            if lo != -INF:
                k = (Z, a)
                dist[k] = min(dist.get(k, INF), -lo)
        nodes = list(nodes)
        if len(nodes) <= 40:
            for k in nodes:
                for i in nodes:
                    dik = dist.get((i, k))
                    if dik is None:
                        continue
                    for j in nodes:
                        dkj = dist.get((k, j))
                        if dkj is None:
                            continue
                        v = dik + dkj
                        if v < dist.get((i, j), INF):
                            dist[(i, j)] = v
        self.dist = dist
        self._closed = True

    def upper_diff(self, a, b):
        """Least proven c with a - b <= c (atoms), or INF."""
        self.close()
        if a == b:
            return 0
        return self.dist.get((a, b), INF)

    def prove_le(self, ta, tb, strict=False):
        """Prove ta <= tb (or <) for terms, by linear forms over at most two atoms."""
        # min(a, b) <= y follows from a <= y or b <= y;  x <= max(a, b) from x <= a or x <= b;  clamp(v, lo, hi) is within [lo, hi]
        def _mm(t):
            t0 = t
            while isinstance(t0, tuple) and t0 and t0[0] in ('ref', 'deref'):
                t0 = t0[1]
            while isinstance(t0, tuple) and t0 and t0[0] == 'cast' and t0[1] == 'IntToInt':
                t0 = t0[2]
            if isinstance(t0, tuple) and t0 and t0[0] == 'call' and isinstance(t0[1], str):
                last = t0[1].rsplit('::', 1)[-1]
                if last in ('min', 'max') and len(t0[2]) == 2 and ('Ord' in t0[1] or 'cmp::' in t0[1] or 'num::' in t0[1]):
                    return last, t0[2]
                if last == 'clamp' and len(t0[2]) == 3:
                    return 'clamp', t0[2]
            return None, None
        if getattr(self, '_mm_depth', 0) < 3:
            self._mm_depth = getattr(self, '_mm_depth', 0) + 1
            try:
                ka, aa = _mm(ta)
                if ka == 'min' and any(self.prove_le(a_, tb, strict) for a_ in aa):
                    return True
                if ka == 'max' and all(self.prove_le(a_, tb, strict) for a_ in aa):
                    return True
                if ka == 'clamp' and self.prove_le(aa[2], tb, strict):
                    return True
                kb, ab = _mm(tb)
                if kb == 'max' and any(self.prove_le(ta, b_, strict) for b_ in ab):
                    return True
                if kb == 'min' and all(self.prove_le(ta, b_, strict) for b_ in ab):
                    return True
                if kb == 'clamp' and self.prove_le(ta, ab[1], strict):
                    return True
            finally:
                self._mm_depth -= 1
        la, lb = lin(ta), lin(tb)
        d = {}
        for x, k in la[0].items():
            d[x] = d.get(x, 0) + k
        for x, k in lb[0].items():
            d[x] = d.get(x, 0) - k
        d = {x: k for x, k in d.items() if k != 0}
        c = lb[1] - la[1] - (1 if strict else 0)   # need Σ d·x <= c
        Z = self.ZERO
        for x in d:
            self.range_of(x)    # registers the atom's typed range
        if not d:
            return 0 <= c
        if len(d) == 1:
            (x, k), = d.items()
            if k == 1:
                return self.upper_diff(x, Z) <= c
            if k == -1:
                return self.upper_diff(Z, x) <= c
            # k*x <= c  with bounds of x
            s = self.range_of(x)
            vals = [k * s.lo(), k * s.hi()]
            return max(vals) <= c
        if len(d) == 2:
            items = sorted(d.items(), key=lambda kv: -kv[1])
            (x, kx), (y, ky) = items
            if kx == 1 and ky == -1:
                return self.upper_diff(x, y) <= c
            # general two-atom: use ranges
        # fall back to interval evaluation
        hi = 0
        for x, k in d.items():
            s = self.range_of(x)
            v = max(k * s.lo(), k * s.hi())
            if v == INF or v != v:
                return False
            hi += v
        return hi <= c

    def range_of(self, atom):
        if atom not in self.iv:
            tr = self.typed(atom)
            if tr is not None or self.nonneg(atom):
                s = tr if tr is not None else IntervalSet()
                if self.nonneg(atom):
                    s = s.intersect(IntervalSet([(0, INF)]))
                self.iv[atom] = s
                self._closed = False
        self.close()
        Z = self.ZERO
        hi = self.dist.get((atom, Z), INF)
        lo = -self.dist.get((Z, atom), INF)
        s = self.iv.get(atom, IntervalSet()).intersect(IntervalSet([(lo, hi)]))
        return s

    def range_of_term(self, t):
        l = lin(t)
        if not l[0]:
            return IntervalSet([(l[1], l[1])])
        if len(l[0]) >= 2:
            key = tuple(sorted(l[0].items(), key=lambda kv: repr(kv[0])))
            if key in self.lin_iv:
                base = self.lin_iv[key].shift(l[1])
                rest = self._range_by_parts(l)
                return base.intersect(rest) if not rest.empty() else base
        if len(l[0]) == 1:
            (x, k), = l[0].items()
            s = self.range_of(x)
            if k == 1:
                return s.shift(l[1])
            if k == -1:
                return s.neg().shift(l[1])
            lo, hi = s.lo(), s.hi()
            vals = [k * lo, k * hi]
            return IntervalSet([(min(vals) + l[1], max(vals) + l[1])])
        return self._range_by_parts(l)

    def _range_by_parts(self, l):
        lo = hi = l[1]
        for x, k in l[0].items():
            s = self.range_of(x)
            a, b = k * s.lo(), k * s.hi()
            lo += min(a, b)
            hi += max(a, b)
        if lo != lo or hi != hi:
            return IntervalSet()
        return IntervalSet([(lo, hi)])

    def infeasible(self):
        self.close()
        for a, s in self.iv.items():
            if s.empty():
                return True
        for (a, b), c in self.dist.items():
            if a == b and c < 0:
                return True
        return False
