"""C09 — JSONPath syntax: documented forms parse as intended, printing is faithful, nothing panics (structural clauses)."""
import report
from rules import textparser
from rules import parsers, safety, recursion

ROOTS = ['jsonpath::parser::parse_json_path']
EXPLANATION = (
    "Static analysis of jsonpath/parser.rs, jsonpath/path.rs and util.rs. R09.1: the token tables of the grammar (nom value(CONST, tag/char) rows, "
    "keyword parsers) and of the Display impls (literal pieces of the format templates) agree for every operator, keyword and punctuation, so "
    "printed tokens map back to the same AST constants. R09.2: the ||-level delegates to the &&-level, which delegates to atoms. R09.3: every Ok of "
    "parse_json_path requires the unparsed rest to be empty. R09.4: only nom `complete` combinators are used, so Err::Incomplete (the unreachable! "
    "arm) cannot arise. R09.5: panic inventory of the grammar cone: every index/slice of the hand-written scanners is discharged on every path by "
    "inductive cursor invariants (cursor <= len, proven per loop) and a callee lemma for check_escaped (returns true => cursor <= len, proven from "
    "its own bounds checks). R09.6: the scanners skip 2/6/8 bytes per escape, exactly what the decoding pass consumes, and parse_string is called "
    "only by the scanners. R09.7: every literal kind has an alternative and the empty string is accepted. R09.8: in every alt((..)) no alternative "
    "succeeds on a proper prefix of a later one (token prefixes; integer parsers before double must be guarded). R09.11: Display for Expr prints an operand without parentheses only on paths where it is known not to be a nested && / || expression. R09.9/R09.10: recursion of the "
    "grammar on nesting and left-deep && / || accumulation are known findings. NOT decided: completeness over the whole grammar, spacing/case variants.")


def check(ctx, run):
    run.rules_run = ['R09.1', 'R09.2', 'R09.3', 'R09.4', 'R09.5', 'R09.6', 'R09.7', 'R09.8', 'R09.9', 'R09.10', 'R09.11', 'R09.12', 'R09.13', 'R09.14']
    parsers.r09_1(ctx, run)
    parsers.r09_2(ctx, run)
    parsers.r09_11(ctx, run)
    parsers.whole_input(ctx, run, 'R09.3', 'jsonpath::parser::parse_json_path', 'InvalidJsonPath')
    parsers.r09_4(ctx, run, 'R09.4', ROOTS)
    safety.panic_inventory(ctx, run, 'R09.5', ROOTS, floor=25, only=lambda p: p.startswith('jsonpath::parser::') or p.startswith('util::'))
    parsers.r_widths(ctx, run, 'R09.6')
    parsers.r09_7(ctx, run)
    parsers.r09_8(ctx, run, 'R09.8', ('jsonpath::parser::',), 15)
    recursion.rrec(ctx, run, 'R09.9', ROOTS, {'path-text'}, 'recursion of the JSONPath grammar on nesting depth', floor=1)
    recursion.left_deep(ctx, run, 'R09.10', ('jsonpath::parser::expr_and', 'jsonpath::parser::expr_or'), floor=2)
    textparser.r02_12(ctx, run, rule='R09.6/R02.12')
    safety.forbidden_calls(ctx, run, 'R09.12', ROOTS, ('String::from_utf8_lossy', 'from_utf8_lossy', 'String::from_utf16_lossy', 'char::from_u32_unchecked'),
                           'the parser', 'ill-formed input is silently repaired (U+FFFD substituted) instead of being rejected with an error',
                           only=lambda p_: p_.startswith(('util::', 'parser::', 'jsonpath::parser::', 'keypath::')))
    textparser.r02_3(ctx, run, rule='R09.6/R02.3')
    textparser.r02_10(ctx, run, rule='R09.6/R02.10')
    parsers.r_flag_forward(ctx, run, 'R09.14', ('jsonpath::parser::',), 9)
    import boundaries
    _bf = lambda p_: p_.startswith(('jsonpath::parser::', 'util::'))
    boundaries.check(ctx, run, 'R09.13', [p_ for p_ in sorted(boundaries.load_baseline() or {}) if _bf(p_)], 'the JSONPath scanner rejects input')
    return report.finish(run, level='other', explanation=EXPLANATION, assumptions=["nom 7 contracts: separated_list1 yields >= 1 element; complete parsers never return Incomplete", "A3"])
