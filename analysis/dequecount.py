"""P-count: element-count accounting for queues/vectors that are popped with `.unwrap()`.

For a local deque D of a function, the operations on D are ordered into phases (straight-line operations and
`for _ in a..b` loops).  A lower bound of |D| is carried as a linear form over single-assignment source terms
(`length`, `2*length`, a `len()` snapshot).  A `pop_front().unwrap()` executed once per iteration of a loop with
trip count n is safe if the bound at loop entry is >= n (coefficient-wise, all atoms being unsigned).
Callee summaries: a local function that creates a queue, pushes exactly once per iteration of `0..n` and returns
it has size n (its parameter); a callee that only pushes to a `&mut` queue parameter cannot shrink it."""
from mir import Expr, natural_loops, dominators, dominates, defs, single_def, callee_name, walk, render
from pat import canon, called

PUSH = ('VecDeque::push_back', 'Vec::push', 'VecDeque::push_front')
POP = ('VecDeque::pop_front', 'Vec::pop', 'VecDeque::pop_back')
KILL = ('VecDeque::clear', 'Vec::clear', 'Vec::truncate', 'VecDeque::truncate', 'Vec::drain', 'VecDeque::drain', 'Vec::remove',
        'VecDeque::remove', 'Vec::split_off', 'Vec::retain', 'VecDeque::retain', 'Vec::swap_remove')
LEN = ('VecDeque::len', 'Vec::len')


def lin_of(t):
    """Linear form ({atom: coef}, const) of a mir.Expr term (atoms = non-arithmetic subterms)."""
    k = t[0]
    if k == 'const' and isinstance(t[1], int) and not isinstance(t[1], bool):
        return ({}, t[1])
    if k == 'cast' and t[1] == 'IntToInt':
        return lin_of(t[2])
    if k == 'bin' and t[1] in ('Add', 'Sub'):
        a, b = lin_of(t[3]), lin_of(t[4])
        s = 1 if t[1] == 'Add' else -1
        d = dict(a[0])
        for x, c in b[0].items():
            d[x] = d.get(x, 0) + s * c
        return ({x: c for x, c in d.items() if c}, a[1] + s * b[1])
    if k == 'bin' and t[1] == 'Mul':
        a, b = lin_of(t[3]), lin_of(t[4])
        if not a[0]:
            return ({x: c * a[1] for x, c in b[0].items()}, b[1] * a[1])
        if not b[0]:
            return ({x: c * b[1] for x, c in a[0].items()}, a[1] * b[1])
    return ({t: 1}, 0)


def l_add(a, b, s=1):
    d = dict(a[0])
    for x, c in b[0].items():
        d[x] = d.get(x, 0) + s * c
    return ({x: c for x, c in d.items() if c}, a[1] + s * b[1])


def l_scale(a, k):
    return ({x: c * k for x, c in a[0].items() if c * k}, a[1] * k)


def l_nonneg(a):
    """a >= 0 for all unsigned values of its atoms"""
    return all(c >= 0 for c in a[0].values()) and a[1] >= 0


def l_show(a):
    parts = [(f'{c}*' if c != 1 else '') + render(x) for x, c in a[0].items()]
    if a[1] or not parts:
        parts.append(str(a[1]))
    return ' + '.join(parts)


class DequeCount:
    def __init__(self, facts):
        self.facts = facts
        self.size_summary = {}    # fn -> param index whose value is the size of the returned queue, or None
        self.push_only = {}       # (fn, param index) -> bool
        self.results = {}         # fn -> {bb of pop call: (ok, why)}

    # ---------- callee summaries
    def returns_sized(self, fn):
        if fn in self.size_summary:
            return self.size_summary[fn]
        self.size_summary[fn] = None
        b = self.facts.bodies.get(fn)
        if b is None:
            return None
        res = self.analyse(b, want_return=True)
        self.size_summary[fn] = res
        return res

    def only_pushes(self, fn, pidx, depth=0):
        key = (fn, pidx)
        if key in self.push_only:
            return self.push_only[key]
        self.push_only[key] = True   # optimistic for recursion
        b = self.facts.bodies.get(fn)
        if b is None or depth > 6:
            self.push_only[key] = False
            return False
        ex = Expr(b)
        ok = True
        for bb, t in b.calls():
            for i, a in enumerate(t['args']):
                at = ex.operand(a)
                if refers_to_local(at, pidx):
                    n = callee_name(t)
                    if i == 0 and called(n, *PUSH):
                        continue
                    if i == 0 and called(n, *LEN, 'VecDeque::is_empty', 'Vec::is_empty', 'Vec::reserve', 'VecDeque::reserve', 'Vec::append'):
                        continue
                    tgt = t['callee'].get('resolved') if t['callee'].get('resolved_local') else None
                    if tgt and self.only_pushes(tgt, i + 1, depth + 1):
                        continue
                    ok = False
        self.push_only[key] = ok
        return ok

    # ---------- per function analysis
    def analyse(self, body, want_return=False):
        """Fill self.results[body.path]; with want_return, return the parameter index equal to the size of the
        queue the function returns inside Ok/Some (or bare), else None."""
        ex = Expr(body, expand_named='pure')
        loops = natural_loops(body)
        dom = dominators(body)
        # queue locals
        qlocals = [l['id'] for l in body.locals if l['ty'].get('path') in ('std::collections::VecDeque', 'std::vec::Vec') and l['id'] != 0]
        res = {}
        ret_size = None
        for D in qlocals:
            ops = self.ops_on(body, Expr(body), D)
            if not any(o['kind'] == 'pop' for o in ops) and not want_return:
                continue
            r, final = self.track(body, ex, loops, D, ops)
            res.update(r)
            if want_return and final is not None and final[1]:
                # is D what the function returns?
                if self.returned_local(body, ex) == D:
                    lf = final[0]
                    if len(lf[0]) == 1 and lf[1] == 0:
                        (atom, c), = lf[0].items()
                        if c == 1 and atom[0] == 'arg':
                            ret_size = atom[1]
        self.results[body.path] = res
        return ret_size if want_return else None

    def returned_local(self, body, ex):
        """The queue local moved into the return value (Ok(D) / Some(D) / D)."""
        for bb, i, s in body.all_stmts():
            if s['k'] == 'assign' and s['place']['local'] == 0 and not s['place'].get('proj'):
                t = ex.rvalue(s['rv'])
                for sub in walk(t):
                    if sub[0] in ('var', 'arg') and body.local_ty(sub[1]).get('path') in ('std::collections::VecDeque', 'std::vec::Vec'):
                        return sub[1]
        return None

    def ops_on(self, body, ex, D):
        ops = []
        for bb, t in body.calls():
            n = callee_name(t)
            for i, a in enumerate(t['args']):
                at = ex.operand(a)
                if not refers_to_local(at, D):
                    continue
                kind = None
                if i == 0 and called(n, *PUSH):
                    kind = 'push'
                elif i == 0 and called(n, *POP):
                    kind = 'pop'
                elif i == 0 and called(n, *LEN):
                    kind = 'len'
                elif i == 0 and called(n, *KILL):
                    kind = 'kill'
                elif i == 0 and called(n, 'VecDeque::is_empty', 'Vec::is_empty', 'VecDeque::reserve', 'Vec::reserve', 'Vec::capacity',
                                       'VecDeque::iter', 'Vec::iter', 'Deref::deref', 'Vec::as_slice', 'Index::index', 'VecDeque::front', 'Vec::last', 'Vec::first', 'Vec::get', 'VecDeque::get'):
                    kind = 'read'
                else:
                    tgt = t['callee'].get('resolved') if t['callee'].get('resolved_local') else None
                    mut = a['k'] in ('copy', 'move') and body.local_ty(a['place']['local']).get('mut')
                    if tgt and not mut:
                        kind = 'read'
                    elif tgt and self.only_pushes(tgt, i + 1):
                        kind = 'maypush'
                    elif called(n, 'IntoIterator::into_iter', 'Vec::append') and a['k'] == 'move':
                        kind = 'consume'
                    else:
                        kind = 'read' if not mut and a['k'] != 'move' else 'kill'
                ops.append({'bb': bb, 'kind': kind, 'term': t, 'dest': t['dest']['local']})
        return ops

    def creation(self, body, ex, D):
        """(linear size, exact?) at the definition of D."""
        ds = defs(body).get(D, [])
        if len(ds) != 1:
            return None, None
        d = ds[0]
        if d[0] == 'arg':
            return ({}, 0), False, 0
        if d[0] == 'call':
            n = callee_name(d[2])
            if called(n, 'VecDeque::new', 'VecDeque::with_capacity', 'Vec::new', 'Vec::with_capacity'):
                return ({}, 0), True, d[1]
            return ({}, 0), False, d[1]
        if d[0] == 'stmt':
            t = ex.rvalue(d[3])
            # follow `let x = y;` aliases of single-definition locals (the `val` binding of `?`)
            for _ in range(4):
                if t[0] == 'var':
                    sd = single_def(body, t[1])
                    if sd is not None and sd[0] == 'stmt' and sd[3]['k'] == 'use':
                        t = Expr(body).rvalue(sd[3]) if sd[3]['op']['k'] == 'const' else ex.place(sd[3]['op']['place'])
                        continue
                    if sd is not None and sd[0] == 'call':
                        t = ('call', callee_name(sd[2]), tuple(ex.operand(a) for a in sd[2]['args']), sd[1])
                break
            # (Try::branch(callee(args)) as Continue).0  /  callee(args)
            inner = t
            while inner[0] in ('field', 'downcast'):
                inner = inner[1]
            if inner[0] == 'call' and canon(inner[1]).endswith('Try::branch') and inner[2]:
                inner = inner[2][0]
            if inner[0] == 'call' and inner[1] in self.facts.bodies:
                pidx = self.returns_sized(inner[1])
                if pidx is not None and pidx - 1 < len(inner[2]):
                    return lin_of(inner[2][pidx - 1]), True, d[1]
                # produced by a crate function whose result size this analysis could not summarise
                self.__dict__.setdefault('_unsummarised', {})[(body.path, D)] = canon(inner[1]).split('::')[-1] + \
                    ('()[iterator-driven]' if inner[1] in self.__dict__.get('_unknown_trip', set()) else '')
            return ({}, 0), False, d[1]
        return ({}, 0), False, 0

    def trip_count(self, body, ex, loops, head):
        """n of a `for _ in a..b` loop: (linear form of b - a, variants) or None.  The loop head calls Iterator::next on a
        local that was assigned IntoIterator::into_iter(Range{a, b})."""
        t = body.blocks[head]['term']
        # the head block (or its first successor) holds the next() call
        blk = head
        for _ in range(3):
            t = body.blocks[blk]['term']
            if t['k'] == 'call' and canon(callee_name(t)).endswith('Iterator::next'):
                break
            if t['k'] in ('goto',):
                blk = t['target']
                continue
            return None
        else:
            return None
        it = Expr(body).operand(t['args'][0])
        # &mut iter  -> var iter ; find its (single, outside-loop) definition
        it = strip_refs(it)
        if it[0] not in ('var', 'arg'):
            return None
        L = it[1]
        ds = [d for d in defs(body).get(L, []) if d[0] != 'arg']
        outside = [d for d in ds if d[1] not in loops[head]]
        if len(outside) != 1:
            return None
        d = outside[0]
        if d[0] == 'stmt':
            src = ex.rvalue(d[3])
        else:
            src = ('call', callee_name(d[2]), tuple(ex.operand(a) for a in d[2]['args']), d[1])
        # into_iter(Range{a,b}) possibly through a temp
        for _ in range(4):
            if src[0] == 'call' and canon(src[1]).endswith('IntoIterator::into_iter') and src[2]:
                src = src[2][0]
            else:
                break
        if src[0] == 'agg' and isinstance(src[1], tuple) and src[1][0] == 'adt' and src[1][1].endswith('ops::Range') and len(src[2]) == 2:
            a, b = src[2]
            return ('range', a, b)
        if src[0] == 'call' and canon(src[1]).endswith(('slice::iter', 'Vec::iter', 'VecDeque::iter', 'BTreeMap::iter')):
            return ('iter', src)
        return None

    def min_variants(self, body, ex, t):
        """If t is a local assigned A in one arm and B in the other arm of a branch on `A <= B` (i.e. min(A, B)),
        return [A, B]; else [t]."""
        if t[0] == 'var':
            ds = [d for d in defs(body).get(t[1], []) if d[0] == 'stmt' and d[4]]
            if len(ds) == 2:
                vals = [ex.rvalue(d[3]) for d in ds]
                blocks = [d[1] for d in ds]
                # common predecessor switch on Le(A, B)
                pred = body.pred()
                for sw in body.blocks:
                    tt = sw['term']
                    if tt['k'] != 'switch':
                        continue
                    tg = set(x for _, x in tt['targets']) | {tt['otherwise']}
                    if set(blocks) <= tg:
                        c = ex.operand(tt['discr'])
                        if c[0] == 'bin' and c[1] in ('Le', 'Lt', 'Ge', 'Gt'):
                            if {c[3], c[4]} == set(vals):
                                # which arm gets which value?  true arm (otherwise for bool switch on 0) ...
                                true_bb = tt['otherwise'] if tt['targets'] and tt['targets'][0][0] == 0 else None
                                false_bb = tt['targets'][0][1] if tt['targets'] and tt['targets'][0][0] == 0 else None
                                if true_bb is None:
                                    continue
                                tv = vals[blocks.index(true_bb)] if true_bb in blocks else None
                                if tv is None:
                                    continue
                                small = c[3] if c[1] in ('Le', 'Lt') else c[4]
                                if tv == small:
                                    return vals   # min(A, B): bounded by both
        return None

    def track(self, body, ex, loops, D, ops):
        """Walk the operations on D in dominance order; returns ({pop bb: (ok, why)}, (final size lin, exact))."""
        res = {}
        cr = self.creation(body, ex, D)
        if cr[0] is None:
            for o in ops:
                if o['kind'] == 'pop':
                    res[o['bb']] = (False, 'the queue has more than one definition')
            return res, None
        size, exact, cbb = cr
        # the loops that contain the definition of D are transparent (D is a per-iteration temporary of them)
        def_loops = set(h for h, blks in loops.items() if cbb in blks)
        for o in ops:
            chain = sorted([h for h, blks in loops.items() if o['bb'] in blks and h not in def_loops], key=lambda h: -len(loops[h]))
            o['chain'] = chain     # outermost first
        final = self.track_level(body, ex, loops, D, ops, 0, size, exact, res)
        who = self.__dict__.get('_unsummarised', {}).get((body.path, D))
        if who:
            for bb_, (ok_, why_) in list(res.items()):
                if not ok_:
                    res[bb_] = (ok_, (why_ or 'the queue is not known to be non-empty here') + (f' (the queue is produced by {who}(), whose result size could not be summarised)' if not who.endswith('[iterator-driven]') else
                                                                                                    f' (the queue is produced by {who[:-19]}, which pushes once per item of an iterator whose length the element counter does not read)'))
        return res, final

    def track_level(self, body, ex, loops, D, ops, depth, size, exact, res):
        """Process the operations nested `depth` loops deep (all inside the same loop chain prefix)."""
        phases = []
        byloop = {}
        for o in ops:
            if len(o['chain']) == depth:
                phases.append(('op', o['bb'], o))
            else:
                h = o['chain'][depth]
                if h not in byloop:
                    byloop[h] = []
                    phases.append(('loop', h, byloop[h]))
                byloop[h].append(o)

        def before(a, b):
            return dominates(body, a[1], b[1]) and a[1] != b[1]
        ordered = []
        rest = list(phases)
        while rest:
            pick = None
            for x in rest:
                if not any(before(y, x) for y in rest if y is not x):
                    pick = x
                    break
            if pick is None:
                pick = rest[0]
            ordered.append(pick)
            rest.remove(pick)
        # phases in different branch arms are alternatives: each phase starts from the state after its nearest
        # dominating phase, weakened by whatever may run in between on some path
        from mir import reachable_from
        encl = set()
        for o in ops:
            encl.update(o['chain'][:depth])
        entry_state = (size, exact)
        after = {}
        final_states = []
        for idx, ph in enumerate(ordered):
            doms = [y for y in ordered[:idx] if before(y, ph)]
            y = None
            for c in doms:
                if all(c is d or before(d, c) for d in doms):
                    y = c
            st = after[id(y)] if y is not None else entry_state
            size, exact = st
            # possible interference from phases that may execute between y and ph without dominating ph
            for z in ordered:
                if z is ph or z is y or before(z, ph) and z in doms:
                    continue
                if before(ph, z):
                    continue
                zr = reachable_from(body, z[1], stop=encl)
                if ph[1] in zr and (y is None or z[1] in reachable_from(body, y[1], stop=encl)):
                    zk = [z[2]['kind']] if z[0] == 'op' else [o['kind'] for o in z[2]]
                    if any(k in ('pop', 'kill', 'consume') for k in zk):
                        size, exact = ({}, 0), False
                    elif any(k in ('push', 'maypush') for k in zk):
                        exact = False
            size, exact = self.apply_phase(body, ex, loops, D, ph, depth, size, exact, res)
            after[id(ph)] = (size, exact)
        leaves = [ph for ph in ordered if not any(before(ph, z) for z in ordered if z is not ph)]
        if len(leaves) == 1:
            return after[id(leaves[0])]
        if not ordered:
            return entry_state
        return (({}, 0), False)

    def apply_phase(self, body, ex, loops, D, ph, depth, size, exact, res):
        if True:
            if ph[0] == 'op':
                o = ph[2]
                k = o['kind']
                if k == 'push':
                    size = l_add(size, ({}, 1))
                elif k == 'maypush':
                    exact = False
                elif k == 'pop':
                    ok = l_nonneg(l_add(size, ({}, -1)))
                    res[o['bb']] = (ok, None if ok else f'queue size at this pop is only known to be >= {l_show(size)}')
                    if ok:
                        size = l_add(size, ({}, -1))
                    else:
                        exact = False
                        size = ({}, 0)
                elif k == 'len':
                    dest = o['dest']
                    # a length snapshot names the size when it is not already known exactly (reading the length of a queue of known size changes nothing)
                    if single_def(body, dest) is not None and not exact:
                        size = ({('var', dest, body.name_of(dest)): 1}, 0)
                        exact = True
                elif k in ('kill', 'consume'):
                    size, exact = ({}, 0), False
                return (size, exact)
            head, lops = ph[1], ph[2]
            deeper = [o for o in lops if len(o['chain']) > depth + 1]
            if deeper:
                # a loop whose body has its own nested loops touching D: analyse one iteration of it from an unknown size
                self.track_level(body, ex, loops, D, lops, depth + 1, ({}, 0), False, res)
                if any(o['kind'] in ('pop', 'kill', 'consume') for o in lops):
                    size, exact = ({}, 0), False
                else:
                    exact = False
                return (size, exact)
            tc = self.trip_count(body, ex, loops, head)
            pops = [o for o in lops if o['kind'] == 'pop']
            pushes = [o for o in lops if o['kind'] == 'push']
            kills = [o for o in lops if o['kind'] in ('kill', 'consume')]
            lens = [o for o in lops if o['kind'] == 'len']
            back_srcs = [a for a in body.pred()[head] if a in loops[head]]

            def every_iteration(o):
                return all(dominates(body, o['bb'], s) for s in back_srcs)
            if kills:
                for o in pops:
                    res[o['bb']] = (False, 'the queue is cleared/consumed inside the same loop')
                size, exact = ({}, 0), False
                return (size, exact)
            if pops and (tc is None or tc[0] != 'range'):
                # not a counted loop: analyse one iteration from an unknown size (e.g. `len` snapshot + pops inside)
                self.track_level(body, ex, loops, D, lops, depth + 1, ({}, 0), False, res)
                size, exact = ({}, 0), False
                return (size, exact)
            if pops:
                n_terms = self.min_variants(body, ex, tc[2]) or [tc[2]]
                start = lin_of(tc[1])
                k = len(pops)
                ok_all = False
                why = None
                for nt in n_terms:
                    n = l_add(lin_of(nt), start, -1)
                    need = l_add(size, l_scale(n, k), -1)
                    if l_nonneg(need):
                        ok_all = True
                if not ok_all:
                    why = (f'queue size at loop entry is only known to be >= {l_show(size)}, but the loop pops {k} time(s) in each of '
                           f'{l_show(l_add(lin_of(n_terms[0]), start, -1))} iterations')
                for o in pops:
                    res[o['bb']] = (ok_all, why)
                if ok_all and len(n_terms) == 1:
                    n = l_add(lin_of(n_terms[0]), start, -1)
                    size = l_add(size, l_scale(n, k), -1)
                    if not (all(every_iteration(o) for o in pops) and not pushes and not any(o['kind'] == 'maypush' for o in lops)
                            and self.only_exit_is_condition(body, loops, head)):
                        exact = False
                else:
                    size, exact = ({}, 0), False
            else:
                if pushes and tc is not None and tc[0] == 'range' and all(every_iteration(o) for o in pushes) \
                        and not any(o['kind'] == 'maypush' for o in lops) and self.only_exit_is_condition(body, loops, head):
                    n = l_add(lin_of(tc[2]), lin_of(tc[1]), -1)
                    size = l_add(size, l_scale(n, len(pushes)))
                elif pushes or any(o['kind'] == 'maypush' for o in lops):
                    exact = False
                    if pushes and (tc is None or tc[0] != 'range') and all(every_iteration(o) for o in pushes):
                        # one push per iteration of a loop driven by an iterator whose length this counter does not read (chunks, zip, ..)
                        self.__dict__.setdefault('_unknown_trip', set()).add(body.path)
        return (size, exact)

    def only_exit_is_condition(self, body, loops, head):
        """Every edge leaving the loop other than the iterator-exhausted edge leads to the function's return without
        executing the code that follows the loop (early `return` / `?`)."""
        blks = loops[head]
        succ = body.succ()
        exits = []
        for b in blks:
            for s in succ[b]:
                if s not in blks and body.blocks[s]['term']['k'] != 'unreachable':
                    exits.append((b, s))
        # the normal exit leaves from the block that switches on the discriminant of the head's next() call (value 0 = None)
        normal = None
        for (b, s) in exits:
            t = body.blocks[b]['term']
            if t['k'] == 'switch' and any(v == 0 and x == s for v, x in t['targets']) and b in (head, ) + tuple(succ[head]):
                normal = (b, s)
        if normal is None:
            return len(exits) <= 1
        from mir import reachable_from
        for (b, s) in exits:
            if (b, s) == normal:
                continue
            if normal[1] in reachable_from(body, s):
                return False
        return True


def strip_refs(t):
    while t[0] in ('ref', 'deref'):
        t = t[1]
    return t


def refers_to_local(t, L):
    t = strip_refs(t)
    return t[0] in ('var', 'arg') and t[1] == L
