import sys; sys.path.insert(0,'/verif/analysis')
from facts import Facts
import sym
from context import Context
from panics import *
from rules import recursion
from extract import get_facts; f=Facts(get_facts()[0]); sym.FACTS=f
ctx=Context(f,'quick','x')
cg=recursion.augment(ctx)
roots=sys.argv[1:]
cone=cg.reachable(roots)
inv=Inventory(ctx)
for p in sorted(cone):
    b=f.bodies[p]
    if b.kind=='Promoted': continue
    if p.startswith('<') and ('fmt::' in p): continue
    inv.scan(b)
ok=0
for (fn,desc),s in sorted(inv.sites.items()):
    if s.ok: ok+=1
    else: print('FAIL', fn, '|', desc[:150], '|', s.loc, '|', (s.fail or '')[:200])
print('sites', len(inv.sites), 'ok', ok, 'capped', inv.capped, 'cone', len(cone))
