"""Flow-insensitive parameter provenance of the locals of one MIR body.

prov(body)[local] = set of argument indices (1-based MIR locals) whose value may flow into `local` through
assignments, call results (from any argument), and `&mut local` out-parameters of calls.  Used by rules that must say
"this operand derives from the left document / the right document" without relying on variable names."""
from mir import defs


def locals_in(j, out=None):
    """every local mentioned in a MIR json fragment (places, index projections)"""
    if out is None:
        out = set()
    if isinstance(j, dict):
        if 'local' in j and isinstance(j['local'], int):
            out.add(j['local'])
        for v in j.values():
            if isinstance(v, (dict, list)):
                locals_in(v, out)
    elif isinstance(j, list):
        for v in j:
            locals_in(v, out)
    return out


def is_mut_ref(body, l):
    return str(body.local_ty(l).get('s', '')).startswith(('&mut', '*mut'))


def prov(body, skip=None):
    """skip: index of one edge (as enumerated by edges_of) to leave out — the provenance the locals would have without that statement"""
    if skip is None and 'prov' in body._cache:
        return body._cache['prov']
    p = {l: {l} for l in range(1, body.argc + 1)}
    edges = []  # (dst local, set of src locals)
    mutref = {}  # local -> set of locals it is a &mut of
    for b in body.blocks:
        if b.get('cleanup'):
            continue
        for s in b['stmts']:
            if s['k'] == 'assign':
                src = locals_in(s['rv'])
                dst = s['place']['local']
                src |= {e['local'] for e in s['place'].get('proj', []) if e.get('k') == 'index'}
                edges.append((dst, src))
                rv = s['rv']
                if rv['k'] in ('ref', 'rawptr') and rv.get('mut'):
                    mutref.setdefault(dst, set()).add(rv['place']['local'])
                elif rv['k'] == 'use' and rv['op']['k'] in ('copy', 'move') and not rv['op']['place'].get('proj') and is_mut_ref(body, dst):
                    # a moved/reborrowed reference aliases what its source points to
                    mutref.setdefault(dst, set()).add(rv['op']['place']['local'])
                # a store through a reference local also reaches what it points to
                if any(e.get('k') == 'deref' for e in s['place'].get('proj', [])):
                    edges.append(('*', dst, src))
        t = b['term']
        if t['k'] == 'call':
            src = locals_in(t['args'])
            edges.append((t['dest']['local'], src))
            for a in t['args']:
                if a['k'] in ('copy', 'move') and is_mut_ref(body, a['place']['local']):
                    al = a['place']['local']
                    edges.append(('mut', al, src - {al}))
    if skip == 'edges':
        return edges, mutref
    if skip is not None:
        edges = [e for i, e in enumerate(edges) if i != skip]
    changed = True
    it = 0
    # copies of &mut refs alias the same target
    while changed and it < 50:
        changed = False
        it += 1
        for e in edges:
            if e[0] in ('mut', '*'):
                tgt = set()
                stack = [e[1]]
                seen = set()
                while stack:
                    x = stack.pop()
                    if x in seen:
                        continue
                    seen.add(x)
                    if x in mutref:
                        tgt |= mutref[x]
                        stack.extend(mutref[x])
                add = set()
                for s in e[2]:
                    add |= p.get(s, set())
                for tl in tgt:
                    cur = p.setdefault(tl, set())
                    if not add <= cur:
                        cur |= add
                        changed = True
                continue
            dst, src = e
            add = set()
            for s in src:
                add |= p.get(s, set())
            cur = p.setdefault(dst, set())
            if not add <= cur:
                cur |= add
                changed = True
    if skip is None:
        body._cache['prov'] = p
    return p


def sides(body):
    """For a symmetric two-operand function f(l1..lk, r1..rk): local -> 'L' | 'R' | 'LR' | None."""
    n = body.argc
    if n % 2:
        return None
    half = n // 2
    pr = prov(body)
    out = {}
    for l, s in pr.items():
        hl = any(a <= half for a in s)
        hr = any(a > half for a in s)
        out[l] = 'LR' if hl and hr else 'L' if hl else 'R' if hr else None
    return out
