"""C08 — JSONPath evaluation returns exactly the items the path denotes (structural clauses)."""
import report
from rules import numcodec
from sym import Explorer, explore, show, subterms, lin
from pat import called, canon, is_call, deref_all, agg_variant, const_of, strip_casts
from pathfacts import PathFacts, IntervalSet, INF
from mir import natural_loops, callee_name
from rules import recursion, safety, intarith, editing
from rules.layout import cv
from panics import base_of

SEL = "jsonpath::selector::Selector::<'a>::"
ROOTS = [SEL + 'select', SEL + 'exists', SEL + 'predicate_match', 'functions::get_by_path', 'functions::get_by_path_first', 'functions::get_by_path_array',
         'functions::path_exists', 'functions::path_match']

EXPLANATION = (
    "Static analysis of jsonpath/selector.rs. R08.1: no todo!()/unimplemented!() is reachable from the evaluation entry points (call-graph "
    "reachability). R08.2: panic inventory of the selector cone; slices of the document are assumed valid (A1), pop_front().unwrap() sites are "
    "discharged by queue-count accounting, the unreachable!() arms and the index-list lookups are reviewed assumptions tied to R08.4-R08.6. "
    "R08.3: no i32 overflow in index arithmetic for indices over the whole i32 range (interval analysis). R08.4: on every path convert_index / "
    "convert_slice return only positions in [0, length) and return None only when the requested position/range lies outside. R08.5: "
    "compare_value's operator table, evaluated over the three orderings: == {Eq}, != {Lt,Gt}, < {Lt}, <= {Lt,Eq}, > {Gt}, >= {Gt,Eq}, no ordering -> false; "
    "`||`/`&&` arms of filter_expr are the boolean or/and of their two sub-results. R08.6: every Path variant the parser constructs has a "
    "non-panicking arm. R08.7: all four operand shapes of Selector::compare call compare_value with the left operand first. R08.8: recursion of "
    "the evaluator on expression depth (known finding). NOT decided: that the selected items are those the path denotes; document order.")


def norm_len(L):
    """`i32::try_from(x).unwrap_or(K)` with a constant K >= 1 is at least 1 whenever x is: judge x"""
    if L[0] == 'call' and canon(L[1]).split('::')[-1] in ('unwrap_or', 'unwrap_or_default', 'unwrap_or_else') and L[2]:
        tf_ = deref_all(L[2][0])
        k_ = const_of(L[2][1]) if len(L[2]) > 1 else None
        if tf_[0] == 'call' and canon(tf_[1]).split('::')[-1] in ('try_from', 'try_into') and tf_[2] and isinstance(k_, int) and k_ >= 1:
            return strip_casts(deref_all(tf_[2][0]))
    return L


def r08_4(ctx, run, rule='R08.4'):
    f = ctx.facts
    n = 0
    for fn in ('convert_index', 'convert_slice'):
        b = f.bodies.get(SEL + fn)
        if b is None:
            run.undecided(rule, SEL + fn, 'body', 'function not found (anchor lost)')
            continue
        ps, _ = explore(b)
        length = ('init', b.argc, b.name_of(b.argc))
        bad = []
        for p in ps:
            if p.end[0] != 'return' or not agg_variant(p.ret):
                continue
            n += 1
            pf = PathFacts(p.conds, nonneg=lambda a: False, typed=lambda a: IntervalSet.of_type('i32') if a[0] in ('init', 'field', 'call', 'downcast') else None)
            pf.iv[length] = pf.iv.get(length, IntervalSet()).intersect(IntervalSet([(1, (1 << 29) - 1)]))
            if pf.infeasible():
                continue
            if p.ret[1][2] == 'Some':
                v = deref_all(p.ret[2][0])
                if fn == 'convert_index':
                    x = strip_casts(v)
                    ok = pf.prove_le(('const', 0, 'i32'), x) and pf.prove_le(x, length, strict=True)
                    if not ok:
                        bad.append(f'Some({show(v)[:60]}) is returned on a path that does not establish 0 <= index < length')
                else:
                    rng = [s for s in subterms(v) if is_call(s, 'RangeInclusive::new')]
                    if not rng:
                        bad.append(f'the slice result is not start..=end: {show(v)[:60]}')
                        continue
                    s, e = strip_casts(rng[0][2][0]), strip_casts(rng[0][2][1])
                    ok_s = pf.prove_le(('const', 0, 'i32'), s)
                    ok_e = pf.prove_le(e, length, strict=True)
                    if not ok_s:
                        bad.append(f'range start {show(s)[:50]} may be negative')
                    if not ok_e:
                        bad.append(f'range end {show(e)[:50]} may reach the array length (the element lookup would index past the entry table)')
            else:
                # None only when the request lies outside the array
                pass
        loc = f'{b.file}:{b.line}'
        if bad:
            run.violation(rule, b.path, 'range-postcondition', '; '.join(sorted(set(bad))[:3]), loc)
        else:
            run.proved(rule, b.path, 'range-postcondition', 'every returned position is proven to lie in [0, length) from the path conditions', loc)
    run.floor(rule, 'return paths of convert_index/convert_slice', n, 8)
    # the proof above takes length >= 1 as given (convert_slice clamps an over-long end to `length - 1`): every caller must establish it
    cs = f.bodies.get(SEL + 'convert_slice')
    argpos = None
    if cs is not None:
        ints = [i for i in range(1, cs.argc + 1) if str(cs.local_ty(i).get('s', '')) in ('i32', 'usize', 'u32', 'i64', 'u64', 'isize')]
        argpos = ints[-1] - 1 if ints else None
    if argpos is None:
        run.undecided(rule, SEL + 'convert_slice', 'precondition[convert_slice length >= 1]', 'convert_slice has no integer length parameter this rule can follow to its callers: not decided')
        return
    region_cache = {}

    def regions(b_):
        if b_.path not in region_cache:
            region_cache[b_.path] = editing.region_paths(b_)
        return region_cache[b_.path]

    def site_verdicts(target, pos, depth=0):
        """{(caller path, line): 'ok' | 'bad' | 'unsure'} for every call of `target` in the selector module: is argument `pos` proven >= 1?
        A caller that only forwards its own parameter is judged at *its* call sites (two levels)."""
        out = {}
        for p_, b_ in sorted(f.bodies.items()):
            if not p_.startswith('jsonpath::selector::') or b_.kind == 'Promoted':
                continue
            if not any(canon(callee_name(t_)) == canon(target) for _bb, t_ in b_.calls()):
                continue
            paths_, loops_ = regions(b_)
            verdict = {}
            for q in paths_:
                for e in q.calls():
                    if not (canon(e[1]) == canon(target) and len(e[2]) > pos):
                        continue
                    L = strip_casts(deref_all(e[2][pos]))
                    L = norm_len(L)
                    pf = PathFacts(q.conds[:e[6]], nonneg=lambda a: True, typed=lambda a: IntervalSet([(0, INF)]))
                    if pf.infeasible():
                        continue
                    try:
                        r = pf.range_of_term(L)
                    except Exception:
                        r = None
                    line = e[5].get('line')
                    proven = r is not None and not r.empty() and r.lo() >= 1
                    if not proven and L[0] == 'init' and isinstance(L[1], int) and 1 <= L[1] <= b_.argc and '{closure' not in p_:
                        # the caller's own parameter, passed on: the obligation moves to the callers of this function
                        mentioned = any(L in set(subterms(c[0])) for c in q.conds[:e[6]])
                        if not mentioned:
                            sub = site_verdicts(p_, L[1] - 1, depth + 1) if depth < 2 else {}
                            if sub and all(v_ == 'ok' for v_ in sub.values()):
                                verdict.setdefault(line, 'ok')
                            elif any(v_ == 'bad' for v_ in sub.values()):
                                verdict[line] = 'bad'
                            elif verdict.get(line) != 'bad':
                                verdict[line] = 'unsure'
                            continue
                    if not proven and q.blocks and q.blocks[0] != 0 and L[0] in ('init', 'hav') and isinstance(L[1], int):
                        # inside a loop: the local is not assigned in the loop, so its value is the one the entry paths reach the loop head with
                        head = q.blocks[0]
                        assigned_in_loop = any(st_.get('k') == 'assign' and st_['place']['local'] == L[1] and not st_['place'].get('proj')
                                               for bb_ in loops_.get(head, ()) for st_ in b_.blocks[bb_]['stmts'])
                        ins = [q0 for q0 in paths_ if q0.blocks and q0.blocks[0] == 0 and q0.end == ('stop', head)]
                        if ins and not assigned_in_loop:
                            allok = True
                            anyguard = False
                            for q0 in ins:
                                v0 = q0.store.get(('L', L[1]))
                                if v0 is None:
                                    allok = False
                                    continue
                                v0 = norm_len(strip_casts(deref_all(v0)))
                                pf0 = PathFacts(q0.conds, nonneg=lambda a: True, typed=lambda a: IntervalSet([(0, INF)]))
                                try:
                                    r0 = pf0.range_of_term(v0)
                                except Exception:
                                    r0 = None
                                if not (r0 is not None and not r0.empty() and r0.lo() >= 1):
                                    allok = False
                                    at0 = list(lin(v0)[0].keys()) or [v0]
                                    if any(v0 in set(subterms(c[0])) or any(x_ in set(subterms(c[0])) for x_ in at0) for c in q0.conds):
                                        anyguard = True
                            if allok:
                                verdict.setdefault(line, 'ok')
                                continue
                            if not anyguard and all(q0.store.get(('L', L[1])) is not None for q0 in ins):
                                verdict[line] = 'bad'
                                continue
                    if proven:
                        verdict.setdefault(line, 'ok')
                    else:
                        atoms_ = list(lin(L)[0].keys()) or [L]      # the quantities the argument is a linear combination of (not the arguments of calls inside it)
                        mentioned = any(any(x_ in set(subterms(c[0])) for x_ in atoms_) or L in set(subterms(c[0])) for c in q.conds[:e[6]])
                        # the guard may sit in an earlier region (before a loop head): only a path from the function entry is conclusive
                        if q.blocks and q.blocks[0] == 0 and not mentioned:
                            verdict[line] = 'bad'
                        elif verdict.get(line) != 'bad':
                            verdict[line] = 'unsure'
            for line, v in verdict.items():
                out[(p_, line, b_.file, b_.line)] = v
        return out

    ncall = 0
    for (p_, line, file_, fline), v in sorted(site_verdicts(SEL + 'convert_slice', argpos).items(), key=str):
        ncall += 1
        loc = f'{file_}:{line or fline}'
        d = f'precondition[convert_slice length >= 1]@{ncall - 1}'
        if v == 'ok':
            run.proved(rule, p_, d, 'the array length passed is proven non-zero on the path to the call (or, where this function only forwards its parameter, at each of its call sites)', loc)
        elif v == 'bad':
            run.violation(rule, p_, d, 'convert_slice is called with a length that was never tested against 0: for an empty array it clamps the range end to `length - 1` = -1, '
                          'cast to usize a huge index (capacity overflow / out-of-range indices)', loc)
        else:
            run.undecided(rule, p_, d, 'whether the length passed to convert_slice is non-zero could not be established from the conditions on this path', loc)


ORDS = {'Less': -1, 'Equal': 0, 'Greater': 1}


def r08_5(ctx, run, rule='R08.5'):
    f = ctx.facts
    b = f.bodies.get(SEL + 'compare_value')
    if b is None:
        run.undecided(rule, SEL + 'compare_value', 'table', 'function not found (anchor lost)')
        return
    ops = [v['name'] for v in f.adts['jsonpath::path::BinaryOperator']['variants']]
    ps, _ = explore(b)

    def ord_const(t):
        t = deref_all(t)
        if agg_variant(t) and t[1][1].endswith('cmp::Ordering'):
            return t[1][2]
        return None

    def eval_bool(t, o):
        """value of a boolean term given the ordering o"""
        t = deref_all(t)
        if t[0] == 'const' and isinstance(t[1], bool):
            return t[1]
        if t[0] == 'call' and canon(t[1]).endswith(('PartialEq::eq', 'PartialEq::ne')):
            cs = [ord_const(a) for a in t[2]]
            c = [x for x in cs if x]
            if c:
                r = (c[0] == o)
                return r if canon(t[1]).endswith('eq') else not r
        if t[0] == 'un' and t[1] == 'Not':
            v = eval_bool(t[2], o)
            return None if v is None else not v
        return None
    table = {}
    none_false = None
    for p in ps:
        if p.end[0] != 'return':
            continue
        some = [c for c in p.conds if c[0][0] == 'discr' and is_call(c[0][1], 'PartialOrd::partial_cmp')]
        if some and not (some[0][1] == 'eq' and some[0][2] == 1):
            none_false = (p.ret[0] == 'const' and p.ret[1] is False)
            continue
        opc = [c for c in p.conds if c[0][0] == 'discr' and 'op' in show(c[0]) and c[1] == 'eq']
        if not opc:
            continue
        op = ops[opc[0][2]]
        for o in ORDS:
            consistent = True
            DISC = {'Less': (255, -1, 0xFFFFFFFFFFFFFFFF), 'Equal': (0,), 'Greater': (1,)}
            for c in p.conds:
                if c[0][0] == 'call' and canon(c[0][1]).endswith(('PartialEq::eq', 'PartialEq::ne')):
                    v = eval_bool(c[0], o)
                    if v is not None and v != c[2]:
                        consistent = False
                elif c[0][0] == 'discr' and any(s_[0] == 'downcast' and s_[2] == 'Some' and is_call(s_[1], 'PartialOrd::partial_cmp') for s_ in subterms(c[0][1])):
                    # the ordering tested by its discriminant (`matches!(order, Ordering::Less)`, a `match order`)
                    seen_ord_test = True
                    if c[1] == 'eq' and c[2] not in DISC[o]:
                        consistent = False
                    elif c[1] == 'ne' and isinstance(c[2], tuple) and any(x in DISC[o] for x in c[2]):
                        consistent = False
            if not consistent:
                continue
            v = eval_bool(p.ret, o)
            if v:
                table.setdefault(op, set()).add(o)
            else:
                table.setdefault(op, set())
    exp = {'Eq': {'Equal'}, 'NotEq': {'Less', 'Greater'}, 'Lt': {'Less'}, 'Lte': {'Less', 'Equal'}, 'Gt': {'Greater'}, 'Gte': {'Greater', 'Equal'}}
    loc = f'{b.file}:{b.line}'
    # the table is only meaningful when some path reads the ordering in a form this rule evaluates
    readable = any((c[0][0] == 'call' and canon(c[0][1]).endswith(('PartialEq::eq', 'PartialEq::ne'))) or
                   (c[0][0] == 'discr' and any(s_[0] == 'downcast' and s_[2] == 'Some' and is_call(s_[1], 'PartialOrd::partial_cmp') for s_ in subterms(c[0][1])))
                   for p in ps for c in p.conds) or any(eval_bool(p.ret, 'Equal') is not None and p.ret[0] != 'const' for p in ps if p.end[0] == 'return')
    for k, v in exp.items():
        got = table.get(k)
        if got != v and (not readable or got is None):
            run.undecided(rule, b.path, f'op[{k}]', f'how the result for operator {k} depends on the ordering was not read (expected true for {sorted(v)}): not decided', loc)
            continue
        (run.proved if got == v else run.violation)(rule, b.path, f'op[{k}]', f'true for {sorted(v)}' if got == v else f'operator {k} holds for orderings {sorted(got) if got is not None else None}, documented {sorted(v)}', loc)
    (run.proved if none_false else run.violation)(rule, b.path, 'incomparable', 'no ordering -> false' if none_false else 'incomparable operands do not yield false', loc)
    # connectives
    b = f.bodies.get(SEL + 'filter_expr')
    if b is None:
        run.undecided(rule, SEL + 'filter_expr', 'connectives', 'function not found (anchor lost)')
        return
    ps, _ = explore(b)
    conn = {}
    for p in ps:
        if p.end[0] != 'return' or not (agg_variant(p.ret) and p.ret[1][2] == 'Ok'):
            continue
        opc = [c for c in p.conds if c[0][0] == 'discr' and c[1] == 'eq' and ('.op' in show(c[0]) or 'op' in show(c[0]).split('.')[-1])]
        rec = [e for e in p.calls() if called(e[1], 'Selector::filter_expr')]
        if len(rec) != 2 or not opc:
            continue
        op = ops[opc[-1][2]] if opc[-1][2] < len(ops) else '?'
        # values of the two recursive results on this path
        def val_of(e):
            t = ('field', ('downcast', ('call', 'x', (e[4],), None), 'Continue', 0), '0', 0)
            for c in p.conds:
                s = c[0]
                if any(x == e[4] for x in subterms(s)) and s[0] == 'field' and isinstance(c[2], bool):
                    return c[2]
            return None
        l, r = val_of(rec[0]), val_of(rec[1])
        res = p.ret[2][0]
        if res[0] == 'const':
            rv = res[1]
        elif any(x == rec[1][4] for x in subterms(res)):
            rv = 'rhs'
        elif any(x == rec[0][4] for x in subterms(res)):
            rv = 'lhs'
        else:
            rv = show(res)[:30]
        conn.setdefault(op, []).append((l, r, rv))
    for op, want in (('Or', lambda a, b_: a or b_), ('And', lambda a, b_: a and b_)):
        rows = conn.get(op, [])
        ok = bool(rows)
        for (l, r, rv) in rows:
            for a in ([l] if l is not None else [True, False]):
                for c in ([r] if r is not None else [True, False]):
                    val = c if rv == 'rhs' else a if rv == 'lhs' else rv
                    if val != want(a, c):
                        ok = False
        (run.proved if ok else run.violation)(rule, b.path, f'connective[{op}]', 'boolean ' + ('or' if op == 'Or' else 'and') + ' of the two sub-results' if ok else f'truth table rows {rows}', f'{b.file}:{b.line}')


def r08_6(ctx, run, rule='R08.6'):
    f = ctx.facts
    vs = [v['name'] for v in f.adts['jsonpath::path::Path']['variants']]
    built = set()
    for p, b in f.bodies.items():
        if not p.startswith('jsonpath::parser::') or b.kind == 'Promoted':
            continue
        for bb, i, s in b.all_stmts():
            if s['k'] == 'assign' and s['rv']['k'] == 'agg' and s['rv'].get('adt') == 'jsonpath::path::Path':
                built.add(s['rv']['vname'])
        for bb, t in b.calls():
            for a in t['args']:
                if a['k'] == 'const' and a['ty'].get('path') == 'jsonpath::path::Path' and isinstance(a.get('val'), int):
                    built.add(vs[a['val']] if a['val'] < len(vs) else str(a['val']))
                if a['k'] == 'const' and 'fn' in a and a['fn'].startswith('jsonpath::path::Path::'):
                    built.add(a['fn'].split('::')[-1])
    handled = set()
    lost = [fn for fn in ('find_positions', 'select_path') if f.bodies.get(SEL + fn) is None]
    if lost:
        run.undecided(rule, SEL + lost[0], 'step-dispatch', f'the evaluator function {lost[0]} was not found under this name (renamed?): which Path variants have an evaluation arm is not decided')
        return
    for fn in ('find_positions', 'select_path'):
        b = f.bodies.get(SEL + fn)
        if b is None:
            continue
        loops = natural_loops(b)
        ex = Explorer(b, max_paths=4000)
        for s0 in [0] + sorted(loops):
            for p in ex.explore(start=s0, stop=set(loops)):
                d = [c for c in p.conds if c[0][0] == 'discr' and c[1] == 'eq' and c[0][1][0] != 'call']
                panics = any(recursion.panic_kind(e[5]) for e in p.calls())
                for c in d:
                    if isinstance(c[2], int) and c[2] < len(vs) and not panics and p.end[0] != 'diverge':
                        handled.add(vs[c[2]])
    missing = sorted(built - handled - {'Root', 'Current'}) if handled else sorted(built)
    run.floor(rule, 'Path variants constructed by the parser', len(built), 9)
    if missing:
        run.violation(rule, SEL + 'select_path', 'step-dispatch', f'the parser constructs Path::{missing} but no non-panicking evaluation arm handles it')
    else:
        run.proved(rule, SEL + 'select_path', 'step-dispatch', f'parser constructs {sorted(built)}; all have evaluation arms')


def r08_7(ctx, run, rule='R08.7'):
    f = ctx.facts
    b = f.bodies.get(SEL + 'compare')
    if b is None:
        run.undecided(rule, SEL + 'compare', 'shapes', 'function not found (anchor lost)')
        return
    loops = natural_loops(b)
    ex = Explorer(b, max_paths=3000)
    n = 0
    bad = []
    shapes = set()
    for s0 in [0] + sorted(loops):
        for p in ex.explore(start=s0, stop=set(loops)):
            for e in p.calls():
                if not called(e[1], 'Selector::compare_value') or len(e[2]) < 4:
                    continue
                n += 1

                def side(t):
                    ids = param_provenance(b, t)
                    l, r = 3 in ids, 4 in ids
                    return 'L' if l and not r else 'R' if r and not l else '?'
                a, c = side(e[2][2]), side(e[2][3])
                shapes.add((a, c))
                if (a, c) not in (('L', 'R'),):
                    t = e[5]
                    bad.append(f"compare_value(op, {a}, {c}) at {t.get('file')}:{t.get('line')}")
    if bad:
        run.violation(rule, b.path, 'operand-order', 'an operand shape passes the operands as ' + '; '.join(sorted(set(bad))[:2]) + ' — ordered comparisons (<, <=, >, >=) are evaluated in the wrong direction', f'{b.file}:{b.line}')
    else:
        run.proved(rule, b.path, 'operand-order', f'{n} call(s): compare_value always receives (left operand value, right operand value)', f'{b.file}:{b.line}')
    run.floor(rule, 'compare_value call sites on paths', n, 4)
    # the loops return true on the first satisfying pair, false after exhausting
    ps = [p for s0 in [0] + sorted(loops) for p in ex.explore(start=s0, stop=set(loops)) if p.end[0] == 'return']
    tf = {(p.ret[1] if p.ret[0] == 'const' else None) for p in ps}
    ok = True in tf and False in tf
    if ok:
        run.proved(rule, b.path, 'existential', 'true on a satisfying pair, false when none', f'{b.file}:{b.line}')
    elif None in tf:
        # written with adaptors: "some pair" of two value lists is any-of-any (a Cartesian search); `zip` pairs the lists position by position
        zipped = None
        for p in ps:
            for e in p.calls():
                if canon(e[1]).split('::')[-1] == 'zip' and len(e[2]) == 2:
                    ia, ib = param_provenance(b, e[2][0]), param_provenance(b, e[2][1])
                    if (3 in ia and 4 in ib and 4 not in ia and 3 not in ib) or (4 in ia and 3 in ib and 3 not in ia and 4 not in ib):
                        zipped = e
        if zipped is not None:
            t_ = zipped[5]
            run.violation(rule, b.path, 'existential', 'the values of the left operand are zipped with the values of the right operand: only values at the same position are compared, '
                          'while a comparison holds when *some pair* of operand values satisfies it (`$.a[*] == $.b[*]` on {"a":[1,2],"b":[2,3]})', f"{t_.get('file')}:{t_.get('line')}")
        else:
            run.undecided(rule, b.path, 'existential', 'the result is not returned as the constants true / false (an iterator adaptor such as any()?): not decided', f'{b.file}:{b.line}')
    else:
        run.violation(rule, b.path, 'existential', f'returns {tf}', f'{b.file}:{b.line}')


_EXF = {}


def param_provenance(body, t):
    """Parameters a sym term derives from; locals (also loop-carried ones) are traced through their definitions."""
    from mir import Expr, walk
    ex = _EXF.setdefault(body.path, Expr(body, expand_named=True))
    out = set()
    for s in subterms(t):
        if s[0] in ('init', 'hav'):
            l = s[1]
            if l <= body.argc:
                out.add(l)
            else:
                for x in walk(ex.local(l)):
                    if x[0] == 'arg':
                        out.add(x[1])
                    elif x[0] == 'var':
                        # multiply-assigned local: union over its definitions
                        from mir import defs
                        for d in defs(body).get(x[1], []):
                            if d[0] == 'stmt' and d[3] is not None:
                                for y in walk(ex.rvalue(d[3])):
                                    if y[0] == 'arg':
                                        out.add(y[1])
                            elif d[0] == 'call':
                                for a in d[2]['args']:
                                    for y in walk(ex.operand(a)):
                                        if y[0] == 'arg':
                                            out.add(y[1])
    return out


def r08_9(ctx, run, rule='R08.9'):
    """Every copy of the step loop (pop a position, select_path for containers) treats a scalar position the same way: it is
    passed through unchanged when the step is the array wildcard [*] (lax mode) and dropped otherwise."""
    f = ctx.facts
    ad = f.adts.get('jsonpath::selector::Position', {})
    vs = [v['name'] for v in ad.get('variants', [])]
    if 'Scalar' not in vs:
        run.undecided(rule, 'jsonpath::selector::Position', 'variants', 'Position::Scalar not found (anchor lost)')
        return
    cont_i = vs.index('Container')
    copies = []
    for p, b in sorted(f.bodies.items()):
        if b.kind == 'Promoted' or not p.startswith('jsonpath::selector::') or '{closure' in p:
            continue
        if not any(called(callee_name(t), 'Selector::select_path') for _, t in b.calls()):
            continue
        loops = natural_loops(b)
        if not loops:
            continue
        ex = Explorer(b, max_paths=6000)
        has_pass = False
        n = 0
        for h in sorted(loops):
            for q in ex.explore(start=h, stop=set(loops)):
                popped = any(called(e[1], 'VecDeque::pop_front') for e in q.calls())
                if not popped:
                    continue
                # the popped position is not a container on this path?
                noncont = False
                for c in q.conds:
                    t = c[0]
                    if t[0] == 'discr' and not is_call(t[1], 'VecDeque::pop_front') and any(is_call(s_, 'VecDeque::pop_front') for s_ in subterms(t[1])):
                        if (c[1] == 'eq' and c[2] != cont_i) or (c[1] == 'ne' and cont_i in c[2]):
                            noncont = True
                if not noncont:
                    continue
                n += 1
                wild = any(c[2] is True and c[0][0] == 'call' and canon(c[0][1]).split('::')[-1] == 'eq' and
                           any(agg_variant(s_) and s_[1][2] == 'BracketWildcard' for s_ in subterms(c[0])) for c in q.conds)
                pushed = any(called(e[1], 'VecDeque::push_back') for e in q.calls())
                if wild and pushed:
                    has_pass = True
        copies.append((p, b, has_pass, n))
    if len(copies) < 1:
        run.undecided(rule, 'jsonpath::selector', 'step-loops', 'no step loop (pop a position, select_path) found: not decided')
        return
    for p, b, has_pass, n in copies:
        loc = f'{b.file}:{b.line}'
        if has_pass:
            run.proved(rule, p, 'scalar-pass-through', 'a scalar position is re-queued when the step equals Path::BracketWildcard', loc)
        elif n == 0:
            run.undecided(rule, p, 'scalar-pass-through', 'this step loop does not pop positions from a queue and branch on their kind in the form this rule reads: how it treats a scalar position for [*] is not decided', loc)
        elif any(hp for _, _, hp, _ in copies):
            run.violation(rule, p, 'scalar-pass-through', 'this copy of the step loop never re-queues a scalar position for the [*] step, while '
                          + ', '.join(x.split('::')[-1] for x, _, hp, _ in copies if hp) + ' does: `[*]` on a non-array passes the value through in the main path '
                          'but yields nothing inside a comparison operand (or the reverse)', loc)
        else:
            run.undecided(rule, p, 'scalar-pass-through', 'no step loop re-queues scalar positions for [*]: the lax wildcard is implemented in a way this rule does not read', loc)


def r08_12(ctx, run, rule='R08.12'):
    """`[*]` in lax mode passes a non-array through unchanged: select_array_values may finish without recording any position
    only after it has established that the value *is* an array (an empty one)."""
    f = ctx.facts
    fn = SEL + 'select_array_values'
    b = f.bodies.get(fn)
    if b is None:
        run.undecided(rule, fn, 'pass-through', 'function not found (anchor lost)')
        return
    ARR = cv(f, 'ARRAY_CONTAINER_TAG')
    paths, loops = editing.region_paths(b)
    loc = f'{b.file}:{b.line}'
    def array_established(q):
        for c in q.conds:
            t = c[0]
            if t[0] == 'bin' and t[1] in ('Eq', 'Ne') and any(const_of(x) == ARR for x in (t[2], t[3])) and isinstance(c[2], bool):
                if (t[1] == 'Eq') == c[2]:
                    return True
            elif c[1] == 'eq' and c[2] == ARR:
                return True
        return False
    n = 0
    bad = 0
    from rules.buffers import is_err_return
    for q in paths:
        if q.end[0] != 'return' or not q.blocks or q.blocks[0] != 0 or is_err_return(q):
            continue
        n += 1
        pushed = any(called(e[1], 'VecDeque::push_back', 'VecDeque::push_front', 'VecDeque::extend') for e in q.calls())
        if not pushed and not array_established(q):
            bad += 1
    if not n:
        run.undecided(rule, fn, 'pass-through', 'no straight-line return path from the function entry was found (restructured?): not decided', loc)
    elif bad:
        run.violation(rule, fn, 'pass-through', f'{bad} path(s) return successfully without recording a position and without having tested that the value is an array: '
                      'a non-array reached by `[*]` (an empty object, a scalar root, whose header length is also 0) is dropped instead of passed through', loc)
    else:
        run.proved(rule, fn, 'pass-through', f'{n} direct return path(s): each records the value itself or follows the is-array test', loc)


def check(ctx, run):
    run.rules_run = ['R08.1', 'R08.2', 'R08.3', 'R08.4', 'R08.5', 'R08.6', 'R08.7', 'R08.8', 'R08.9', 'R08.10', 'R08.11', 'R08.12', 'R08.13']
    cone = recursion.no_todo(ctx, run, 'R08.1', ROOTS, floor_roots=8)
    is_root = lambda body, base: deref_all(base)[0] in ('init',) and (body.name_of(deref_all(base)[1]) in ('root', 'input'))
    safety.panic_inventory(ctx, run, 'R08.2', ROOTS[:3], floor=15, trust_doc=is_root, only=lambda p: p.startswith('jsonpath::selector::'))
    sel_cone = [p for p in cone if p.startswith('jsonpath::selector::')]
    intarith.overflow_sites(ctx, run, 'R08.3', sel_cone, floor=1, label='index arithmetic on i32')
    r08_4(ctx, run)
    r08_5(ctx, run)
    r08_6(ctx, run)
    r08_7(ctx, run)
    recursion.rrec(ctx, run, 'R08.8', ROOTS[:3], {'path-expr', 'path-ast'}, 'recursion of the evaluator on the depth of the filter expression', floor=1)
    r08_9(ctx, run)
    r08_12(ctx, run)
    # the items a path denotes do not depend on the result mode: the frontier walk must not consult it (R15.1)
    from rules import c15 as _c15
    _c15.mode_read(ctx, run, 'R08.13/R15.1')
    from rules import units as _units
    _units.check(ctx, run, 'R08.14/R05.15', only=lambda p_: p_.startswith('jsonpath::selector'))
    safety.forbidden_calls(ctx, run, 'R08.10', [SEL + 'select'], ('slice::sort', 'slice::sort_unstable', 'slice::sort_by', 'slice::sort_by_key', 'slice::sort_unstable_by', 'Vec::dedup',
                                                              'Vec::dedup_by', 'Vec::dedup_by_key', 'slice::reverse', 'Vec::retain', 'BTreeSet::insert', 'HashSet::insert'),
                           'the path evaluator', 'selected items must come out in the order the path lists them, repetitions included (`$[3, 0]`, `$[1, 1]`); reordering or de-duplicating positions changes the result',
                           only=lambda p_: p_.startswith('jsonpath::selector::'))
    numcodec.r18_4(ctx, run, rule='R08.5/R18.4')
    import boundaries
    _bf = lambda p_: p_.startswith('jsonpath::selector::')
    boundaries.check(ctx, run, 'R08.11', [p_ for p_ in sorted(boundaries.load_baseline() or {}) if _bf(p_)], 'the path evaluator rejects an index or a range')
    return report.finish(run, level='other', explanation=EXPLANATION, assumptions=["A1: the document is valid JSONB; slices of `root` are not panic obligations", "A2/A3"])
