#!/usr/bin/env python3
"""Record, for the pinned tree (/repo HEAD, clean), every panic / overflow site that the checks discharge or assume,
keyed (function, construct with local names erased), and the list of functions.  The checks use it only to tell
"a guard of an existing site was weakened" (violation) from "new code the provers cannot model" (undecided).
Run by hand on a clean /repo; never run by a check."""
import json, os, subprocess, sys, tempfile
sys.path.insert(0, '/verif/analysis')
st = subprocess.run(['git', '-C', '/repo', 'status', '--porcelain', '--', 'src'], capture_output=True, text=True).stdout.strip()
if st:
    sys.exit('/repo is not clean')
tmp = tempfile.mktemp()
env = dict(os.environ, VERIF_RECORD_SITES=tmp, VERIF_EVIDENCE_DIR=tempfile.mkdtemp())
man = json.load(open('/verif/MANIFEST.json'))
for c in man['checks']:
    subprocess.run(['/verif/check', c['property_id']], env=env, capture_output=True)
sites = sorted({tuple(json.loads(l)) for l in open(tmp)})
from extract import get_facts
from facts import Facts
f = Facts(get_facts()[0])
fns = sorted(b.path for b in f.local_fn_bodies())
json.dump({'sites': sites, 'functions': fns}, open('/verif/baseline_sites.json', 'w'), indent=0)
os.remove(tmp)
print(len(sites), 'sites,', len(fns), 'functions')
