"""Resolved call graph over the local bodies of the crate (G1) and SCC computation."""
from mir import callee_name, Expr, walk


class CallGraph:
    def __init__(self, facts):
        self.facts = facts
        self.edges = {}      # caller path -> {callee path: [site dict,...]}
        self.ext_calls = {}  # caller path -> [(callee name, bb, term)]
        self.closure_parent = {}
        self._build()

    def _add(self, a, b, site):
        self.edges.setdefault(a, {}).setdefault(b, []).append(site)

    def _build(self):
        f = self.facts
        bodies = f.bodies
        for path, body in bodies.items():
            if body.kind == 'Promoted':
                continue
            self.edges.setdefault(path, {})
            for bb, t in body.calls():
                c = t['callee']
                name = c.get('resolved') or c.get('written')
                tgt = None
                if c.get('resolved_local') and c.get('resolved') in bodies:
                    tgt = c['resolved']
                elif c.get('local') and c.get('written') in bodies:
                    tgt = c['written']
                site = {'bb': bb, 'file': t.get('file'), 'line': t.get('line'), 'kind': 'call'}
                if tgt is not None:
                    self._add(path, tgt, site)
                else:
                    self.ext_calls.setdefault(path, []).append((name or '<indirect>', bb, t))
                # function items / closures passed as arguments (combinators call them)
                for a in t['args']:
                    self._operand_refs(path, a, site)
            for bb, i, s in body.all_stmts():
                if s['k'] != 'assign':
                    continue
                rv = s['rv']
                site = {'bb': bb, 'file': s.get('file'), 'line': s.get('line'), 'kind': 'ref'}
                if rv['k'] == 'agg':
                    if rv['agg'] == 'closure' and rv['closure'] in bodies:
                        self._add(path, rv['closure'], dict(site, kind='closure'))
                        self.closure_parent[rv['closure']] = path
                    for o in rv['ops']:
                        self._operand_refs(path, o, site)
                elif rv['k'] in ('use', 'cast'):
                    self._operand_refs(path, rv['op'], site)

    def _operand_refs(self, path, o, site):
        if o['k'] == 'const' and 'fn' in o:
            fn = o['fn']
            if fn in self.facts.bodies:
                self._add(path, fn, dict(site, kind='fnref'))
        elif o['k'] == 'const' and o['ty'].get('k') == 'closure':
            p = o['ty'].get('path')
            if p in self.facts.bodies:
                self._add(path, p, dict(site, kind='closure'))
                self.closure_parent.setdefault(p, path)

    def callees(self, path):
        return self.edges.get(path, {})

    def reachable(self, roots):
        seen = set()
        st = [r for r in roots if r in self.edges]
        while st:
            x = st.pop()
            if x in seen:
                continue
            seen.add(x)
            st.extend(self.edges.get(x, {}).keys())
        return seen

    def path_to(self, roots, target):
        """One call path (list of body paths) from any root to target, or None."""
        from collections import deque
        prev = {}
        dq = deque()
        for r in roots:
            if r in self.edges and r not in prev:
                prev[r] = None
                dq.append(r)
        while dq:
            x = dq.popleft()
            if x == target:
                out = []
                while x is not None:
                    out.append(x)
                    x = prev[x]
                return list(reversed(out))
            for y in self.edges.get(x, {}):
                if y not in prev:
                    prev[y] = x
                    dq.append(y)
        return None

    def sccs(self, nodes=None):
        """Tarjan SCCs restricted to `nodes`; returns list of sets with size>1 or a self-loop."""
        if nodes is None:
            nodes = set(self.edges)
        index = {}
        low = {}
        onstack = set()
        stack = []
        out = []
        counter = [0]
        import sys
        sys.setrecursionlimit(10000)

        def strong(v):
            index[v] = low[v] = counter[0]
            counter[0] += 1
            stack.append(v)
            onstack.add(v)
            for w in self.edges.get(v, {}):
                if w not in nodes:
                    continue
                if w not in index:
                    strong(w)
                    low[v] = min(low[v], low[w])
                elif w in onstack:
                    low[v] = min(low[v], index[w])
            if low[v] == index[v]:
                comp = set()
                while True:
                    w = stack.pop()
                    onstack.discard(w)
                    comp.add(w)
                    if w == v:
                        break
                if len(comp) > 1 or v in self.edges.get(v, {}):
                    out.append(comp)
        for v in sorted(nodes):
            if v not in index:
                strong(v)
        return out
