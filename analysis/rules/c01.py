"""C01 — binary encoding round-trips and is the documented layout (structural clauses R01.1-R01.7)."""
import report
from rules import layout, numcodec

EXPLANATION = (
    "Static analysis of the type-checked MIR of /repo (rustc_private fact extractor) plus README.md as oracle. "
    "Decided (necessary conditions of the round trip): R01.1 the evaluated tag constants equal the hex values the README "
    "documents; R01.2 type/length masks partition the header and entry words and tags are distinct; R01.3 the encoder's "
    "Value-variant->tag table and the decoder's tag->Value-variant table are mutually inverse, decoder defaults return Err; "
    "R01.4 the number codec's width arms are an exact, lossless, shortest partition of i64/u64 (interval arithmetic over the "
    "whole type range) and the decoder table inverts it; R01.5 by path-wise ghost accounting with assume-guarantee contracts, "
    "every encoder function returns exactly the number of bytes it appended, so every back-patched entry length is the exact "
    "payload length at any nesting depth; R01.7 object keys come from BTreeMap iteration, keys phase before values phase. "
    "NOT decided: that decode(encode(v)) == v as a whole for every value (functional equivalence), string/key content equality.")


def check(ctx, run):
    run.rules_run = ['R01.1', 'R01.2', 'R01.3', 'R01.4', 'R01.5', 'R01.7', 'R01.10']
    layout.r01_1(ctx, run)
    layout.r01_2(ctx, run)
    layout.r01_3(ctx, run)
    numcodec.r18_1(ctx, run, rule='R01.4/R18.1')
    numcodec.bitlen_widths(ctx, run, 'R01.4/R18.1')
    numcodec.r18_2(ctx, run, rule='R01.4/R18.2')
    layout.r01_5(ctx, run)
    layout.r01_7(ctx, run)
    layout.r01_10(ctx, run)
    # a depth limit in the codec that counts containers instead of depth makes encodable values undecodable (R20.6)
    from rules import recursion as _rec
    _rec.depth_counter_pairing(ctx, run, 'R01.11/R20.6', only=lambda p_: p_.startswith(('de::', 'ser::')))
    from rules import units as _units
    _units.check(ctx, run, 'R01.9/R05.15', only=lambda p_: p_.startswith('de::'))
    return report.finish(run, level='other', explanation=EXPLANATION, assumptions=ASSUME)


ASSUME = ["A2: 64-bit usize; documents < 2^57 bytes; container counts < 2^29 (no wrap of offsets/lengths)",
          "A3: dev-profile semantics (overflow checks on)",
          "trusted: rustc MIR construction and type resolution; byteorder::WriteBytesExt::write_u32 appends 4 bytes; "
          "Vec::extend_from_slice appends len(slice) bytes; str::len == as_bytes().len()"]
