#!/bin/sh
# usage: tools/try_dev.sh <patch> <PID>...   — apply a patch to the scratch worktree /tmp/dev (never /repo) and run checks there
set -e
P=$1; shift
[ -d /tmp/dev ] || git -C /repo worktree add -q --detach /tmp/dev HEAD
git -C /tmp/dev checkout -q -- .
[ "$P" = "-" ] || git -C /tmp/dev apply "$P"
mkdir -p /tmp/dev_ev; for pid in "$@"; do VERIF_REPO=/tmp/dev VERIF_EVIDENCE_DIR=/tmp/dev_ev /verif/check $pid | grep -v "^KNOWN-FINDING" ; done
git -C /tmp/dev checkout -q -- .
