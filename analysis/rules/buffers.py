"""C17: functions that write into a caller's buffer only append (R17.1-R17.5)."""
from sym import Explorer, explore, show, lin, subterms
from pat import called, canon, is_call, deref_all, strip_casts, agg_variant
from mir import natural_loops, defs, Expr, callee_name, render, walk

APPEND = ('Vec::extend_from_slice', 'Vec::push', 'WriteBytesExt::write_u32', 'WriteBytesExt::write_u8', 'Write::write_all',
          'Vec::extend', 'Vec::append', 'Extend::extend', 'WriteBytesExt::write_u64', 'WriteBytesExt::write_u16', 'Write::write')
NEUTRAL = ('Vec::try_reserve', 'Vec::try_reserve_exact', 'Vec::reserve_exact', 'Vec::starts_with', 'Vec::ends_with', 'Vec::contains', 'Vec::len', 'Vec::reserve', 'Vec::capacity', 'Vec::is_empty', 'Deref::deref', 'Vec::as_slice', 'Vec::as_ptr', 'Vec::with_capacity',
           'Clone::clone', 'Vec::to_vec', 'slice::to_vec', 'Vec::iter', 'Index::index', 'AsRef::as_ref', 'Borrow::borrow', 'Vec::first', 'Vec::last', 'Vec::get')
POSITIONAL = ('IndexMut::index_mut', 'Vec::resize')
MUT_VIEWS = ('chunks_exact_mut', 'chunks_mut', 'rchunks_mut', 'rchunks_exact_mut', 'iter_mut', 'split_at_mut', 'split_first_mut', 'split_last_mut', 'first_mut', 'last_mut',
             'as_chunks_mut', 'array_chunks_mut', 'windows_mut')
FORBIDDEN_HINT = ('take', 'replace', 'clear', 'truncate', 'drain', 'insert', 'remove', 'retain', 'split_off', 'set_len', 'swap', 'as_mut_slice', 'iter_mut', 'fill',
                  'copy_within', 'sort', 'clone_into', 'clone_from', 'dedup', 'pop', 'swap_remove', 'splice', 'copy_from_slice', 'reverse', 'rotate_left')


def is_vec_u8_mut(ty):
    return ty.get('k') == 'ref' and ty.get('mut') and ty['inner'].get('s') == 'std::vec::Vec<u8>'


def buffer_roots(body):
    """Locals / access paths of a body that denote the caller's output buffer: params of type &mut Vec<u8>,
    `self.buf` of an Encoder."""
    roots = []
    for i in range(1, body.argc + 1):
        ty = body.local_ty(i)
        if is_vec_u8_mut(ty):
            roots.append(('param', i))
        elif ty.get('k') == 'ref' and ty['inner'].get('path') == 'ser::Encoder':
            roots.append(('field', i, 'buf'))
        elif ty.get('k') == 'ref' and ty.get('mut') and ty['inner'].get('s') == '[u8]':
            roots.append(('slice', i))
    return roots


def alias_of(t, roots):
    """Does a term denote (a reference to) one of the buffer roots?"""
    x = deref_all(t)
    while x[0] == 'call' and called(x[1], 'DerefMut::deref_mut', 'Deref::deref', 'Vec::as_mut_slice', 'BorrowMut::borrow_mut', 'AsMut::as_mut') and x[2]:
        x = deref_all(x[2][0])
    if x[0] == 'cast' and x[1].startswith('PointerCoercion'):
        return alias_of(x[2], roots)
    for r in roots:
        if r[0] in ('param', 'slice') and x[0] == 'init' and x[1] == r[1]:
            return r
        if r[0] == 'field' and x[0] == 'field' and x[2] == r[2] and deref_all(x[1])[0] == 'init' and deref_all(x[1])[1] == r[1]:
            return r
    return None


def held_by_helper(t, roots, stores=(), depth=0):
    """the place is reached through (a field of) the result of a crate call that received one of the buffer roots: a holder
    value (cursor / appender struct) built from the buffer by a helper.  `stores`: the local stores of the paths from the
    function entry, to look a named holder local up."""
    from pat import access_path, unwrap_ok
    r = t
    for _ in range(6):
        r, _c = unwrap_ok(deref_all(r))
        r2, st2 = access_path(r)
        if is_call(r2, 'Try::branch') and r2[2]:
            r2 = r2[2][0]
        if r2 == r:
            break
        r = r2
    r = deref_all(r)
    if r[0] in ('init', 'hav') and isinstance(r[1], int) and depth < 2:
        for stv in stores:
            v = stv.get(('L', r[1]))
            if isinstance(v, tuple) and v != r and held_by_helper(v, roots, stores, depth + 1):
                return True
        return False
    if r[0] != 'call' or not r[2]:
        return False
    return any(isinstance(a, tuple) and alias_of(a, roots) is not None for a in r[2])


class BufferAnalysis:
    def __init__(self, ctx):
        self.ctx = ctx
        self.f = ctx.facts
        self.paths = {}
        self.done = {}
        self.work = []
        self.effects = []     # (fn, kind, callee, loc, detail)
        self.positional = []  # (fn, callee, position term, path, event, roots)

    def region_paths(self, b):
        if b.path not in self.paths:
            ex = Explorer(b, max_paths=4000)
            loops = natural_loops(b)
            out = []
            for s in [0] + sorted(loops):
                out.extend(ex.explore(start=s, stop=set(loops)))
            self.paths[b.path] = out
        return self.paths[b.path]

    def analyse_entry(self, path):
        b = self.f.bodies.get(path)
        if b is None:
            return
        roots = buffer_roots(b)
        if not roots:
            return
        self.analyse(b, tuple(roots))

    def analyse(self, b, roots):
        key = (b.path, roots)
        if key in self.done:
            return
        self.done[key] = True
        for p in self.region_paths(b):
            for e in p.events:
                if e[0] != 'call':
                    continue
                name = e[1]
                hits = [(i, alias_of(a, roots)) for i, a in enumerate(e[2])]
                hits = [(i, r) for i, r in hits if r is not None]
                if not hits:
                    # the Encoder wrapper: Encoder::new(buf) creates a struct whose field is the buffer
                    continue
                t = e[5]
                loc = f"{t.get('file')}:{t.get('line')}"
                c = t['callee']
                local = c.get('resolved') if c.get('resolved_local') else (c.get('written') if c.get('local') else None)
                if local and local in self.f.bodies:
                    cb = self.f.bodies[local]
                    croots = []
                    for i, r in hits:
                        pty = cb.local_ty(i + 1) if i + 1 <= cb.argc else {}
                        if is_vec_u8_mut(pty):
                            croots.append(('param', i + 1))
                        elif pty.get('k') == 'ref' and pty.get('mut') and pty.get('inner', {}).get('s') == '[u8]':
                            croots.append(('slice', i + 1))
                        elif pty.get('k') == 'ref' and pty.get('inner', {}).get('path') == 'ser::Encoder':
                            croots.append(('field', i + 1, 'buf'))
                        elif pty.get('s') == 'std::vec::Vec<u8>' or pty.get('k') == 'param':
                            croots.append(('param', i + 1))
                    if called(name, 'Encoder::new'):
                        self.effects.append((b.path, 'wrap', name, loc, 'buffer wrapped in an Encoder'))
                        continue
                    if croots:
                        self.analyse(cb, tuple(croots))
                        self.effects.append((b.path, 'local', local, loc, ''))
                    else:
                        self.effects.append((b.path, 'read', local, loc, ''))
                    continue
                i0 = hits[0][0]
                if i0 == 0 and called(name, *APPEND):
                    self.effects.append((b.path, 'append', canon(name), loc, ''))
                elif i0 == 0 and called(name, *NEUTRAL):
                    self.effects.append((b.path, 'neutral', canon(name), loc, ''))
                elif i0 == 0 and called(name, *POSITIONAL):
                    self.effects.append((b.path, 'positional', canon(name), loc, ''))
                    self.positional.append((b, canon(name), e[2][1], p, e, roots))
                elif called(name, 'DerefMut::deref_mut', 'Vec::as_mut_slice'):
                    self.effects.append((b.path, 'neutral', canon(name), loc, ''))
                elif i0 == 0 and canon(name).split('::')[-1] in MUT_VIEWS:
                    # a mutable view (chunks, iterator, split) of buffer bytes: of the part behind a position that R17.2 checks, or of everything
                    sliced = any(s_[0] == 'call' and called(s_[1], 'IndexMut::index_mut') for s_ in subterms(e[2][0]))
                    if sliced:
                        self.effects.append((b.path, 'positional', canon(name), loc, 'a mutable view of buf[pos..], pos checked by R17.2'))
                    else:
                        self.effects.append((b.path, 'mutview', canon(name), loc, f'argument #{i0}'))
                elif called(name, 'Number::compact_encode', 'Value::write_to_vec', 'LazyValue::write_to_vec'):
                    self.effects.append((b.path, 'append', canon(name), loc, ''))
                else:
                    self.effects.append((b.path, 'forbidden', canon(name), loc, f'argument #{i0}'))
            # Encoder wrapper objects created from the buffer and then used
        # structs wrapping the buffer (Encoder::new(buf)) : methods called on the wrapper
        self.wrapper_calls(b, roots)

    def wrapper_calls(self, b, roots):
        for p in self.region_paths(b):
            for e in p.events:
                if e[0] != 'call' or not e[2]:
                    continue
                a0 = deref_all(e[2][0])
                # &mut encoder where encoder = Encoder::new(buf alias)
                if a0[0] == 'call' and called(a0[1], 'Encoder::new') and a0[2] and alias_of(a0[2][0], roots) is not None:
                    c = e[5]['callee']
                    local = c.get('resolved') if c.get('resolved_local') else None
                    if local and local in self.f.bodies:
                        self.analyse(self.f.bodies[local], (('field', 1, 'buf'),))


def len_tag(t, roots, body, depth=0):
    """Net coefficient of `|buffer|` snapshots in an integer term (None = unknown provenance)."""
    l = lin(t)
    total = 0
    for a, c in l[0].items():
        k = atom_len_tag(a, roots, body, depth)
        if k is None:
            return None
        total += k * c
    return total


LEN_FN_SUMMARY = {}


def returns_len_snapshot(fn):
    """A function of this crate that is handed the buffer and returns a position in it: on every return path the result
    carries exactly one |buffer| snapshot taken inside the function (e.g. reserve_jentries: `let at = buf.len(); resize; at`)."""
    if fn in LEN_FN_SUMMARY:
        return LEN_FN_SUMMARY[fn]
    LEN_FN_SUMMARY[fn] = False
    import sym
    fb = sym.FACTS.bodies.get(fn) if sym.FACTS is not None else None
    if fb is None or fb.local_ty(0).get('s') != 'usize':
        return False
    roots = tuple(buffer_roots(fb))
    if not roots:
        return False
    ok = False
    for q in Explorer(fb, max_paths=500).explore():
        if q.end[0] != 'return':
            continue
        if len_tag(q.ret, roots, fb, 1) != 1:
            LEN_FN_SUMMARY[fn] = False
            return False
        ok = True
    LEN_FN_SUMMARY[fn] = ok
    return ok


def atom_len_tag(a, roots, body, depth):
    if a[0] == 'call' and called(a[1], 'Vec::len', 'slice::len') and a[2] and alias_of(a[2][0], roots) is not None:
        return 1
    if a[0] == 'len' and alias_of(a[1], roots) is not None:
        return 1
    if a[0] == 'call' and a[2] and any(alias_of(x, roots) is not None for x in a[2]):
        # a local helper returning a buffer position (reserve_jentries)
        nm = a[1]
        if returns_len_snapshot(nm):
            return 1
        return None
    if a[0] in ('init', 'hav', 'deref', 'field', 'downcast', 'index', 'call', 'cast', 'bin', 'post', 'locval'):
        return 0 if not mentions_buffer(a, roots) else None
    return 0


def mentions_buffer(t, roots):
    for s in subterms(t):
        if s[0] == 'call' and s[2] and any(alias_of(x, roots) is not None for x in s[2]):
            return True
    return False


def r17_1(ctx, run, ba, rule='R17.1'):
    n = 0
    seen = set()
    for fn, kind, callee, loc, detail in ba.effects:
        k = (fn, kind, callee)
        if k in seen:
            continue
        seen.add(k)
        n += 1
        d = f'{kind}[{callee.split("::")[-2] + "::" + callee.split("::")[-1] if "::" in callee else callee}]'
        if kind == 'mutview':
            run.violation(rule, fn, d, f'`{callee}` is applied to the whole output buffer ({detail}): it hands out mutable access to the bytes that were in the buffer before the call, '
                          'counted from byte 0 rather than from where this call started to append', loc)
            continue
        if kind == 'forbidden':
            hint = ''
            last = callee.split('::')[-1]
            if any(h in last for h in FORBIDDEN_HINT):
                hint = ' (it can remove, overwrite or reorder bytes that were already in the buffer)'
            if hint:
                run.violation(rule, fn, d, f'the output buffer is passed to `{callee}` ({detail}), which is not an append-class operation{hint}', loc)
            else:
                run.undecided(rule, fn, d, f'the output buffer is passed to `{callee}` ({detail}), which this rule has no classification for (neither append-class, '
                              f'neutral, nor a known mutator of existing contents)', loc)
        else:
            run.proved(rule, fn, d, {'append': 'append-class', 'neutral': 'does not change the contents', 'positional': 'position checked by R17.2',
                                      'local': 'callee analysed with the same rule', 'wrap': 'wrapper analysed through its methods', 'read': 'read-only use'}[kind], loc)
    return n


def cursor_is_len_derived(body, local, roots, seen=None):
    """All definitions of a (loop-carried) local are a buffer-length-derived start or `local + unsigned`."""
    seen = seen or set()
    if local in seen:
        return True
    seen.add(local)
    ex = Expr(body)
    ds = defs(body).get(local, [])
    if not ds:
        return False
    ok_init = False
    for d in ds:
        if d[0] == 'arg':
            return None  # decided at the call sites
        if d[0] == 'call':
            n = callee_name(d[2])
            t = d[2]
            args = [ex.operand(a) for a in t['args']]
            if called(n, 'Vec::len') and args and expr_alias(args[0], body, roots):
                ok_init = True
                continue
            if returns_len_snapshot(n) and args and any(expr_alias(x, body, roots) for x in args):
                ok_init = True
                continue
            return False
        if d[0] == 'stmt':
            if not d[4]:
                return False
            t = ex.rvalue(d[3])
            tags = expr_len_tag(t, body, roots, local, seen)
            if tags is None:
                return False
            base, self_ref = tags
            if self_ref and base == 0:
                continue           # local = local + something without |buf|
            if not self_ref and base == 1:
                ok_init = True
                continue
            return False
    return ok_init


def expr_alias(t, body, roots):
    while t[0] in ('ref', 'deref'):
        t = t[1]
    while t[0] == 'call' and called(t[1], 'DerefMut::deref_mut', 'Deref::deref') and t[2]:
        t = t[2][0]
        while t[0] in ('ref', 'deref'):
            t = t[1]
    for r in roots:
        if r[0] in ('param', 'slice') and t[0] in ('arg', 'var') and t[1] == r[1]:
            return True
        if r[0] == 'field' and t[0] == 'field' and t[2] == r[2]:
            b = t[1]
            while b[0] in ('ref', 'deref'):
                b = b[1]
            if b[0] in ('arg', 'var') and b[1] == r[1]:
                return True
    return False


def expr_len_tag(t, body, roots, self_local, seen):
    """(net |buf| coefficient, mentions self_local) of a mir.Expr integer term; None if unknown."""
    k = t[0]
    if k == 'const':
        return (0, False)
    if k in ('var', 'arg'):
        if t[1] == self_local:
            return (0, True)
        # another local: is it itself a LEN cursor?
        r = cursor_is_len_derived(body, t[1], roots, seen) if body.local_ty(t[1]).get('k') == 'int' else False
        return (1 if r else 0, False)
    if k == 'cast':
        return expr_len_tag(t[2], body, roots, self_local, seen)
    if k == 'bin' and t[1] in ('Add', 'Sub'):
        a = expr_len_tag(t[3], body, roots, self_local, seen)
        b = expr_len_tag(t[4], body, roots, self_local, seen)
        if a is None or b is None:
            return None
        s = 1 if t[1] == 'Add' else -1
        return (a[0] + s * b[0], a[1] or b[1])
    if k == 'bin' and t[1] == 'Mul':
        a = expr_len_tag(t[3], body, roots, self_local, seen)
        b = expr_len_tag(t[4], body, roots, self_local, seen)
        if a is None or b is None or a[0] or b[0]:
            return None
        return (0, a[1] or b[1])
    if k == 'call':
        if called(t[1], 'Vec::len') and t[2] and expr_alias(t[2][0], body, roots):
            return (1, False)
        if returns_len_snapshot(t[1]) and t[2] and any(expr_alias(x, body, roots) for x in t[2]):
            return (1, False)
        for x in t[2]:
            if expr_alias(x, body, roots):
                return None
        return (0, False)
    if k in ('field', 'deref', 'downcast', 'index'):
        return (0, False)
    return (0, False)


def r17_2(ctx, run, ba, rule='R17.2', floor=5):
    """Back-patch positions are relative to a length snapshot taken inside the call."""
    n = 0
    seen = set()
    for (b, callee, pos, p, e, roots) in ba.positional:
        t = e[5]
        loc = f"{t.get('file')}:{t.get('line')}"
        # a range position `buf[a..b]` / `buf[a..]` is judged by where it starts
        pr = deref_all(pos)
        if agg_variant(pr) and pr[1][1].split('::')[-1] in ('Range', 'RangeFrom', 'RangeInclusive') and pr[2]:
            pos = pr[2][0]
        elif is_call(pr, 'RangeInclusive::new') and pr[2]:
            pos = pr[2][0]
        ok, why = position_ok(ctx, ba, b, pos, roots, p, e)
        key = (b.path, callee.split('::')[-1], ok, why)
        if key in seen:
            continue
        seen.add(key)
        n += 1
        d = f'{callee.split("::")[-1]}[{render_pos(pos)}]'
        if ok:
            run.proved(rule, b.path, d, why, loc)
        elif ok is None:
            run.undecided(rule, b.path, d, why, loc)
        else:
            run.violation(rule, b.path, d, f'the position written/resized is not derived from the buffer length observed inside the call ({why}): with bytes already in the buffer '
                          'it lands on the caller\'s data instead of the newly appended area', loc)
    if floor:
        run.floor(rule, 'positional writes into output buffers', n, floor)
    return n


def render_pos(t):
    import re
    return re.sub(r'post@\d+', 'post', show(t))[:120]


def position_ok(ctx, ba, b, pos, roots, p, e):
    l = lin(pos)
    tag = 0
    notes = []
    unknown_items = []
    for a, c in l[0].items():
        a0 = strip_casts(a)
        k = atom_len_tag(a0, roots, b, 0)
        if k == 1:
            tag += c
            notes.append('len() snapshot')
            continue
        if k is None:
            return False, f'{show(a0)[:80]} has unknown relation to the buffer'
        # a loop-carried or parameter cursor?
        base = a0
        while base[0] in ('deref', 'ref') or (base[0] == 'loc' and len(base) > 2):
            base = base[2] if base[0] == 'loc' else base[1]
        if base[0] in ('hav', 'init'):
            L = base[1]
            if L <= b.argc and base[0] == 'init' or (L <= b.argc):
                r = param_len_tag(ctx, ba, b, L)
                if r == 1:
                    tag += c
                    notes.append(f'cursor parameter `{b.name_of(L)}` (buffer-length derived at every call site)')
                    continue
                if r == 0:
                    continue
                return False, f'parameter `{b.name_of(L)}` is a buffer-length-derived cursor at some call sites but not at others'
            r = cursor_is_len_derived(b, L, roots)
            if r:
                tag += c
                notes.append(f'cursor `{b.name_of(L)}` initialised from the buffer length and only advanced')
                continue
            # plain loop index (enumerate) etc.: contributes no buffer length
            if is_small_index(b, L):
                if iterator_item_of_range(b, L):
                    unknown_items.append(f'{b.name_of(L) or L}, an item of an iterator built from a range / zip')
                continue
            return False, f'`{b.name_of(L) or L}` is not initialised from the buffer length (absolute position)'
        # an item handed out by an iterator (`(start..).step_by(4)` zipped with the data, a position yielded by an adaptor): where it starts
        # is decided where the iterator is built, which this rule does not follow
        if any(s_[0] == 'call' and canon(s_[1]).split('::')[-1] in ('next', 'nth', 'next_back') and 'Iterator' in s_[1] for s_ in subterms(a0)) and \
                any((s_[0] == 'call' and canon(s_[1]).split('::')[-1] in ('step_by', 'zip', 'scan', 'successors', 'map')) or
                    (agg_variant(s_) and s_[1][1].split('::')[-1] in ('RangeFrom', 'Range', 'RangeInclusive')) for s_ in subterms(a0)):
            unknown_items.append(show(a0)[:60])
        # other atoms (field reads, call results): no buffer length
    if tag == 1:
        return True, ' + '.join(sorted(set(notes))) + ' + offset'
    if unknown_items:
        return None, f'the position is an item yielded by an iterator ({unknown_items[0]}); whether that iterator starts at the buffer length is not decided'
    return False, f'net buffer-length coefficient is {tag}, expected 1'


def body_int_nonbuffer(b, L):
    return False


def iterator_item_of_range(b, L):
    """The local is bound from the items of an iterator whose construction involves a range or zip / step_by (`(start..).step_by(4)` zipped
    with the data): unlike an enumerate() index such an item need not count from zero."""
    ex = Expr(b, expand_named=True)
    for d in defs(b).get(L, []):
        if d[0] != 'stmt' or d[3] is None:
            continue
        try:
            t = ex.rvalue(d[3])
        except Exception:
            continue
        for s_ in walk(t):
            if s_[0] == 'call' and canon(s_[1]).split('::')[-1] in ('step_by', 'zip', 'scan', 'successors'):
                return True
            if s_[0] == 'agg' and isinstance(s_[1], tuple) and s_[1][0] == 'adt' and str(s_[1][1]).split('::')[-1] in ('RangeFrom',):
                return True
    return False


def is_small_index(b, L):
    """An enumerate()/range index local: defined from an iterator's next() payload."""
    ex = Expr(b)
    for d in defs(b).get(L, []):
        if d[0] == 'stmt' and d[3] is not None:
            t = ex.rvalue(d[3])
            if any(s[0] == 'call' and canon(s[1]).endswith('Iterator::next') for s in walk(t)):
                continue
            if t[0] == 'const':
                continue
            return False
        elif d[0] != 'stmt':
            return False
    return True


def param_len_tag(ctx, ba, b, L):
    """|buffer| coefficient carried by an integer / `&mut usize` parameter: 1 if every call site passes a
    buffer-length-derived cursor, 0 if none does, None if mixed or unknown."""
    cg = ctx.cg
    f = ctx.facts
    tags = set()
    for caller, tgts in cg.edges.items():
        if b.path not in tgts:
            continue
        cb = f.bodies[caller]
        croots = None
        for key in ba.done:
            if key[0] == caller:
                croots = key[1]
        if croots is None:
            croots = tuple(buffer_roots(cb))
        ex = Expr(cb)
        for bb, t in cb.calls():
            c = t['callee']
            r = c.get('resolved') if c.get('resolved_local') else (c.get('written') if c.get('local') else None)
            if r != b.path or L - 1 >= len(t['args']):
                continue
            a = ex.operand(t['args'][L - 1])
            while a[0] in ('ref', 'deref'):
                a = a[1]
            if a[0] in ('var', 'arg') and body_local_is_int(cb, a[1]):
                rr = cursor_is_len_derived(cb, a[1], croots)
                if rr is None:
                    rr = param_len_tag(ctx, ba, cb, a[1]) == 1
                tags.add(1 if rr else 0)
            else:
                tg = expr_len_tag(a, cb, croots, -1, set())
                tags.add(None if tg is None else (1 if tg[0] == 1 else 0 if tg[0] == 0 else None))
    if len(tags) == 1:
        return next(iter(tags))
    return None


def body_local_is_int(b, l):
    ty = b.local_ty(l)
    return ty.get('k') == 'int' or (ty.get('k') == 'ref' and ty['inner'].get('k') == 'int')


def param_cursor_ok(ctx, ba, b, L):
    """A `&mut usize` / usize cursor parameter: every call site passes a buffer-length-derived cursor."""
    cg = ctx.cg
    f = ctx.facts
    any_site = False
    for caller, tgts in cg.edges.items():
        if b.path not in tgts:
            continue
        cb = f.bodies[caller]
        croots = None
        for key in ba.done:
            if key[0] == caller:
                croots = key[1]
        if croots is None:
            return False
        ex = Expr(cb)
        for bb, t in cb.calls():
            c = t['callee']
            r = c.get('resolved') if c.get('resolved_local') else (c.get('written') if c.get('local') else None)
            if r != b.path or L - 1 >= len(t['args']):
                continue
            any_site = True
            a = ex.operand(t['args'][L - 1])
            while a[0] in ('ref', 'deref'):
                a = a[1]
            if a[0] in ('var', 'arg'):
                if not cursor_is_len_derived(cb, a[1], croots):
                    return False
            else:
                tg = expr_len_tag(a, cb, croots, -1, set())
                if tg is None or tg[0] != 1:
                    return False
    return any_site


def r17_5(ctx, run, rule='R17.5'):
    """Offsets reported by path selection are the buffer length taken after the item's bytes were appended."""
    f = ctx.facts
    n = 0
    # result writers: the functions `Selector::select` hands the output buffer to (helpers they call in turn, which only
    # append bytes, are judged through them)
    sel = f.bodies.get("jsonpath::selector::Selector::<'a>::select")
    writers = set()
    if sel is not None:
        for bb, t in sel.calls():
            cn = callee_name(t)
            cb = f.bodies.get(cn)
            if cb is not None and any(is_vec_u8_mut(cb.local_ty(i)) for i in range(1, cb.argc + 1)):
                writers.add(cn)
    if not writers:
        writers = {p for p in f.bodies if p.startswith("jsonpath::selector::Selector::<'a>::build_") and '{closure' not in p}
    for p, b in sorted(f.bodies.items()):
        if b.kind in ('Promoted', 'Closure') or '{closure' in p or p not in writers:
            continue
        roots = tuple(buffer_roots(b))
        ex = Explorer(b, max_paths=3000)
        loops = natural_loops(b)
        paths = []
        for s in [0] + sorted(loops):
            paths.extend(ex.explore(start=s, stop=set(loops)))
        pushes = 0
        bad = None
        unknown = None
        # the offsets vector: a `&mut Vec<u64>` parameter (pushes into locally built vectors are not offset reports)
        off_params = {i for i in range(1, b.argc + 1) if 'Vec<u64>' in str(b.local_ty(i).get('s', ''))}
        def is_offsets_push(e):
            if not (called(e[1], 'Vec::push') and e[2]) or alias_of(e[2][0], roots):
                return False
            if not off_params:
                return True
            r_ = deref_all(e[2][0])
            while r_[0] in ('ref', 'deref', 'loc'):
                r_ = r_[1] if r_[0] != 'loc' else r_[2] if len(r_) > 2 else r_[1]
            return r_[0] in ('init', 'hav') and r_[1] in off_params
        for q in paths:
            evs = [e for e in q.events if e[0] == 'call']
            for i, e in enumerate(evs):
                if is_offsets_push(e):
                    # pushing into `offsets`
                    val = strip_casts(e[2][1])
                    pushes += 1
                    if not (val[0] == 'call' and called(val[1], 'Vec::len') and alias_of(val[2][0], roots) is not None):
                        if val[0] == 'call' and called(val[1], 'Vec::len') and val[2] and held_by_helper(val[2][0], roots, [q_.store for q_ in paths if q_.blocks and q_.blocks[0] == 0]):
                            # the buffer was handed to a helper that returned a value holding it (a cursor / appender struct): the length of
                            # a Vec reached through that value may well be the buffer's; which Vec it is is not read here
                            unknown = (e, f'pushed value {show(val)[:80]} is the length of a buffer reached through a value that a helper built from the output buffer: '
                                          'whether that is the output buffer, taken after the item bytes, is not decided')
                            continue
                        bad = (e, f'pushed value {show(val)[:80]} is not the length of the data buffer')
                        continue
                    # no append on the buffer between the len() snapshot and the push
                    j = next((k for k, x in enumerate(evs) if x[4] == val), None)
                    if j is None:
                        continue
                    for x in evs[j + 1:i]:
                        if x[2] and alias_of(x[2][0], roots) is not None and called(x[1], *APPEND):
                            bad = (e, 'bytes are appended between taking the length and reporting it')
        # every path that appends an item and returns/loops must push an offset afterwards
        for q in paths:
            if q.end[0] not in ('return', 'backedge', 'stop'):
                continue
            evs = [e for e in q.events if e[0] == 'call']
            last_app = max([i for i, x in enumerate(evs) if x[2] and alias_of(x[2][0], roots) is not None and called(x[1], *APPEND)], default=-1)
            last_push = max([i for i, x in enumerate(evs) if is_offsets_push(x)], default=-1)
            iteration = q.end[0] in ('backedge', 'stop') and q.blocks and q.end[1] == q.blocks[0] and q.blocks[0] in loops
            if last_app >= 0 and last_push < last_app and (q.end[0] == 'return' or iteration) and not is_err_return(q):
                # build_scalar_array appends inside the loop and pushes once after it: accept when a later region pushes
                if not p.endswith('build_scalar_array') or q.end[0] == 'return':
                    bad = bad or (evs[last_app], 'a path appends item bytes and then returns / starts the next item without reporting an offset')
        n += 1
        loc = f'{b.file}:{b.line}'
        if pushes == 0:
            run.violation(rule, p, 'offsets', 'this writer appends items but never reports an offset', loc)
        elif bad:
            t = bad[0][5]
            run.violation(rule, p, 'offsets', bad[1], f"{t.get('file')}:{t.get('line')}")
        elif unknown:
            t = unknown[0][5]
            run.undecided(rule, p, 'offsets', unknown[1], f"{t.get('file')}:{t.get('line')}")
        else:
            run.proved(rule, p, 'offsets', f'{pushes} push site(s): data.len() taken after the item bytes', loc)
    run.floor(rule, 'selector result writers', n, 3)


def is_err_return(q):
    r = q.ret
    if r is None:
        return False
    return (agg_variant(r) and r[1][2] == 'Err') or is_call(r, 'FromResidual::from_residual')


DOC_ERRORS = ('InvalidJsonType', 'InvalidObject', 'ObjectDuplicateKey')


def r17_4(ctx, run, ba, entries, rule='R17.4'):
    """No documented error is returned after bytes were appended to the output buffer."""
    f = ctx.facts
    n = 0
    for key in sorted(ba.done):
        path, roots = key
        b = f.bodies[path]
        for q in ba.region_paths(b):
            if q.end[0] != 'return' or q.ret is None:
                continue
            r = q.ret
            if not (agg_variant(r) and r[1][2] == 'Err' and r[2] and agg_variant(r[2][0]) and r[2][0][1][2] in DOC_ERRORS):
                continue
            n += 1
            err = r[2][0][1][2]
            wrote = None
            for e in q.events:
                if e[0] != 'call':
                    continue
                if e[2] and any(alias_of(a, roots) is not None for a in e[2]) and not called(e[1], *NEUTRAL):
                    wrote = e
                    break
            t = b.blocks[q.end[1]]['term']
            loc = f"{b.file}:{b.line}"
            if wrote is None and q.blocks and q.blocks[0] == 0:
                run.proved(rule, path, f'Err({err})', 'returned before anything is written to the output buffer', loc)
            elif wrote is not None:
                wt = wrote[5]
                run.violation(rule, path, f'Err({err})', f'the documented error {err} is returned after `{canon(wrote[1])}` already wrote to the output buffer '
                              f'(at {wt.get("file")}:{wt.get("line")}): the caller\'s buffer is left modified', loc)
            else:
                # path starts at a loop head: writes may have happened in earlier iterations/regions
                prior = region_prefix_writes(ba, b, roots, q)
                if prior:
                    run.violation(rule, path, f'Err({err})', f'the documented error {err} is returned from inside/after a loop that appends to the output buffer', loc)
                else:
                    run.proved(rule, path, f'Err({err})', 'no write to the output buffer can precede this return', loc)
    run.floor(rule, 'returns of documented errors in buffer-writing functions', n, 6)


def region_prefix_writes(ba, b, roots, q):
    """For a path that starts at a loop head: may any append on the buffer have happened before (in earlier regions
    or iterations)?  Conservative: any append event in any region path of the function that can reach this head."""
    start = q.blocks[0] if q.blocks else 0
    from mir import reachable_from
    for other in ba.region_paths(b):
        for e in other.events:
            if e[0] == 'call' and e[2] and any(alias_of(a, roots) is not None for a in e[2]) and not called(e[1], *NEUTRAL):
                if start in reachable_from(b, e[3]):
                    return True
    return False
