#!/usr/bin/env python3
"""Compare a partial matrix run (MATRIX_PIDS) with the committed RESULTS.json for the same properties.
usage: matrix_diff.py seeds|benign <partial.json> C05,C06"""
import json, sys
kind, part, pids = sys.argv[1], json.load(open(sys.argv[2])), sys.argv[3].split(',')
full = json.load(open('/verif/%s/RESULTS.json' % ('seeded' if kind == 'seeds' else 'benign')))
n = 0
for name, r in sorted(part.items()):
    old = {p: v for p, v in full.get(name, {}).get('fired', {}).items() if p in pids}
    new = {p: v for p, v in r.get('fired', {}).items() if p in pids}
    if r.get('check_errors') or set(old) != set(new):
        n += 1
        print(name, 'was', old, 'now', new, r.get('check_errors', ''))
print('differences:', n, 'of', len(part))
