"""Pattern helpers over sym terms and paths shared by the rule modules."""
from sym import name_is, _strip_generics, lin, show, subterms


def canon(name):
    """Canonical callee name: '<T as Trait>::m' -> 'Trait::m'; 'path::<impl X for T>::m' -> 'path::m'."""
    n = name
    if n.startswith('<') and ' as ' in n:
        # find the matching '>' of the leading '<'
        depth = 0
        for i, ch in enumerate(n):
            if ch == '<':
                depth += 1
            elif ch == '>':
                depth -= 1
                if depth == 0:
                    inner = n[1:i]
                    rest = n[i + 1:]
                    # split inner on top-level ' as '
                    d = 0
                    for j in range(len(inner)):
                        c = inner[j]
                        if c == '<':
                            d += 1
                        elif c == '>':
                            d -= 1
                        elif d == 0 and inner.startswith(' as ', j):
                            trait = inner[j + 4:]
                            return _strip_generics(trait) + _strip_generics(rest)
                    break
    # 'path::<impl Trait<..> for Type>::method' -> 'Trait::method'
    i = n.find('<impl ')
    if i >= 0:
        depth = 0
        for j in range(i, len(n)):
            if n[j] == '<':
                depth += 1
            elif n[j] == '>':
                depth -= 1
                if depth == 0:
                    inner = n[i + 6:j]
                    rest = n[j + 1:]
                    d = 0
                    for k in range(len(inner)):
                        c = inner[k]
                        if c in '<[(':
                            d += 1
                        elif c in '>])':
                            d -= 1
                        elif d == 0 and inner.startswith(' for ', k):
                            return _strip_generics(inner[:k]) + _strip_generics(rest)
                    break
    return _strip_generics(n)


def self_type(name):
    """'<T as Trait>::m' -> 'T' ; otherwise None"""
    if name.startswith('<') and ' as ' in name:
        depth = 0
        for i, ch in enumerate(name):
            if ch == '<':
                depth += 1
            elif ch == '>':
                depth -= 1
            elif depth == 1 and name.startswith(' as ', i):
                return name[1:i]
    return None


CRATE_MODS = ('functions', 'util', 'de', 'ser', 'parser', 'number', 'value', 'builder', 'iterator', 'jentry', 'keypath', 'jsonpath', 'from',
              'constants', 'lazy_value', 'error', 'selector', 'path')


def local_tail(c):
    """For a crate-local path (first segment is one of the crate's modules): the path with its leading module segments removed
    ('functions::is_jsonb' -> 'is_jsonb', "jsonpath::selector::Selector::<'a>::select" -> "Selector::<'a>::select"); else None.
    A private item keeps this tail when it is moved to another module of the crate."""
    segs = c.split('::')
    if not segs or segs[0] not in CRATE_MODS:
        return None
    i = 0
    while i < len(segs) - 1 and segs[i] in CRATE_MODS:
        i += 1
    return '::'.join(segs[i:])


def called(name, *suffixes):
    c = canon(name)
    ct = None
    for s in suffixes:
        if c == s or c.endswith('::' + s):
            return True
        # the same crate-local item after a move to another module
        st = local_tail(s)
        if st is not None:
            if ct is None:
                ct = local_tail(c) or ''
            if ct and ct == st:
                return True
    return False


def is_call(t, *suffixes):
    return isinstance(t, tuple) and t and t[0] == 'call' and called(t[1], *suffixes)


def deref_all(t):
    """Strip refs/derefs/'loc' wrappers around a value term."""
    while isinstance(t, tuple) and t:
        if t[0] in ('ref', 'deref'):
            t = t[1]
        elif t[0] == 'loc' and len(t) > 2:
            t = t[2]
        else:
            break
    return t


def _is_int_tryfrom(name):
    return isinstance(name, str) and name.endswith('::try_from') and 'TryFrom<' in name and 'convert::num' in name


def _is_int_from(name):
    return isinstance(name, str) and (name.endswith('::from') or name.endswith('::into')) and 'convert::num' in name


def strip_casts(t):
    """The integer value a term denotes, looking through conversions that keep it: `as` between integer types, and the lossless /
    checked conversions `N::from(x)`, `x.into()`, `N::try_from(x).unwrap()` / `.expect(..)` / matched `Ok(v)`."""
    while isinstance(t, tuple) and t:
        if t[0] == 'cast' and t[1] in ('IntToInt',):
            t = t[2]
            continue
        if t[0] == 'call' and t[2]:
            last = t[1].rsplit('::', 1)[-1]
            a0 = t[2][0]
            while isinstance(a0, tuple) and a0 and a0[0] in ('ref', 'deref'):
                a0 = a0[1]
            if last in ('unwrap', 'expect', 'unwrap_unchecked') and isinstance(a0, tuple) and a0 and a0[0] == 'call' and _is_int_tryfrom(a0[1]) and len(a0[2]) == 1:
                t = a0[2][0]
                continue
            if _is_int_from(t[1]) and len(t[2]) == 1:
                t = t[2][0]
                continue
        if t[0] == 'field' and isinstance(t[1], tuple) and t[1] and t[1][0] == 'downcast' and t[1][2] == 'Ok' and isinstance(t[1][1], tuple) and t[1][1] and t[1][1][0] == 'call' \
                and _is_int_tryfrom(t[1][1][1]) and len(t[1][1][2]) == 1:
            t = t[1][1][2][0]
            continue
        break
    return t


def try_ok_value(t):
    """(Try::branch(X) as Continue).0  ->  X   (the value inside Ok/Some of X), else None"""
    if t[0] == 'field' and t[1][0] == 'downcast' and t[1][2] == 'Continue':
        inner = t[1][1]
        if is_call(inner, 'Try::branch'):
            return inner[2][0]
    return None


def unwrap_ok(t):
    """Follow the usual `?`/ok()/ok_or() plumbing from a value back to the fallible call that produced it:
    returns (producer_term, chain) where chain lists the adapters."""
    chain = []
    while True:
        x = try_ok_value(t)
        if x is not None:
            chain.append('?')
            t = x
            continue
        if is_call(t, 'Result::ok', 'Option::ok_or', 'Result::map_err', 'Option::ok_or_else'):
            chain.append(canon(t[1]).split('::')[-1])
            t = t[2][0]
            continue
        if t[0] == 'field' and t[1][0] == 'downcast' and t[1][2] in ('Some', 'Ok'):
            chain.append('as ' + t[1][2])
            t = t[1][1]
            continue
        return t, chain


def cond_on(path, pred):
    """Conditions of a path whose term satisfies pred."""
    return [c for c in path.conds if pred(c[0])]


def path_returns(paths):
    return [p for p in paths if p.end and p.end[0] == 'return']


def agg_variant(t):
    """('adt path', 'Variant') of an aggregate term, else None"""
    if isinstance(t, tuple) and t and t[0] == 'agg' and isinstance(t[1], tuple) and t[1][0] == 'adt':
        return (t[1][1], t[1][2])
    return None


def contains_term(t, pred):
    for s in subterms(t):
        if pred(s):
            return True
    return False


def find_terms(t, pred):
    return [s for s in subterms(t) if pred(s)]


def const_of(t):
    t = strip_casts(t)
    if t[0] == 'const':
        return t[1]
    return None


def access_path(t):
    """(root, steps): the chain of field / downcast / index projections leading from a root value (argument, local, call
    result) to the term; references and dereferences are transparent.  steps: ('f', i) | ('dc', 'Some') | ('ix', term)."""
    steps = []
    for _ in range(40):
        k = t[0]
        if k in ('ref', 'deref'):
            t = t[1]
        elif k == 'loc' and len(t) > 2:
            t = t[2]
        elif k == 'cast' and t[1] in ('PtrToPtr', 'Transmute', 'PointerCoercion(Unsize)', 'Unsize') :
            t = t[2]
        elif k == 'field':
            steps.append(('f', t[3] if len(t) > 3 else t[2]))
            t = t[1]
        elif k == 'downcast':
            steps.append(('dc', t[2]))
            t = t[1]
        elif k == 'index':
            steps.append(('ix', t[2]))
            t = t[1]
        else:
            break
    steps.reverse()
    return t, steps


def is_arg(t, n=None):
    """the term is (a reference chain to) the function argument n (any argument if n is None)"""
    r, st = access_path(t)
    return not st and r[0] == 'init' and (n is None or r[1] == n)


def slice_head(t):
    """If the term is the first element of a slice value, return that slice term: s[0], *s.first()?/unwrap,
    *s.split_first()?.0 ; else None."""
    r, st = access_path(t)
    if st and st[-1][0] == 'ix' and const_of(st[-1][1]) == 0:
        base = t
        # rebuild the base term: simplest is to return the root when the index is the only step
        if len(st) == 1:
            return r
        return None
    if r[0] == 'call' and r[2]:
        nm = canon(r[1])
        if nm.endswith('split_first') and st == [('dc', 'Some'), ('f', 0), ('f', 0)]:
            return r[2][0]
        if nm.endswith('::first') and st == [('dc', 'Some'), ('f', 0)]:
            return r[2][0]
    return None


def slice_tail1(t):
    """If the term is `s[1..]` of a slice value (s[1..], s.split_first()?.1, s.split_at(1).1), return s; else None."""
    r, st = access_path(t)
    if r[0] == 'call' and r[2]:
        nm = canon(r[1])
        if nm.endswith('split_first') and st == [('dc', 'Some'), ('f', 0), ('f', 1)]:
            return r[2][0]
        if nm.endswith('split_at') and st == [('f', 1)] and len(r[2]) > 1 and const_of(r[2][1]) == 1:
            return r[2][0]
        if nm.endswith(('Index::index', 'index::index')) and not st and len(r[2]) == 2:
            ix = deref_all(r[2][1])
            if agg_variant(ix) and ix[1][1].split('::')[-1] == 'RangeFrom' and const_of(ix[2][0]) == 1:
                return r[2][0]
    if st and st[-1][0] == 'ix' and len(st) == 1:
        ix = deref_all(st[-1][1])
        if agg_variant(ix) and ix[1][1].split('::')[-1] == 'RangeFrom' and const_of(ix[2][0]) == 1:
            return r
    return None


def as_eq(c):
    """Normalise a path condition that compares a term with an integer constant, whichever way it is written
    (`match x { K => ..}`, `if x == K`, `if x != K`): (term, K, holds) — holds=True means term == K on this path,
    False means term != K; a switch `otherwise` arm gives (term, (K1, K2, ..), False).  None for other conditions."""
    t, op, val = c[0], c[1], c[2]
    if isinstance(val, bool):
        if t[0] == 'bin' and t[1] in ('Eq', 'Ne'):
            for a, b in ((t[2], t[3]), (t[3], t[2])):
                k = const_of(b)
                if isinstance(k, int) and not isinstance(k, bool):
                    return a, k, (t[1] == 'Eq') == val
        return None
    if op == 'eq' and isinstance(val, int):
        return t, val, True
    if op == 'ne' and isinstance(val, tuple):
        return t, tuple(val), False
    return None


def _through_unwraps(t):
    """strip `?`, ok(), unwrap(), expect(), unwrap_or_default() and the Some/Ok downcasts around a value"""
    t = deref_all(strip_casts(t))
    for _ in range(8):
        x, _chain = unwrap_ok(t)
        x = deref_all(x)
        if is_call(x, 'Result::unwrap_or_default', 'Result::unwrap_or', 'Result::unwrap', 'Result::expect', 'Option::unwrap', 'Option::expect',
                   'Option::unwrap_or_default') and x[2]:
            t = deref_all(x[2][0])
            continue
        return x
    return t


def _range_of(ix):
    """(lo, hi) constants of a Range / RangeFrom / RangeTo aggregate (None for an open or non-constant end); else None"""
    ix = deref_all(ix)
    v = agg_variant(ix)
    if not v:
        return None
    k = v[0].split('::')[-1] if v[0] else ''
    k = ix[1][1].split('::')[-1]
    if k == 'Range' and len(ix[2]) == 2:
        return const_of(ix[2][0]), const_of(ix[2][1])
    if k == 'RangeFrom' and len(ix[2]) == 1:
        return const_of(ix[2][0]), None
    if k == 'RangeTo' and len(ix[2]) == 1:
        return 0, const_of(ix[2][0])
    return None


def subslice(t):
    """(S, lo, hi) when the term is the sub-slice S[lo..hi] / S[lo..] / S[..hi] of a slice value with constant bounds, however it
    is written: Index::index(S, range), (S.get(range) as Some).0, S.split_at(k).0 / .1; hi is None for an open end.  Else None."""
    t = _through_unwraps(t)
    if is_call(t, 'Index::index', 'index::index') and len(t[2]) == 2:
        r = _range_of(t[2][1])
        if r and r[0] is not None:
            return deref_all(t[2][0]), r[0], r[1]
        return None
    if is_call(t, 'slice::get') and len(t[2]) == 2:
        r = _range_of(t[2][1])
        if r and r[0] is not None:
            return deref_all(t[2][0]), r[0], r[1]
        return None
    if t[0] == 'field' and is_call(deref_all(t[1]), 'slice::split_at') and len(deref_all(t[1])[2]) == 2:
        c = deref_all(t[1])
        k = const_of(c[2][1])
        idx = t[3] if len(t) > 3 else t[2]
        if isinstance(k, int) and idx in (0, 1):
            return (deref_all(c[2][0]), 0, k) if idx == 0 else (deref_all(c[2][0]), k, None)
    return None


def word_read(t):
    """(S, o) when the term is the big-endian u32 at constant or symbolic offset o of slice S: read_u32(S, o), or
    u32::from_be_bytes(<[u8; 4]>::try_from(S[o..o+4])) in any of its spellings (through `?` / unwrap).  Else None."""
    t = _through_unwraps(t)
    if is_call(t, 'functions::read_u32', 'iterator::read_u32', 'util::read_u32', 'read_u32') and len(t[2]) == 2:
        return deref_all(t[2][0]), strip_casts(t[2][1])
    if t[0] == 'call' and canon(t[1]).endswith('from_be_bytes') and 'u32' in t[1] and t[2]:
        a = _through_unwraps(t[2][0])
        if is_call(a, 'TryInto::try_into', 'TryFrom::try_from', 'try_into', 'try_from') and a[2]:
            a = _through_unwraps(a[2][0])
        s = subslice(a)
        if s and isinstance(s[1], int) and s[2] == s[1] + 4:
            return s[0], ('const', s[1], 'usize')
    return None
