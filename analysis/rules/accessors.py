"""C05 accessor rules beyond the walker discipline: R05.4 re-wrap, R05.5 index meaning, R05.6 name lookup,
R05.7 type names, R05.8 container-descend guard."""
from sym import Explorer, explore, show, lin, lin_sub, subterms
from pat import called, canon, is_call, deref_all, strip_casts, agg_variant, const_of, unwrap_ok, local_tail
from mir import natural_loops, callee_name
from pathfacts import PathFacts, IntervalSet, INF
from rules.layout import cv

CONTAINER_TAG = 0x50000000


# ------------------------------------------------------------------ R05.4 re-wrap

def r05_4(ctx, run, rule='R05.4'):
    f = ctx.facts
    b = f.one('functions::extract_by_jentry')
    if b is None:
        run.undecided(rule, 'functions::extract_by_jentry', 'body', 'function not found (anchor lost)')
        return
    scalar_tag = cv(f, 'SCALAR_CONTAINER_TAG')
    ps, _ = explore(b)
    n = 0
    for p in ps:
        if p.end[0] != 'return':
            continue
        tc = [c for c in p.conds if c[0][0] in ('field', 'deref') and 'type_code' in show(c[0])]
        if not tc:
            continue
        n += 1
        is_container = tc[0][1] == 'eq' and tc[0][2] == cv(f, 'CONTAINER_TAG')
        loc = f'{b.file}:{b.line}'
        # appended chunks in order
        chunks = []
        for e in p.calls():
            if called(e[1], 'Vec::extend_from_slice'):
                chunks.append(deref_all(e[2][1]))
        slices = [deref_all(e[4]) for e in p.calls() if called(e[1], 'Index::index')]

        def is_payload_slice(t):
            # value[offset .. offset + jentry.length]
            if not (is_call(t, 'Index::index') and len(t[2]) == 2):
                return False
            r = deref_all(t[2][1])
            if not (agg_variant(r) and r[1][1].endswith('ops::Range') and len(r[2]) == 2):
                return False
            d = lin_sub(lin(r[2][1]), lin(r[2][0]))
            return len(d[0]) == 1 and d[1] == 0 and all(c == 1 and strip_casts(a)[0] == 'field' and strip_casts(a)[2] == 'length' for a, c in d[0].items()) \
                and deref_all(t[2][0])[0] == 'init' and r[2][0][0] == 'init'
        if is_container:
            r = deref_all(p.ret)
            ok = is_call(r, 'slice::to_vec', 'ToOwned::to_owned') and is_payload_slice(deref_all(r[2][0]))
            (run.proved if ok else run.violation)(rule, b.path, 'arm[container]', 'the nested container is copied verbatim: value[offset .. offset + length]' if ok else
                                                   f'a nested container is not returned as the exact payload slice: {show(p.ret)[:120]}', loc)
        else:
            lens = [c for c in p.conds if c[0][0] == 'bin' and 'length' in show(c[0])]
            nonempty = any(c[2] is True for c in lens) or not lens
            want = 3 if nonempty else 2
            ok = len(chunks) == want
            if ok:
                c0, c1 = chunks[0], chunks[1]
                ok = is_call(c0, 'to_be_bytes') and const_of(c0[2][0]) == scalar_tag
                ok = ok and is_call(c1, 'to_be_bytes') and c1[2][0][0] == 'init'
                if want == 3:
                    ok = ok and is_payload_slice(chunks[2])
            (run.proved if ok else run.violation)(rule, b.path, f'arm[scalar,{"payload" if nonempty else "empty"}]',
                                                   'SCALAR_CONTAINER_TAG ‖ the same entry word ‖ exactly length payload bytes' if ok else
                                                   f'a scalar is not re-wrapped as scalar header + its entry word + its payload: appended {[show(c)[:50] for c in chunks]}', loc)
    run.floor(rule, 'extract_by_jentry arms', n, 3)


# ------------------------------------------------------------------ R05.6 name lookup

def r05_6(ctx, run, rule='R05.6'):
    f = ctx.facts
    b = f.one('functions::get_jentry_by_name')
    if b is None:
        run.undecided(rule, 'functions::get_jentry_by_name', 'body', 'function not found (anchor lost)')
        return
    loops = natural_loops(b)
    heads = sorted(loops)
    ex = Explorer(b)
    # the lookup loop is the one whose body compares the name
    n = 0
    for h in heads:
        ps = ex.explore(start=h, stop=set(loops))
        if not any(is_call(c[0], 'PartialEq::eq', 'str::eq', 'traits::eq') for p in ps for c in p.conds):
            continue
        loc = f"{b.file}:{b.blocks[h]['term'].get('line')}"
        for p in ps:
            if p.end[0] == 'unreachable':
                continue
            eq = [c for c in p.conds if is_call(c[0], 'PartialEq::eq', 'str::eq', 'traits::eq')]
            ic = [c for c in p.conds if is_call(c[0], 'str::eq_ignore_ascii_case')]
            exhausted = any(c[0][0] == 'discr' and is_call(c[0][1], 'VecDeque::pop_front', 'Iterator::next') and (c[2] == 0 or (c[1] == 'ne' and 1 in c[2])) for c in p.conds)
            failed_read = any(c[0][0] == 'discr' and is_call(c[0][1], 'Try::branch') and c[2] == 1 for c in p.conds)
            leaves = p.end[0] == 'return' or (p.end[0] == 'stop' and p.end[1] != h)
            res_changed = None
            for k, v in p.store.items():
                if k[0] == 'L' and b.name_of(k[1]) == 'result':
                    res_changed = not (v[0] in ('hav', 'init'))
            n += 1
            if leaves and not exhausted and not failed_read:
                ok = any(c[2] is True for c in eq)
                if not ok:
                    conds = '; '.join(f'{show(c[0])[:60]} = {c[2]}' for c in p.conds[-3:])
                    run.violation(rule, b.path, 'early-exit', f'the key loop is left early on a path without an exact name match [{conds}]: later keys (e.g. a key matching ignoring ASCII case) are never examined', loc)
                else:
                    run.proved(rule, b.path, 'early-exit', 'only on an exact match', loc)
            if res_changed:
                exact = any(c[2] is True for c in eq)
                if not exact:
                    ok = any(c[2] is True for c in ic) and any(is_call(c[0], 'Option::is_none') and c[2] is True for c in p.conds) \
                        and any(c[0][0] in ('init', 'hav') and b.name_of(c[0][1]) and c[2] is True for c in p.conds)
                    (run.proved if ok else run.violation)(rule, b.path, 'latch', 'a case-insensitive match is recorded only in ignore-case mode and only if nothing was recorded before (first in key order wins)' if ok else
                                                           'the result is overwritten without an exact match, the ignore-case flag and the first-match latch all holding', loc)
    run.floor(rule, 'paths of the name-lookup loop', n, 5)


# ------------------------------------------------------------------ R05.8 container-descend guard

def r05_8(ctx, run, rule='R05.8'):
    """A header is read at an entry's payload offset only after the entry's type was tested to be CONTAINER_TAG."""
    f = ctx.facts
    b = f.one('functions::get_by_keypath')
    n = 0
    if b is None:
        run.undecided(rule, 'functions::get_by_keypath', 'body', 'function not found (anchor lost)')
    else:
        loops = natural_loops(b)
        ex = Explorer(b, max_paths=4000)
        for h in sorted(loops):
            for p in ex.explore(start=h, stop=set(loops)):
                for e in p.calls():
                    if not (called(e[1], 'functions::read_u32') and len(e[2]) == 2):
                        continue
                    off = e[2][1]
                    if not any(s[0] == 'hav' for s in subterms(off)):
                        continue
                    n += 1
                    conds = p.conds[:e[6]]
                    first = any(c[0][0] == 'discr' and c[0][1][0] == 'hav' and c[1] == 'eq' and c[2] == 0 for c in conds) or \
                        any(c[0][0] == 'discr' and c[0][1][0] == 'hav' and c[1] == 'ne' and 1 in c[2] for c in conds)
                    tested = False
                    for c in conds:
                        s = show(c[0])
                        if 'type_code' in s:
                            if c[0][0] == 'bin' and c[0][1] == 'Ne' and c[2] is False and any(const_of(x) == CONTAINER_TAG for x in (c[0][2], c[0][3])):
                                tested = True
                            if c[0][0] == 'bin' and c[0][1] == 'Eq' and c[2] is True and any(const_of(x) == CONTAINER_TAG for x in (c[0][2], c[0][3])):
                                tested = True
                            if c[1] == 'eq' and c[2] == CONTAINER_TAG:
                                tested = True
                    t = e[5]
                    loc = f"{t.get('file')}:{t.get('line')}"
                    if first or tested:
                        run.proved(rule, b.path, 'descend', 'root document' if first else 'previous step landed on a container entry', loc, nontrivial=tested)
                    else:
                        run.violation(rule, b.path, 'descend', 'a container header is read at the payload offset of the entry selected by the previous step without testing that '
                                      'the entry is a container: payload bytes of a scalar (or of the following sibling) are interpreted as a header', loc)
        run.floor(rule, 'header reads at a stepped offset in get_by_keypath', n, 2)
    # generic: calls that hand an entry payload to a function that starts by reading a container header
    readers = header_readers(ctx)
    m = 0
    for p, body in sorted(f.bodies.items()):
        if body.kind == 'Promoted' or not p.startswith('functions::'):
            continue
        loops = natural_loops(body)
        ex = Explorer(body, max_paths=3000)
        seen = set()
        for s0 in [0] + sorted(loops):
            for q in ex.explore(start=s0, stop=set(loops)):
                for e in q.calls():
                    c = e[5]['callee']
                    tgt = c.get('resolved') if c.get('resolved_local') else None
                    if tgt not in readers:
                        continue
                    pi = readers[tgt]
                    if pi - 1 >= len(e[2]):
                        continue
                    a = deref_all(e[2][pi - 1])
                    # the function's own document parameter (or a freshly encoded buffer) is a whole document
                    if a[0] == 'init' or is_call(a, 'Value::to_vec', 'Deref::deref', 'Vec::as_slice') or a[0] == 'post':
                        continue
                    # a sub-slice / iterator item: needs an entry-type test on the path
                    conds = q.conds[:e[6]]
                    ok = False
                    for cnd in conds:
                        s = show(cnd[0])
                        if 'type_code' in s or '.0' in s:
                            if cnd[1] == 'eq' and cnd[2] == CONTAINER_TAG:
                                ok = True
                            if cnd[0][0] == 'bin' and cnd[0][1] in ('Ne', 'Eq') and any(const_of(x) == CONTAINER_TAG for x in (cnd[0][2], cnd[0][3])):
                                if (cnd[0][1] == 'Ne') != bool(cnd[2]):
                                    ok = True
                    # filtered collections (`.filter(|e| e.type_code == CONTAINER_TAG)`) and recursion on already-checked items
                    if not ok and any(is_call(x, 'Iterator::filter', 'Iterator::collect') for x in subterms(e[2][pi - 1])):
                        ok = True
                    key = (p, tgt, ok)
                    if key in seen:
                        continue
                    seen.add(key)
                    m += 1
                    t = e[5]
                    loc = f"{t.get('file')}:{t.get('line')}"
                    d = f'descend[{tgt.split("::")[-1]}]'
                    if ok:
                        run.proved(rule, p, d, 'payload handed on only for container entries', loc)
                    else:
                        run.undecided(rule, p, d, 'an entry payload is handed to a header-reading function; no CONTAINER_TAG test is visible on this path (may be established by the caller)', loc)
    run.count('descend_call_sites', m)


def header_readers(ctx):
    """{fn: param index} for local functions whose first action on a `&[u8]` parameter is read_u32(param, 0)."""
    f = ctx.facts
    out = {}
    for p, b in f.bodies.items():
        if b.kind == 'Promoted' or not p.startswith('functions::') or b.vis == 'pub':
            continue
        for bb, t in b.calls():
            if called(t['callee'].get('resolved') or '', 'functions::read_u32') and len(t['args']) == 2:
                a0, a1 = t['args']
                if a1['k'] == 'const' and a1.get('val') == 0 and a0['k'] in ('copy', 'move'):
                    from mir import Expr
                    x = Expr(b).operand(a0)
                    while x[0] in ('ref', 'deref'):
                        x = x[1]
                    if x[0] == 'arg':
                        out[p] = x[1]
                        break
    return out


# ------------------------------------------------------------------ R05.5 negative indices

def r05_5(ctx, run, rule='R05.5'):
    """get_by_keypath (both branches): idx in [0,len) -> idx ; idx in [-len,0) -> len+idx ; otherwise no element."""
    f = ctx.facts
    b = f.one('functions::get_by_keypath')
    if b is None:
        return
    loops = natural_loops(b)
    ex = Explorer(b, max_paths=4000)
    n = 0
    for h in sorted(loops):
        for p in ex.explore(start=h, stop=set(loops)):
            for e in p.calls():
                pos = None
                if called(e[1], 'functions::get_jentry_by_index') and len(e[2]) == 4:
                    pos = e[2][3]
                    length_hint = None
                elif called(e[1], 'slice::get', 'Vec::get') and len(e[2]) == 2 and strip_casts(e[2][1])[0] != 'agg':
                    pos = e[2][1]
                if pos is None:
                    continue
                inner = strip_casts(pos)
                # which index term and which length?
                conds = p.conds[:e[6]]
                l = lin(inner)
                idx_atoms = [a for a in l[0] if 'Index' in show(a)]
                if not idx_atoms:
                    continue
                n += 1
                idx = idx_atoms[0]
                t = e[5]
                helper = [s_ for s_ in subterms(idx) if s_[0] == 'call' and local_tail(canon(s_[1])) is not None and not called(s_[1], 'Try::branch')]
                if helper:
                    # the position is the result of a helper that receives the key-path index (and the length): how it maps negative and
                    # out-of-range indices is decided inside that helper, which this rule does not read
                    run.undecided(rule, b.path, 'index[helper]', f'the element position is computed by {canon(helper[0][1]).split("::")[-1]}() from the key-path index: its case analysis is not read by this rule',
                                  f"{t.get('file')}:{t.get('line')}")
                    continue
                others = {a: c for a, c in l[0].items() if a != idx}
                pf = PathFacts(conds)
                r = pf.range_of(idx)
                t = e[5]
                loc = f"{t.get('file')}:{t.get('line')}"
                if not others and l[1] == 0 and l[0][idx] == 1:
                    ok = r.lo() >= 0
                    (run.proved if ok else run.violation)(rule, b.path, 'index[non-negative]', f'position = idx for idx in {r}' if ok else f'position = idx is used although idx may be negative ({r})', loc)
                elif len(others) == 1 and l[0][idx] == 1 and list(others.values()) == [1] and l[1] == 0:
                    ok = r.hi() < 0
                    (run.proved if ok else run.violation)(rule, b.path, 'index[negative]', f'position = len + idx for idx in {r}' if ok else f'position = len + idx is used although idx may be non-negative ({r})', loc)
                else:
                    run.violation(rule, b.path, 'index[form]', f'the element position is computed as {show(inner)[:100]}, neither idx nor len + idx', loc)
    run.floor(rule, 'index conversions in get_by_keypath', n, 4)


# ------------------------------------------------------------------ R05.7 type names

def r05_7(ctx, run, rule='R05.7'):
    f = ctx.facts
    b = f.one('functions::type_of')
    if b is None:
        run.undecided(rule, 'functions::type_of', 'body', 'function not found (anchor lost)')
        return
    ps, _ = explore(b)
    g = lambda n: cv(f, n)
    names = {n: f.consts['constants::' + n].get('str') for n in ('TYPE_NULL', 'TYPE_BOOLEAN', 'TYPE_NUMBER', 'TYPE_STRING', 'TYPE_ARRAY', 'TYPE_OBJECT')}
    want_names = {'TYPE_NULL': 'null', 'TYPE_BOOLEAN': 'boolean', 'TYPE_NUMBER': 'number', 'TYPE_STRING': 'string', 'TYPE_ARRAY': 'array', 'TYPE_OBJECT': 'object'}
    for k, v in want_names.items():
        (run.proved if names.get(k) == v else run.violation)(rule, 'constants::' + k, 'name', f'= "{v}"' if names.get(k) == v else f'type name constant is {names.get(k)!r}, documented "{v}"')
    binary = {}
    text = {}
    for p in ps:
        if p.end[0] != 'return' or not (agg_variant(p.ret) and p.ret[1][2] == 'Ok'):
            continue
        nm = deref_all(p.ret[2][0])
        nm = nm[1] if nm[0] == 'const' else show(nm)
        sniff = [c for c in p.conds if is_call(c[0], 'functions::is_jsonb')]
        if sniff and sniff[0][2] is True:
            key = []
            for c in p.conds:
                t = c[0]
                if t[0] == 'bin' and t[1] == 'BitAnd' and c[1] == 'eq':
                    key.append(('head', c[2]))
                elif 'type_code' in show(t) and c[1] == 'eq':
                    key.append(('entry', c[2]))
            binary[tuple(key)] = nm
        elif sniff:
            for c in p.conds:
                t = c[0]
                if c[1] == 'eq' and isinstance(c[2], int) and not isinstance(c[2], bool) and t[0] in ('deref', 'field', 'downcast'):
                    text[c[2]] = nm
                if t[0] == 'bin' and t[1] in ('Le', 'Ge', 'Lt', 'Gt'):
                    text.setdefault('digits', nm)
    exp_bin = {(('head', g('ARRAY_CONTAINER_TAG')),): 'array', (('head', g('OBJECT_CONTAINER_TAG')),): 'object',
               (('head', g('SCALAR_CONTAINER_TAG')), ('entry', g('NULL_TAG'))): 'null', (('head', g('SCALAR_CONTAINER_TAG')), ('entry', g('TRUE_TAG'))): 'boolean',
               (('head', g('SCALAR_CONTAINER_TAG')), ('entry', g('FALSE_TAG'))): 'boolean', (('head', g('SCALAR_CONTAINER_TAG')), ('entry', g('NUMBER_TAG'))): 'number',
               (('head', g('SCALAR_CONTAINER_TAG')), ('entry', g('STRING_TAG'))): 'string'}
    for k, v in exp_bin.items():
        got = binary.get(k)
        d = 'binary[' + ','.join(f'{a}:{b:#x}' for a, b in k) + ']'
        if got is None:
            run.undecided(rule, b.path, d, f'expected "{v}"; no return path for this header / entry kind was recognised (dispatched through a helper or a table?): not decided', f'{b.file}:{b.line}')
            continue
        (run.proved if got == v else run.violation)(rule, b.path, d, f'-> "{v}"' if got == v else f'expected "{v}", found {got!r}', f'{b.file}:{b.line}')
    exp_text = {ord('n'): 'null', ord('t'): 'boolean', ord('f'): 'boolean', ord('"'): 'string', ord('['): 'array', ord('{'): 'object', ord('-'): 'number'}
    for k, v in exp_text.items():
        got = text.get(k)
        if got is None:
            run.undecided(rule, b.path, f'text[{chr(k)!r}]', f'expected "{v}"; no return path for this first byte was recognised: not decided', f'{b.file}:{b.line}')
            continue
        (run.proved if got == v else run.violation)(rule, b.path, f'text[{chr(k)!r}]', f'-> "{v}"' if got == v else f'expected "{v}", found {got!r}', f'{b.file}:{b.line}')


# ------------------------------------------------------------------ R05.9 array elements are matched against a name only if they are strings

def upstream_string_filter(f, closure_path, STR):
    """For a closure that receives array elements: True if, wherever it is handed to an iterator adaptor in its parent function, the
    iterator it consumes was filtered by a closure that keeps only STRING_TAG entries; False if the iterator is the bare element
    iterator (nothing upstream could have tested the kind); None otherwise."""
    if '::{closure' not in closure_path:
        return None
    parent = closure_path.rsplit('::{closure', 1)[0]
    pb = f.bodies.get(parent)
    if pb is None:
        return None
    loops = natural_loops(pb)
    ex = Explorer(pb, max_paths=3000)
    verdicts = []
    for s0 in [0] + sorted(loops):
        for q in ex.explore(start=s0, stop=set(loops)):
            for e in q.calls():
                if not any(a[0] == 'agg' and isinstance(a[1], tuple) and a[1][0] == 'closure' and a[1][1] == closure_path for a in e[2]):
                    continue
                recv = e[2][0]
                calls = [x for x in subterms(recv) if x[0] == 'call']
                filt = [x for x in calls if canon(x[1]).split('::')[-1] in ('filter', 'take_while', 'skip_while', 'filter_map') and len(x[2]) == 2]
                other = [x for x in calls if canon(x[1]).split('::')[-1] not in ('filter', 'iterate_array', 'into_iter', 'iter', 'by_ref', 'enumerate', 'peekable', 'fuse')]
                good = False
                for x in filt:
                    ca = x[2][1]
                    if ca[0] == 'agg' and isinstance(ca[1], tuple) and ca[1][0] == 'closure' and canon(x[1]).endswith('filter'):
                        fb = f.bodies.get(ca[1][1])
                        if fb is not None and keeps_only_strings(fb, STR):
                            good = True
                if good:
                    verdicts.append(True)
                elif not filt and not other:
                    verdicts.append(False)
                else:
                    verdicts.append(None)
    if not verdicts:
        return None
    if all(v is True for v in verdicts):
        return True
    if any(v is False for v in verdicts):
        return False
    return None


def keeps_only_strings(fb, STR):
    """a filter closure over (JEntry, &[u8]) items that returns true only for entries whose type_code is STRING_TAG"""
    ps, _ = explore(fb)
    ok = False
    for q in ps:
        if q.end[0] != 'return':
            continue
        r = deref_all(q.ret)
        if r[0] == 'const' and r[1] is False:
            continue
        tested = any(('type_code' in show(c[0])) and ((c[1] == 'eq' and c[2] == STR) or
                     (c[0][0] == 'bin' and c[0][1] == 'Eq' and c[2] is True and any(const_of(x) == STR for x in (c[0][2], c[0][3])))) for c in q.conds)
        if r[0] == 'bin' and r[1] == 'Eq' and 'type_code' in show(r) and any(const_of(x) == STR for x in (r[2], r[3])):
            ok = True
        elif r[0] == 'const' and r[1] is True and tested:
            ok = True
        else:
            return False
    return ok


def r05_9(ctx, run, rule='R05.9'):
    """Wherever the payload of an array element (an item of the (JEntry, &[u8]) element iterator) is compared for equality
    with text that does not come from the same element, the path has established that the element's entry kind is
    STRING_TAG: a number or null whose payload bytes happen to equal the name is not the name."""
    from pat import access_path
    f = ctx.facts
    STR = cv(f, 'STRING_TAG')
    n = 0

    def elem_root(t, b):
        """the (JEntry, &[u8]) tuple a term is the payload component of, or None"""
        r, st = access_path(t)
        if not st or st[-1] != ('f', 1):
            return None
        if r[0] == 'init' and '(jentry::JEntry, &[u8])' in str(b.local_ty(r[1]).get('s', '')):
            return ('param', r[1])
        if r[0] == 'call' and canon(r[1]).endswith('Iterator::next') and 'ArrayIterator' in r[1]:
            return ('next', r[3] if len(r) > 3 else None)
        return None

    for p, b in sorted(f.bodies.items()):
        if b.kind == 'Promoted' or not p.startswith('functions::'):
            continue
        if not any('(jentry::JEntry, &[u8])' in str(l['ty'].get('s', '')) for l in b.locals):
            continue
        loops = natural_loops(b)
        ex = Explorer(b, max_paths=3000)
        paths = []
        for s0 in [0] + sorted(loops):
            paths.extend(ex.explore(start=s0, stop=set(loops)))
        sites = {}
        for q in paths:
            for e in q.calls():
                if not (canon(e[1]).endswith(('PartialEq::eq', 'PartialEq::ne', 'SlicePartialEq::equal', 'str::eq')) and len(e[2]) == 2):
                    continue
                roots = []
                for a in e[2]:
                    found = None
                    for s_ in subterms(a):
                        er = elem_root(s_, b)
                        if er is not None:
                            found = er
                            break
                    roots.append(found)
                if (roots[0] is None) == (roots[1] is None):
                    continue      # neither side, or both sides, come from an element
                t = e[5]
                key = f"{t.get('file')}:{t.get('line')}"
                ok = False
                for c in q.conds[:e[6]]:
                    tt = c[0]
                    sh = show(tt)
                    if 'type_code' in sh or (tt[0] == 'field' and tt[3] == 0):
                        if (c[1] == 'eq' and c[2] == STR) or (tt[0] == 'bin' and tt[1] in ('Ne', 'Eq') and False):
                            ok = True
                    if tt[0] == 'bin' and tt[1] in ('Eq', 'Ne') and ('type_code' in sh) and any(const_of(x) == STR for x in (tt[2], tt[3])):
                        if (tt[1] == 'Eq') == bool(c[2]):
                            ok = True
                    # the element's kind was compared equal with the kind of the other operand's own entry: a comparison of two values of one
                    # kind (containment, set membership), not a lookup of a name
                    if tt[0] == 'bin' and tt[1] in ('Eq', 'Ne') and isinstance(c[2], bool) and 'type_code' in show(tt[2]) and 'type_code' in show(tt[3]) and (tt[1] == 'Eq') == c[2]:
                        ok = True
                    # the element's whole entry word (kind and length) was compared equal with the other operand's entry
                    if tt[0] == 'call' and c[2] is True and canon(tt[1]).split('::')[-1] == 'eq' and 'JEntry' in tt[1]:
                        ok = True
                is_param = any(r_ is not None and r_[0] == 'param' for r_ in roots)
                if not ok and is_param:
                    # the element is handed in by the caller (a closure of an iterator chain, a helper): its kind may have been tested there
                    ok = upstream_string_filter(f, p, STR)
                d = sites.setdefault(key, True)
                sites[key] = False if (d is False or ok is False) else (None if (d is None or ok is None) else True)
        for key, ok in sorted(sites.items()):
            n += 1
            if ok is None:
                run.undecided(rule, p, 'element-vs-name', 'an element passed in as a parameter (closure of an iterator chain, helper) is compared with a name; whether its entry kind was tested to be '
                              'STRING_TAG before it got here (a preceding filter) is not decided', key)
                continue
            (run.proved if ok else run.violation)(rule, p, 'element-vs-name', 'the element is known to be a string on every path to the comparison' if ok else
                                                   'the payload bytes of an array element are compared with a name without first checking that the element is a string '
                                                   '(entry kind STRING_TAG): a null, boolean or number element whose payload equals the name counts as a match', key)
    if n == 0:
        run.undecided(rule, 'functions::*', 'element-vs-name', 'no comparison of an array element payload with a name was found: not decided')


# ------------------------------------------------------------------ name steps: Name and QuotedName are the same step

def name_variants_alike(ctx, run, rule, only):
    """A key-path element `Name(..)` and its quoted spelling `QuotedName(..)` select the same member: in every function that
    branches on the element kind, the two variants lead to the same calls and the same kind of outcome."""
    f = ctx.facts
    ad = f.adts.get('keypath::KeyPath', {})
    vs = [v['name'] for v in ad.get('variants', [])]
    if 'Name' not in vs or 'QuotedName' not in vs:
        run.undecided(rule, 'keypath::KeyPath', 'variants', 'KeyPath::Name / QuotedName not found (anchor lost)')
        return
    ni, qi = vs.index('Name'), vs.index('QuotedName')
    n = 0
    for p, b in sorted(f.bodies.items()):
        if b.kind == 'Promoted' or not only(p):
            continue
        if not any('keypath::KeyPath' in str(l['ty'].get('s', '')) for l in b.locals):
            continue
        # blocks that switch on the discriminant of a KeyPath value (read from the type-checked MIR, not guessed from terms)
        import re as _re
        kp_discr = set()
        for blk in b.blocks:
            for st_ in blk['stmts']:
                if st_['k'] == 'assign' and st_['rv']['k'] == 'discr' and not st_['place'].get('proj'):
                    pl = st_['rv']['place']
                    ty_ = _re.sub(r"^(&('\w+ )?(mut )?)+", '', str(b.local_ty(pl['local']).get('s', '')))
                    if ty_.startswith('keypath::KeyPath') and all(e_['k'] == 'deref' for e_ in pl.get('proj', [])):
                        kp_discr.add(st_['place']['local'])
        kp_blocks = {blk['id'] for blk in b.blocks if blk['term']['k'] == 'switch' and blk['term']['discr']['k'] in ('copy', 'move')
                     and blk['term']['discr']['place']['local'] in kp_discr}
        if not kp_blocks:
            continue
        loops = natural_loops(b)
        ex = Explorer(b, max_paths=4000)
        sig = {ni: set(), qi: set()}
        for s0 in [0] + sorted(loops):
            for q in ex.explore(start=s0, stop=set(loops)):
                var = None
                for c in q.conds:
                    t = c[0]
                    if t[0] == 'discr' and c[1] == 'eq' and c[2] in (ni, qi) and len(c) > 3 and c[3] in kp_blocks:
                        var = c[2]
                if var is None:
                    continue
                calls = tuple(sorted({canon(e[1]).split('::')[-1] for e in q.calls() if e[1] in f.bodies}))
                end = q.end[0]
                if q.end[0] == 'return' and q.ret is not None:
                    r = deref_all(q.ret)
                    end = 'return:' + (r[1][2] if agg_variant(r) else r[0])
                sig[var].add((calls, end))
        if not sig[ni] and not sig[qi]:
            continue
        n += 1
        loc = f'{b.file}:{b.line}'
        if sig[ni] == sig[qi]:
            run.proved(rule, p, 'name-variants', f'Name and QuotedName take the same {len(sig[ni])} path class(es)', loc)
        elif not sig[ni] or not sig[qi]:
            missing = 'QuotedName' if not sig[qi] else 'Name'
            run.violation(rule, p, 'name-variants', f'only one spelling of a name step is handled here: {missing} falls into the catch-all arm, so a quoted key (e.g. {{"1"}} or {{"a b"}}) '
                          'is treated differently from the same key unquoted (silently ignored or rejected)', loc)
        else:
            only_n = sorted(sig[ni] - sig[qi])[:1]
            only_q = sorted(sig[qi] - sig[ni])[:1]
            run.violation(rule, p, 'name-variants', f'Name and QuotedName are handled differently: Name-only {only_n}, QuotedName-only {only_q}', loc)
    if n == 0:
        run.undecided(rule, 'functions::*', 'name-variants', 'no function branching on the kind of a key-path element was found: not decided')


# ------------------------------------------------------------------ R05.17 a search over array elements looks at every element

TRUNCATING = ('map_while', 'take_while')
SEARCHES = ('any', 'all', 'find', 'find_map', 'position', 'count', 'sum', 'collect', 'fold', 'max', 'min', 'last', 'for_each', 'try_for_each', 'try_fold')


def r05_17(ctx, run, rule='R05.17', only=None):
    """The elements of an array are in no particular order, so a search through `iterate_array(..)` (any / find / position / collect ..)
    must not sit behind an adaptor that *ends* the iteration at the first element failing a test (`map_while`, `take_while`): a matching
    element after the first non-matching one would never be examined.  (`filter` / `filter_map` skip an element and go on.)"""
    f = ctx.facts
    n = 0
    bad = []
    for p, b in sorted(f.bodies.items()):
        if b.kind == 'Promoted' or not p.startswith(('functions::', 'jsonpath::selector')) or (only is not None and not only(p)):
            continue
        if not any(called(callee_name(t), 'iterator::iterate_array') for _, t in b.calls()):
            continue
        loops = natural_loops(b)
        ex = Explorer(b, max_paths=3000)
        seen = set()
        for s0 in [0] + sorted(loops):
            for q in ex.explore(start=s0, stop=set(loops)):
                for e in q.calls():
                    last = canon(e[1]).split('::')[-1]
                    if last not in SEARCHES and not (last == 'next' and 'Iterator' in e[1]) or not e[2]:
                        continue
                    chain = [canon(x[1]).split('::')[-1] for x in subterms(e[2][0]) if x[0] == 'call']
                    if 'iterate_array' not in chain:
                        continue
                    key = (e[5].get('line'), last)
                    if key in seen:
                        continue
                    seen.add(key)
                    n += 1
                    tr = [c for c in chain if c in TRUNCATING]
                    if tr:
                        bad.append((p, f"{e[5].get('file')}:{e[5].get('line')}", tr[0], last))
    for p, loc, tr, last in bad:
        run.violation(rule, p, f'truncated-search[{tr}]', f'`{last}` runs over iterate_array(..) behind `{tr}`, which ends the iteration at the first element that fails its test: array elements '
                      'are unordered, so a matching element after a non-matching one is never looked at', loc)
    if not bad:
        run.proved(rule, '<crate>', 'truncated-search', f'{n} consumer(s) of iterate_array(..) chains examined: none sits behind map_while / take_while', nontrivial=bool(n))
