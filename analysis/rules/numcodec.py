"""Number codec and ordering rules (R18.x), shared by C01, C04, C12, C14, C18."""
from sym import explore, show, lin, subterms, INT_RANGES
from pat import slice_head, slice_tail1, is_arg, called, canon, is_call, agg_variant, strip_casts, const_of, deref_all, find_terms
from pathfacts import PathFacts, IntervalSet, INF
from rules.layout import cv

NUM = 'number::Number'


def is_residual(ret):
    return is_call(ret, 'FromResidual::from_residual')


def variant_of_path(p):
    for c in p.conds:
        if c[0][0] == 'discr' and c[1] == 'eq':
            return c[2]
    return None


def payload_value_atom(p):
    """The term standing for the matched integer/float payload `*v` in compact_encode paths."""
    for c in p.conds:
        for s in subterms(c[0]):
            if s[0] == 'field' and s[1][0] == 'downcast':
                return s
    return None


def written_chunks(p):
    """Arguments of the successive write_all calls of a path, as terms with refs stripped."""
    out = []
    for e in p.calls():
        if called(e[1], 'Write::write_all'):
            out.append(deref_all(e[2][1]))
    return out


def chunk_desc(t, facts):
    """Describe one written chunk: ('bytes', (b,...)) | ('be', tyname, source term) | ('?', term)"""
    t = deref_all(t)
    if t[0] == 'const' and isinstance(t[1], tuple):
        return ('bytes', tuple(t[1]))
    if t[0] == 'agg' and t[1] == 'array':
        vals = [const_of(x) for x in t[2]]
        if all(v is not None for v in vals):
            return ('bytes', tuple(vals))
    if t[0] == 'call' and canon(t[1]).endswith('to_be_bytes'):
        # callee path: core::num::<impl i8>::to_be_bytes / core::f64::<impl f64>::to_be_bytes
        import re
        m = re.search(r'impl (\w+)>::to_be_bytes', t[1])
        ty = m.group(1) if m else '?'
        return ('be', ty, deref_all(t[2][0]))
    return ('?', t)


WIDTH = {'i8': 1, 'i16': 2, 'i32': 4, 'i64': 8, 'u8': 1, 'u16': 2, 'u32': 4, 'u64': 8, 'f64': 8}


class _Soft:
    """Collects verdicts of a table rule; when the code is not fully in the shape the rule reads, violations that rest on
    the reading (missing arms, coverage, shapes) are reported as undecided instead."""

    def __init__(self, run):
        self.run = run
        self.items = []
        self.unread = []

    def proved(self, *a, **k):
        self.items.append(('proved', a, k, True))

    def undecided(self, *a, **k):
        self.items.append(('undecided', a, k, True))

    def violation(self, *a, hard=False, **k):
        self.items.append(('violation', a, k, hard))

    def floor(self, *a, **k):
        return self.run.floor(*a, **k)

    def flush(self):
        for kind, a, k, hard in self.items:
            if kind == 'violation' and self.unread and not hard:
                a = list(a)
                if len(a) > 3:
                    a[3] = f'not decided, because part of this function is not in a shape the rule reads ({self.unread[0]}); on a full reading this would be: ' + str(a[3])
                self.run.undecided(*a, **k)
            else:
                getattr(self.run, kind)(*a, **k)


def r18_1(ctx, run, rule='R18.1'):
    """Encoder: exact, lossless, shortest partition of the value range; tag bytes; returned count = bytes written."""
    real_run = run
    run = _Soft(real_run)
    try:
        return _r18_1(ctx, run, rule)
    finally:
        run.flush()


def _r18_1(ctx, run, rule='R18.1'):
    f = ctx.facts
    b = f.one('number::Number::compact_encode')
    if b is None:
        run.undecided(rule, 'number::Number::compact_encode', 'body', 'function not found (anchor lost)')
        return {}
    ps, capped = explore(b, max_paths=4000)
    if capped:
        run.undecided(rule, b.path, 'paths', 'path cap exceeded')
    vs = [v['name'] for v in f.adts[NUM]['variants']]
    tags = {n: cv(f, n) for n in ('NUMBER_ZERO', 'NUMBER_NAN', 'NUMBER_INF', 'NUMBER_NEG_INF', 'NUMBER_INT', 'NUMBER_UINT', 'NUMBER_FLOAT')}
    table = {}   # (variant, ty) -> tag   (for the decoder inverse)
    covered = {'Int64': IntervalSet([]), 'UInt64': IntervalSet([])}
    npaths = 0
    for p in ps:
        if p.end[0] != 'return' or is_residual(p.ret):
            continue
        vi = variant_of_path(p)
        if vi is None or vi >= len(vs):
            continue
        vname = vs[vi]
        chunks = [chunk_desc(c, f) for c in written_chunks(p)]
        nbytes = 0
        okshape = True
        for c in chunks:
            if c[0] == 'bytes':
                nbytes += len(c[1])
            elif c[0] == 'be':
                nbytes += WIDTH.get(c[1], 0)
            else:
                okshape = False
        ret = p.ret
        rc = None
        if agg_variant(ret) and ret[1][2] == 'Ok':
            rc = const_of(ret[2][0])
        loc = f"{b.file}:{b.blocks[p.end[1]]['term'].get('line')}"
        npaths += 1
        desc_key = None
        atom0 = payload_value_atom(p)
        # the value's range on this path must come from plain comparisons: a test through a call (try_from, leading_zeros ...) is not read
        if atom0 is not None and any(c[0][0] != 'discr' and isinstance(c[2], bool) and any(s_[0] == 'call' and not canon(s_[1]).endswith(('::into', '::from', '::unsigned_abs', '::abs', '::is_nan', '::is_infinite', '::is_finite', '::is_sign_negative', '::is_sign_positive')) and any(x == atom0 or deref_all(x) == atom0 for x in subterms(s_))
                                                                   for s_ in subterms(c[0])) for c in p.conds):
            run.unread.append(f'the value is classified through a call on the path to {loc}')
        local_writer = [e for e in p.calls() if e[1] in f.bodies and not called(e[1], 'Write::write_all')]
        if local_writer and (not chunks or rc is None):
            run.unread.append(f'bytes are written through {canon(local_writer[0][1]).split("::")[-1]}()')
            continue
        if not okshape:
            run.unread.append('a written chunk is neither constant bytes nor to_be_bytes of a value')
            run.violation(rule, b.path, f'path[{vname}]/shape', f'bytes written are not constant tag bytes / to_be_bytes: {[show(c[1]) if c[0]=="?" else c for c in chunks]}', loc)
            continue
        if rc != nbytes:
            run.violation(rule, b.path, f'path[{vname}]/count', f'returns Ok({rc}) but writes {nbytes} byte(s) on this path', loc)
        if vname in ('Int64', 'UInt64'):
            ty64 = 'i64' if vname == 'Int64' else 'u64'
            atom = payload_value_atom(p)
            pf = PathFacts(p.conds)
            rng = (pf.range_of(atom) if atom is not None else IntervalSet()).intersect(IntervalSet.of_type(ty64))
            if rng.empty():
                continue
            covered[vname] = covered[vname].union(rng)
            tagb = chunks[0][1][0] if chunks and chunks[0][0] == 'bytes' and len(chunks[0][1]) == 1 else None
            if len(chunks) == 1:
                # one-byte form: only the value zero
                ok = tagb == tags['NUMBER_ZERO'] and rng == IntervalSet([(0, 0)])
                (run.proved if ok else run.violation)(rule, b.path, f'arm[{vname} zero]',
                                                       f'{rng} -> [NUMBER_ZERO]' if ok else f'values {rng} are written as the single byte {tagb}: only 0 may use the one-byte form', loc)
                table[(vname, 'zero')] = tagb
                continue
            exp_tag = tags['NUMBER_INT'] if vname == 'Int64' else tags['NUMBER_UINT']
            if tagb != exp_tag:
                run.violation(rule, b.path, f'arm[{vname}]/tag', f'tag byte {tagb} for {vname}, expected {exp_tag:#x}', loc)
            if len(chunks) != 2 or chunks[1][0] != 'be':
                run.violation(rule, b.path, f'arm[{vname}]/payload', f'payload is not one big-endian integer: {chunks}', loc)
                continue
            ty = chunks[1][1]
            src = chunks[1][2]
            signed_ok = ty.startswith('i') == (vname == 'Int64')
            tr = IntervalSet.of_type(ty)
            narrower = {'i16': 'i8', 'i32': 'i16', 'i64': 'i32', 'u16': 'u8', 'u32': 'u16', 'u64': 'u32'}.get(ty)
            lossless = rng.subset_of(tr)
            shortest = True
            if narrower:
                shortest = rng.intersect(IntervalSet.of_type(narrower)).empty()
            else:
                shortest = True
            # 0 must not take a multi-byte form
            nozero = rng.intersect(IntervalSet([(0, 0)])).empty()
            # the source of the cast must be the matched value itself
            srcv = strip_casts(src)
            # `N::try_from(v)` matched as Ok(x): x is v itself (in the narrower type)
            sv_ = deref_all(srcv)
            if sv_[0] == 'field' and sv_[1][0] == 'downcast' and sv_[1][2] == 'Ok' and sv_[1][1][0] == 'call' and sv_[1][1][1].endswith('::try_from') and 'TryFrom<' in sv_[1][1][1] \
                    and len(sv_[1][1][2]) == 1:
                srcv = strip_casts(deref_all(sv_[1][1][2][0]))
            same = atom is not None and (srcv == atom or deref_all(srcv) == atom)
            ok = signed_ok and lossless and shortest and nozero and same
            msg = f'values {rng} -> tag {tagb:#x} + {ty} big-endian ({WIDTH[ty]} bytes)'
            if ok:
                run.proved(rule, b.path, f'arm[{vname} as {ty}]', msg, loc)
            else:
                why = []
                if not signed_ok:
                    why.append('signedness of the narrow type differs from the variant')
                if not lossless:
                    why.append(f'cast to {ty} loses values outside {tr}')
                if not shortest:
                    why.append(f'values fitting {narrower} are written in {WIDTH[ty]} bytes (not the shortest form)')
                if not nozero:
                    why.append('zero takes a multi-byte form')
                if not same:
                    why.append(f'payload written is {show(src)}, not the value itself')
                run.violation(rule, b.path, f'arm[{vname} as {ty}]', msg + ': ' + '; '.join(why), loc)
            table[(vname, ty)] = tagb
        elif vname == 'Float64':
            # classify by the float predicates tested on the path
            preds = {}
            extra = []
            for c in p.conds:
                t = c[0]
                if t[0] == 'call' and called(t[1], 'f64::is_nan', 'f64::is_infinite', 'f64::is_sign_negative', 'f64::is_finite', 'f64::is_sign_positive'):
                    preds[canon(t[1]).split('::')[-1]] = c[2]
                elif t[0] == 'discr':
                    continue
                elif is_call(t, 'Try::branch') or (t[0] == 'discr'):
                    continue
                else:
                    # any other test of the float value (e.g. `v == 0.0`) splits the finite class
                    if any(s[0] == 'downcast' and s[2] == 'Float64' for s in subterms(t)):
                        extra.append(c)
            # the float classes the predicates tested on this path leave possible
            ALL = {'nan+', 'nan-', 'inf+', 'inf-', 'fin+', 'fin-'}
            SETS = {'is_nan': {'nan+', 'nan-'}, 'is_infinite': {'inf+', 'inf-'}, 'is_finite': {'fin+', 'fin-'},
                    'is_sign_negative': {'nan-', 'inf-', 'fin-'}, 'is_sign_positive': {'nan+', 'inf+', 'fin+'}}
            S = set(ALL)
            for pn, pv in preds.items():
                S &= SETS[pn] if pv else (ALL - SETS[pn])
            cls = None
            if preds and S:
                if S <= {'nan+', 'nan-'}:
                    cls = 'nan'
                elif S <= {'inf+'}:
                    cls = 'inf'
                elif S <= {'inf-'}:
                    cls = 'neg_inf'
                elif S <= {'fin+', 'fin-'}:
                    cls = 'finite'
            exp = {'nan': [('bytes', (tags['NUMBER_NAN'],))], 'inf': [('bytes', (tags['NUMBER_INF'],))],
                   'neg_inf': [('bytes', (tags['NUMBER_NEG_INF'],))]}
            if cls in exp:
                ok = chunks == exp[cls]
                (run.proved if ok else run.violation)(rule, b.path, f'arm[Float64 {cls}]', 'one-byte form' if ok else f'{cls} is written as {chunks}', loc)
                table[('Float64', cls)] = chunks[0][1][0] if chunks and chunks[0][0] == 'bytes' else None
            elif cls == 'finite':
                ok = (len(chunks) == 2 and chunks[0] == ('bytes', (tags['NUMBER_FLOAT'],)) and chunks[1][0] == 'be' and chunks[1][1] == 'f64'
                      and any(s[0] == 'downcast' and s[2] == 'Float64' for s in subterms(chunks[1][2])))
                if extra:
                    ok2 = ok
                    conds = '; '.join(f'{show(c[0])} = {c[2]}' for c in extra)
                    if not ok2:
                        run.violation(rule, b.path, 'arm[Float64 finite]/split', f'finite floats satisfying [{conds}] are written as {chunks} instead of NUMBER_FLOAT + 8 bytes: the float does not survive bit-for-bit', loc)
                    else:
                        run.proved(rule, b.path, 'arm[Float64 finite]/split', f'extra test [{conds}] does not change the encoding', loc)
                else:
                    (run.proved if ok else run.violation)(rule, b.path, 'arm[Float64 finite]', 'NUMBER_FLOAT + f64 big-endian (9 bytes)' if ok else f'finite floats are written as {chunks}', loc)
                table[('Float64', 'f64')] = tags['NUMBER_FLOAT']
            elif (len(chunks) == 2 and chunks[0] == ('bytes', (tags['NUMBER_FLOAT'],)) and chunks[1][0] == 'be' and chunks[1][1] == 'f64'
                  and any(s[0] == 'downcast' and s[2] == 'Float64' for s in subterms(chunks[1][2]))):
                # the general form is right for every float, whatever was tested before
                run.proved(rule, b.path, 'arm[Float64 general]', 'NUMBER_FLOAT + f64 big-endian (9 bytes)', loc)
                table[('Float64', 'f64')] = tags['NUMBER_FLOAT']
            elif (preds or extra) and not (chunks and chunks[0][0] == 'bytes' and len(chunks) == 1 and chunks[0][1] in
                                           ((tags['NUMBER_NAN'],), (tags['NUMBER_INF'],), (tags['NUMBER_NEG_INF'],))):
                conds = '; '.join(f'{show(c[0])} = {c[2]}' for c in extra) or str(preds)
                run.violation(rule, b.path, 'arm[Float64 short-form]', f'floats satisfying [{conds}] are written as {chunks}: a float may only be written as NUMBER_NAN, NUMBER_INF, NUMBER_NEG_INF '
                              f'or NUMBER_FLOAT + its 8 bytes; any other form does not decode to the same float (variant, sign of zero, bits)', loc, hard=True)
            elif preds and not extra and S and chunks and chunks[0][0] == 'bytes' and len(chunks) == 1 and chunks[0][1] in ((tags['NUMBER_NAN'],), (tags['NUMBER_INF'],), (tags['NUMBER_NEG_INF'],)):
                # a one-byte form chosen for a set of float classes wider than the one the tag stands for
                tagname = {tags['NUMBER_NAN']: 'NUMBER_NAN', tags['NUMBER_INF']: 'NUMBER_INF', tags['NUMBER_NEG_INF']: 'NUMBER_NEG_INF'}[chunks[0][1][0]]
                allowed = {'NUMBER_NAN': {'nan+', 'nan-'}, 'NUMBER_INF': {'inf+'}, 'NUMBER_NEG_INF': {'inf-'}}[tagname]
                names = {'nan+': 'NaN', 'nan-': 'NaN with the sign bit set', 'inf+': '+infinity', 'inf-': '-infinity', 'fin+': 'finite non-negative floats', 'fin-': 'finite negative floats'}
                extra_cls = sorted(S - allowed)
                run.violation(rule, b.path, f'arm[Float64 {tagname}]', f'the tests on this path ({preds}) leave {", ".join(names[x] for x in sorted(S))} possible and all of them are written as {tagname}: '
                              f'{", ".join(names[x] for x in extra_cls)} would decode as a different number', loc, hard=True)
            elif preds or extra:
                conds = '; '.join(f'{show(c[0])} = {c[2]}' for c in extra) or str(preds)
                run.undecided(rule, b.path, 'arm[Float64 unclassified]', f'floats satisfying [{conds}] are written as {chunks}; the tests on this path do not classify the float as nan / infinite / finite '
                              f'in a form this rule reads, so whether the short form is justified is not decided', loc)
                if chunks and chunks[0][0] == 'bytes' and len(chunks) == 1:
                    for cn, tg in (('nan', tags['NUMBER_NAN']), ('inf', tags['NUMBER_INF']), ('neg_inf', tags['NUMBER_NEG_INF'])):
                        if chunks[0][1] == (tg,):
                            table.setdefault(('Float64', cn), tg)
            else:
                conds = '; '.join(f'{show(c[0])} = {c[2]}' for c in extra) or str(preds)
                run.violation(rule, b.path, 'arm[Float64 unclassified]', f'floats satisfying [{conds}] are written as {chunks} on a path that never established nan / infinite / finite: '
                              f'only NaN and the infinities may use a one-byte form, every other float must be NUMBER_FLOAT + its 8 bytes', loc)
    for vname, ty64 in (('Int64', 'i64'), ('UInt64', 'u64')):
        full = IntervalSet.of_type(ty64)
        if covered[vname] == full:
            run.proved(rule, b.path, f'coverage[{vname}]', f'the width arms partition all of {ty64}')
        elif covered[vname].empty():
            run.undecided(rule, b.path, f'coverage[{vname}]', f'no width arm for {vname} was recognised in this function (the form is chosen in a helper?): coverage of {ty64} is not decided', f'{b.file}:{b.line}')
        else:
            missing = full.intersect(covered[vname].complement())
            run.violation(rule, b.path, f'coverage[{vname}]', f'no arm encodes the values {missing}', f'{b.file}:{b.line}')
    for need in (('Int64', 'i8'), ('Int64', 'i16'), ('Int64', 'i32'), ('Int64', 'i64'), ('UInt64', 'u8'), ('UInt64', 'u16'), ('UInt64', 'u32'), ('UInt64', 'u64'),
                 ('Float64', 'f64'), ('Float64', 'nan'), ('Float64', 'inf'), ('Float64', 'neg_inf')):
        if need not in table:
            run.undecided(rule, b.path, f'arm[{need[0]} as {need[1]}]', 'this width/class arm was not recognised among the success paths (anchor lost): how such values are written is not decided here '
                          '(a wrong form on a recognised path is reported separately)', f'{b.file}:{b.line}')
    run.floor(rule, 'compact_encode success paths', npaths, 14)
    return table


def _decode_result(p):
    """classify what a return path of Number::decode yields: ('Err',) | ('be', variant, source int/float type) | ('const', variant, value)
    | ('?', variant, text) | None"""
    import re
    ret = p.ret
    res = None
    if agg_variant(ret) and ret[1][2] == 'Err':
        res = ('Err',)
    elif agg_variant(ret) and ret[1][2] == 'Ok':
        v = ret[2][0]
        if agg_variant(v) and v[1][1] == NUM:
            inner = v[2][0]
            src = strip_casts(inner)
            if src[0] == 'call' and canon(src[1]).endswith('from_be_bytes'):
                m = re.search(r'impl (\w+)>::from_be_bytes', src[1])
                res = ('be', v[1][2], m.group(1) if m else '?')
            elif inner[0] == 'const':
                res = ('const', v[1][2], inner[1])
            elif deref_all(src)[0] == 'index' and const_of(deref_all(src)[2]) == 1 and is_arg(deref_all(src)[1], 1):
                # the one payload byte itself, widened: u64::from(bytes[1]) is u8::from_be_bytes([bytes[1]]); `bytes[1] as i8 as i64` the i8 form
                t_ = deref_all(inner)
                first_cast = None
                while True:
                    if t_[0] == 'cast' and t_[1] == 'IntToInt':
                        first_cast = t_[3]
                        t_ = deref_all(t_[2])
                    elif t_[0] == 'call' and t_[2] and len(t_[2]) == 1 and t_ != deref_all(src):
                        first_cast = None if first_cast is None else first_cast
                        t_ = deref_all(t_[2][0])
                    else:
                        break
                res = ('be', v[1][2], 'i8' if first_cast == 'i8' else 'u8')
            else:
                res = ('?', v[1][2], show(inner)[:60])
    return res


def r18_2(ctx, run, rule='R18.2', enc_table=None):
    """Decoder table: (tag byte, payload length) -> from_be_bytes::<T> and the widening cast; inverse of the encoder;
    every other (tag, length) returns Err."""
    f = ctx.facts
    b = f.one('number::Number::decode')
    if b is None:
        run.undecided(rule, 'number::Number::decode', 'body', 'function not found (anchor lost)')
        return
    ps, capped = explore(b)
    tags = {n: cv(f, n) for n in ('NUMBER_ZERO', 'NUMBER_NAN', 'NUMBER_INF', 'NUMBER_NEG_INF', 'NUMBER_INT', 'NUMBER_UINT', 'NUMBER_FLOAT')}
    tname = {v: k for k, v in tags.items()}
    table = {}
    unrec = []    # discriminating conditions / results whose meaning was not recognised
    for p in ps:
        if p.end[0] != 'return':
            continue
        tag = None
        plen = None
        tag_other = False
        len_other = None
        for c in p.conds:
            t = c[0]
            if isinstance(c[2], bool):
                # `if len == 8` / `if len != 8` / `if tag == X`: rewrite as the switch form
                if t[0] == 'bin' and t[1] in ('Eq', 'Ne') and (const_of(t[3]) is not None or const_of(t[2]) is not None):
                    kc = const_of(t[3]) if const_of(t[3]) is not None else const_of(t[2])
                    other = t[2] if const_of(t[3]) is not None else t[3]
                    holds = (t[1] == 'Eq') == c[2]
                    c = (other, 'eq' if holds else 'ne', kc if holds else (kc,), c[3] if len(c) > 3 else None)
                    t = other
                else:
                    continue
            hd = slice_head(t)
            if hd is not None and is_arg(hd, 1):
                # the tag: first byte of the argument (bytes[0], *split_first()?.0, *first()?)
                if c[1] == 'eq':
                    tag = c[2]
                elif c[1] == 'ne':
                    tag_other = True
                continue
            if c[1] in ('eq', 'ne'):
                # the payload length: len(bytes) - 1, or len of bytes[1..] / split_first()?.1
                l = lin(t)
                is_len = False
                if len(l[0]) == 1 and list(l[0].values()) == [1]:
                    a = list(l[0])[0]
                    if a[0] == 'call' and called(a[1], 'slice::len', 'len') and a[2]:
                        if l[1] == -1 and is_arg(a[2][0], 1):
                            is_len = True
                        elif l[1] == 0:
                            tl = slice_tail1(a[2][0])
                            is_len = tl is not None and is_arg(tl, 1)
                    elif a[0] == 'len' and l[1] == -1 and is_arg(a[1], 1):
                        is_len = True
                whole_len = False
                if not is_len and len(l[0]) == 1 and list(l[0].values()) == [1] and l[1] == 0:
                    a = list(l[0])[0]
                    whole_len = (a[0] == 'len' and is_arg(a[1], 1)) or (a[0] == 'call' and called(a[1], 'slice::len', 'len') and a[2] and is_arg(a[2][0], 1))
                if whole_len:
                    # a test of the whole length (slice patterns `[TAG, a, b]`, `bytes.len() == 3`): payload length + 1
                    if c[1] == 'eq' and isinstance(c[2], int):
                        plen = c[2] - 1
                    elif c[1] == 'ne':
                        # (`len != 0` is the emptiness test, not a payload-length row)
                        lo_ = tuple(x_ - 1 for x_ in (c[2] if isinstance(c[2], tuple) else (c[2],)) if isinstance(x_, int) and x_ >= 1)
                        if lo_:
                            len_other = lo_
                    continue
                if is_len:
                    if c[1] == 'eq':
                        plen = c[2]
                    else:
                        len_other = c[2]
                elif c[1] == 'eq' and not (t[0] == 'discr'):
                    unrec.append(show(t)[:80])
        res = _decode_result(p)
        if res is not None and res[0] == '?':
            unrec.append(res[2])
        if tag is None and not tag_other and res != ('Err',):
            unrec.append('no tag test on the path to ' + str(res)[:60])
        lkey = plen if plen is not None else ('otherwise' if len_other is not None else None)
        if lkey is None and res is not None and res[0] == 'be':
            # no exact length test on a path that decodes a fixed-width payload: what do the comparisons on the path leave possible?
            try:
                pf_ = PathFacts(p.conds, nonneg=lambda a_: True)
                for c_ in p.conds:
                    for a_ in subterms(c_[0]):
                        whole = (a_[0] == 'len' and is_arg(a_[1], 1)) or (a_[0] == 'call' and called(a_[1], 'slice::len', 'len') and a_[2] and is_arg(a_[2][0], 1))
                        if whole:
                            r_ = pf_.range_of(a_).intersect(IntervalSet([(0, INF)]))
                            if not r_.empty() and (r_.lo() != r_.hi()) and r_.lo() > 0:
                                lkey = ('range', r_.lo() - 1, (r_.hi() - 1) if r_.hi() != INF else INF)
            except Exception:
                pass
        key = (tname.get(tag, tag) if (tag is not None or not tag_other) else 'otherwise', lkey)
        table.setdefault(key, set()).add(res)
    loc = f'{b.file}:{b.line}'
    exp = {
        ('NUMBER_ZERO', None): {('const', 'UInt64', 0)},
        ('NUMBER_NAN', None): {('const', 'Float64', 'bits:9221120237041090560')},
        ('NUMBER_INF', None): {('const', 'Float64', 'bits:9218868437227405312')},
        ('NUMBER_NEG_INF', None): {('const', 'Float64', 'bits:18442240474082181120')},
        ('NUMBER_INT', 1): {('be', 'Int64', 'i8')}, ('NUMBER_INT', 2): {('be', 'Int64', 'i16')},
        ('NUMBER_INT', 4): {('be', 'Int64', 'i32')}, ('NUMBER_INT', 8): {('be', 'Int64', 'i64')},
        ('NUMBER_UINT', 1): {('be', 'UInt64', 'u8')}, ('NUMBER_UINT', 2): {('be', 'UInt64', 'u16')},
        ('NUMBER_UINT', 4): {('be', 'UInt64', 'u32')}, ('NUMBER_UINT', 8): {('be', 'UInt64', 'u64')},
        ('NUMBER_FLOAT', 8): {('be', 'Float64', 'f64')},
        ('NUMBER_INT', 'otherwise'): {('Err',)}, ('NUMBER_UINT', 'otherwise'): {('Err',)}, ('NUMBER_FLOAT', 'otherwise'): {('Err',)},
        ('otherwise', None): {('Err',)},
    }
    if capped:
        unrec.append('path cap exceeded')
    # second reading, independent of how the table is written: the return paths evaluated for concrete (tag byte, total length) pairs
    from enumeval import tag_len_paths, NotEvaluated
    rets = [p for p in ps if p.end[0] == 'return']
    feas = tag_len_paths(rets, 1) if not capped and all(p.end[0] in ('return', 'unreachable', 'panic') for p in ps) else None
    valid_len = {'NUMBER_INT': (1, 2, 4, 8), 'NUMBER_UINT': (1, 2, 4, 8), 'NUMBER_FLOAT': (8,)}

    def eval_row(k):
        """the set of results the decoder has for the inputs of row k, by evaluation; None when some condition is not evaluated"""
        if feas is None:
            return None
        if k[0] == 'otherwise':
            cases = [(T, n) for T in range(256) if T not in tname for n in (1, 2, 3, 5, 9)] + [(0, 0)]
        elif k[1] is None:
            cases = [(tags[k[0]], 1)]
        elif k[1] == 'otherwise':
            cases = [(tags[k[0]], L + 1) for L in (0, 3, 5, 6, 7, 9, 10, 12, 16, 17) if L not in valid_len[k[0]]]
        else:
            cases = [(tags[k[0]], k[1] + 1)]
        out = set()
        try:
            for T, n in cases:
                qs = feas(T, n)
                if not qs:
                    return None       # no return path for an input: a panic / unexplored exit, not tabulated here
                for q in qs:
                    out.add(_decode_result(q))
        except NotEvaluated:
            return None
        return out

    for k, v in exp.items():
        got = table.get(k)
        d = f'row[{k[0]},{k[1] if k[1] is not None else "-"}]'
        if got == v:
            run.proved(rule, b.path, d, f'-> {sorted(v)[0]}', loc)
        else:
            ev_ = eval_row(k)
            if ev_ is not None and all(r is not None and r[0] != '?' for r in ev_):
                nan_ok = k[0] == 'NUMBER_NAN' and ev_ and all(r[0] == 'const' and r[1] == 'Float64' and str(r[2]).startswith('bits:') and _is_nan_bits(r[2]) for r in ev_)
                if ev_ == v or nan_ok:
                    run.proved(rule, b.path, d, f'-> {sorted(v)[0]} (return paths evaluated for this tag byte and length)', loc)
                else:
                    run.violation(rule, b.path, d, f'expected {sorted(v)}, but for this tag byte and payload length the decoder yields {sorted(map(str, ev_))} (return paths evaluated for '
                                  'concrete (tag, length) pairs): the decoder does not invert the encoder here', loc)
                continue
            # NaN bit pattern may legitimately be any NaN: accept any Float64 NaN constant
            if k[0] == 'NUMBER_NAN' and got and all(r and r[0] == 'const' and r[1] == 'Float64' and str(r[2]).startswith('bits:') and _is_nan_bits(r[2]) for r in got):
                run.proved(rule, b.path, d, '-> Float64(NaN)', loc)
                continue
            recognised_wrong = got and all(r is not None and r[0] != '?' for r in got)
            if got and ('Err',) in got and len(got) > 1:
                recognised_wrong = False      # success and failure under one (tag, length) key: the length test on these paths was not read
                unrec = unrec or ['paths with the same recognised tag and payload length both succeed and fail']
            if recognised_wrong or (not got and not unrec):
                run.violation(rule, b.path, d, f'expected {sorted(v)}, found {sorted(map(str, got)) if got else "no such row"}: the decoder does not invert the encoder for this (tag, payload length)', loc)
            else:
                run.undecided(rule, b.path, d, f'the decoder is not written as a (tag, payload length) table this rule can read ({unrec[0] if unrec else "unrecognised result"}); '
                              f'the row could not be compared with the encoder', loc)
    for k, got in table.items():
        if k not in exp and got != {('Err',)} and got != {None}:
            if isinstance(k[1], tuple) and k[1][0] == 'range' and any(r is not None and r[0] == 'be' for r in got):
                run.violation(rule, b.path, f'row[{k[0]},{k[1][1]}..]', f'a payload of any length from {k[1][1]} to {"unbounded" if k[1][2] == INF else k[1][2]} is decoded as {sorted(map(str, got))}: '
                              'the encoder writes exactly one width for this form, longer (malformed) payloads must be rejected', loc)
            elif k[0] is None or k[1] is None or any(r is None or r[0] == '?' for r in got) or (('Err',) in got and len(got) > 1):
                run.undecided(rule, b.path, f'row[{k[0]},{k[1]}]', f'decoder path with unrecognised discriminator or result {sorted(map(str, got))[:3]}', loc)
            else:
                run.violation(rule, b.path, f'row[{k[0]},{k[1]}]', f'unexpected decoder row {sorted(map(str, got))} (the encoder never produces this form)', loc)
    # widening casts must preserve the value: source type signedness == variant signedness is covered by the table above


def _is_nan_bits(s):
    try:
        bits = int(s.split(':')[1])
    except Exception:
        return False
    exp = (bits >> 52) & 0x7FF
    man = bits & ((1 << 52) - 1)
    return exp == 0x7FF and man != 0


# ------------------------------------------------------------------ R18.4 ordering / equality of numbers

import struct
from rules import recursion
from mir import callee_name


def f64_of_bits(v):
    if isinstance(v, str) and v.startswith('bits:'):
        return struct.unpack('>d', struct.pack('>Q', int(v[5:])))[0]
    return None


ORDER_ROOTS = ['<number::Number as std::cmp::Ord>::cmp', '<number::Number as std::cmp::PartialEq>::eq', '<number::Number as std::cmp::PartialOrd>::partial_cmp']


def order_cone(ctx):
    cg = recursion.augment(ctx)
    roots = [r for r in ORDER_ROOTS if r in ctx.facts.bodies]
    return roots, sorted(cg.reachable(roots))


def float_bounds(conds, atom):
    """(lo, lo_strict, hi, hi_strict, nan_possible) implied for a float-valued atom by comparisons with float constants."""
    lo, los, hi, his = float('-inf'), False, float('inf'), False
    nan = True
    for c in conds:
        t, op, val = c[0], c[1], c[2]
        if t[0] == 'call' and called(t[1], 'f64::is_nan') and deref_all(t[2][0]) == atom and val is False:
            nan = False
        if t[0] != 'bin' or t[1] not in ('Lt', 'Le', 'Gt', 'Ge') or op != 'eq' or not isinstance(val, bool):
            continue
        a, b = t[2], t[3]
        o = t[1]
        if b == atom and a[0] == 'const':
            a, b = b, a
            o = {'Lt': 'Gt', 'Le': 'Ge', 'Gt': 'Lt', 'Ge': 'Le'}[o]
        if a != atom or b[0] != 'const':
            continue
        k = f64_of_bits(b[1])
        if k is None:
            continue
        if val:
            # the comparison holds: atom is not NaN
            nan = False
            eff = o
        else:
            # negation holds for non-NaN values (a NaN makes every comparison false)
            eff = {'Lt': 'Ge', 'Le': 'Gt', 'Gt': 'Le', 'Ge': 'Lt'}[o]
        if eff == 'Lt' and (k < hi or (k == hi and not his)):
            hi, his = k, True
        elif eff == 'Le' and k < hi:
            hi, his = k, False
        elif eff == 'Gt' and (k > lo or (k == lo and not los)):
            lo, los = k, True
        elif eff == 'Ge' and k > lo:
            lo, los = k, False
    return lo, los, hi, his, nan


def r18_4(ctx, run, rule='R18.4'):
    """No lossy conversion decides an order or equality of numbers."""
    f = ctx.facts
    roots, cone = order_cone(ctx)
    run.floor(rule, 'Number ordering entry points', len(roots), 3)
    n_casts = 0
    n_cmp = 0
    for p in cone:
        b = f.bodies[p]
        if b.kind == 'Promoted':
            continue
        # (a) int -> float casts of 64-bit integers: lossy unless the operand is confined to [-2^53, 2^53] on the path
        wide = []
        for bb, i, s in b.all_stmts():
            if s['k'] != 'assign' or s['rv']['k'] != 'cast':
                continue
            rv = s['rv']
            if rv['kind'] == 'IntToFloat' and (any('assert' in str(m_) for m_ in (s.get('macs') or [])) or only_feeds_assert(b, s['place']['local'])):
                continue      # inside an assert!/debug_assert! condition: it states a fact, it does not decide an order
            if rv['kind'] == 'IntToFloat':
                src_ty = operand_ty(b, rv['op'])
                if src_ty in ('i64', 'u64', 'i128', 'u128', 'usize', 'isize'):
                    wide.append((src_ty, rv['to']['s'], f"{s.get('file')}:{s.get('line')}"))
        if wide:
            n_casts += len(wide)
            EXACT = IntervalSet([(-(1 << 53), 1 << 53)])
            psx, _ = explore(b)
            seen_exact = 0
            inexact = None
            for q in psx:
                terms = [(a, e[6]) for e in q.events if e[0] == 'call' and not any('assert' in str(m_) for m_ in ((e[5].get('macs') if isinstance(e[5], dict) else None) or [])) for a in e[2]] + \
                    ([(q.ret, len(q.conds))] if q.end[0] == 'return' and q.ret is not None else [])
                for (t_, ci) in terms:
                    for x in subterms(t_):
                        if x[0] == 'cast' and x[1] == 'IntToFloat':
                            pf = PathFacts(q.conds[:ci])
                            if pf.infeasible():
                                continue
                            r = pf.range_of_term(x[2])
                            src = x[2]
                            if src[0] in ('init', 'hav'):
                                tyr = INT_RANGES.get(str(b.local_ty(src[1]).get('s')))
                                if tyr:
                                    r = r.intersect(IntervalSet([tyr]))
                            if not r.empty() and r.subset_of(EXACT):
                                seen_exact += 1
                            else:
                                inexact = (show(src)[:40], str(r))
            src_ty, to_ty, loc_ = wide[0]
            if inexact is None and seen_exact:
                run.proved(rule, p, f'cast[{src_ty} as {to_ty}]', f'the integer is confined to [-2^53, 2^53] on every path that converts it ({seen_exact} conversion path(s)): the conversion is exact', loc_)
            else:
                run.violation(rule, p, f'cast[{src_ty} as {to_ty}]',
                              f'a 64-bit integer is converted to {to_ty} on the way to a comparison' + (f' ({inexact[0]} ranges over {inexact[1]})' if inexact else '') +
                              ': integers beyond 2^53 are rounded, so distinct numbers compare Equal and the order is not transitive', loc_)
        # (b) float -> int casts must be range-guarded on every path
        ps, capped = explore(b)
        sites = {}
        for q in ps:
            for (ci, cast_t, loc) in float_to_int_casts(b, q):
                n_casts += 1
                ty = cast_t[3]
                atom = cast_t[2]
                src = atom
                # the cast operand is trunc(r) of the guarded float r: look through trunc()
                if src[0] == 'call' and called(src[1], 'f64::trunc', 'f64::floor', 'f64::round') and src[2]:
                    src = deref_all(src[2][0])
                lo, los, hi, his, nan = float_bounds(q.conds, src)
                tr = INT_RANGES.get(ty)
                ok = False
                if tr:
                    need_hi = float(tr[1] + 1)      # exclusive upper bound 2^63 / 2^64
                    need_lo = float(tr[0])          # inclusive lower bound (-2^63 / 0); (-1, 0) truncates to 0 for unsigned
                    ok_hi = hi < need_hi or (hi == need_hi and his)
                    ok_lo = lo > need_lo - 1 or (lo == need_lo and True) or (lo >= need_lo)
                    ok = ok_hi and ok_lo and not nan
                k = (p, f'cast[{show(src)[:40]} as {ty}]')
                d = sites.setdefault(k, {'ok': True, 'why': '', 'loc': loc})
                if not ok:
                    d['ok'] = False
                    d['why'] = (f'on some path the operand is only known to lie in {"(" if los else "["}{lo}, {hi}{")" if his else "]"}'
                                f'{" or to be NaN" if nan else ""}; values outside [{tr[0]}, {tr[1]}] saturate, so the integer/float comparison is wrong at the boundary')
        for (p2, desc), d in sites.items():
            if d['ok']:
                run.proved(rule, p2, desc, 'operand bounded inside the target range on every path (exact truncation)', d['loc'])
            else:
                run.violation(rule, p2, desc, d['why'], d['loc'])
        # (c) float comparators
        for bb, t in b.calls():
            nm = callee_name(t)
            full = t['callee'].get('full', '')
            if called(nm, 'f64::total_cmp', 'f32::total_cmp'):
                n_cmp += 1
                run.violation(rule, p, 'comparator[f64::total_cmp]', 'total_cmp orders -0.0 before +0.0 and distinguishes NaN payloads: numbers that denote the same real value compare unequal',
                              f"{t.get('file')}:{t.get('line')}")
            elif called(nm, 'PartialOrd::partial_cmp') and 'f64' in full and 'OrderedFloat' not in full and partial_cmp_none_handled(b, bb, t):
                # `if let Some(o) = a.partial_cmp(&b)`: NaN (None) is left to other code, -0.0 == +0.0 holds for partial_cmp
                n_cmp += 1
                run.proved(rule, p, 'comparator[partial_cmp/Some]', 'partial_cmp is used only through its Some case; the None (NaN) case falls through to the NaN-aware code',
                           f"{t.get('file')}:{t.get('line')}")
            elif called(nm, 'f64::to_bits') or (called(nm, 'PartialOrd::partial_cmp', 'PartialEq::eq', 'PartialOrd::lt', 'PartialOrd::le') and 'f64' in full and 'OrderedFloat' not in full):
                n_cmp += 1
                run.violation(rule, p, f'comparator[{canon(nm).split("::")[-1]}]', 'floats are compared by a primitive that is not a total order with NaN == NaN and -0.0 == +0.0',
                              f"{t.get('file')}:{t.get('line')}")
            elif 'OrderedFloat' in full and called(nm, 'Ord::cmp', 'PartialOrd::partial_cmp', 'PartialEq::eq'):
                n_cmp += 1
                run.proved(rule, p, f'comparator[OrderedFloat::{canon(nm).split("::")[-1]}]', 'total order on f64 with NaN greatest and equal to itself, -0.0 == +0.0 (ordered-float contract)',
                           f"{t.get('file')}:{t.get('line')}")
    run.floor(rule, 'float comparators in the ordering cone', n_cmp, 3)
    const_outcomes(ctx, run, rule, cone)
    float_pair_outcomes(ctx, run, rule, cone)
    # same-kind integer comparisons and the signed/unsigned cross cases
    b = f.bodies.get(ORDER_ROOTS[0])
    if b is not None:
        ps, _ = explore(b)
        vs = [v['name'] for v in f.adts[NUM]['variants']]
        table = {}
        for q in ps:
            if q.end[0] != 'return':
                continue
            ds = [c for c in q.conds if c[0][0] == 'discr' and c[1] == 'eq']
            if len(ds) < 2:
                continue
            l, r = vs[ds[0][2]], vs[ds[1][2]]
            table.setdefault((l, r), []).append(q)
        for pair in [(a, c) for a in vs for c in vs]:
            if pair not in table:
                run.undecided(rule, b.path, f'pair[{pair[0]},{pair[1]}]', 'no arm for this pair of representations was recognised (anchor lost; the match is exhaustive by construction in Rust): not decided', f'{b.file}:{b.line}')
            else:
                run.proved(rule, b.path, f'pair[{pair[0]},{pair[1]}]', f'{len(table[pair])} path(s)', f'{b.file}:{b.line}', nontrivial=False)
        # mixed integer / float arms delegate to a helper: called with (self, other) the result stands, with (other, self) it must be reversed
        for (l, r), qs in sorted(table.items()):
            if 'Float64' not in (l, r) or l == r:
                continue
            verdicts = set()
            for q in qs:
                t_ = deref_all(q.ret)
                parity = 0
                while t_[0] == 'call' and canon(t_[1]).endswith('Ordering::reverse') and t_[2]:
                    parity ^= 1
                    t_ = deref_all(t_[2][0])
                if not (t_[0] == 'call' and len(t_[2]) == 2 and canon(t_[1]) in {canon(c_) for c_ in cone}):
                    verdicts.add(None)
                    continue
                sides = []
                for a_ in t_[2]:
                    ps_ = {s_[1] for s_ in subterms(a_) if s_[0] == 'init' and isinstance(s_[1], int) and 1 <= s_[1] <= 2}
                    sides.append('L' if ps_ == {1} else 'R' if ps_ == {2} else '?')
                if sides == ['L', 'R']:
                    verdicts.add(parity == 0)
                elif sides == ['R', 'L']:
                    verdicts.add(parity == 1)
                else:
                    verdicts.add(None)
            d_ = f'cross[{l},{r}]/operand-order'
            loc_ = f'{b.file}:{b.line}'
            if False in verdicts:
                run.violation(rule, b.path, d_, f'the ({l}, {r}) arm hands its operands to the integer/float helper in one order and reports the result for the other: a helper called with '
                              '(other, self) must be `.reverse()`d, one called with (self, other) must not', loc_)
            elif verdicts == {True}:
                run.proved(rule, b.path, d_, 'helper result reversed exactly when the operands are passed in (other, self) order', loc_)
            else:
                run.undecided(rule, b.path, d_, 'the arm is not a (possibly reversed) call of a two-operand helper of the ordering cone: operand order not decided', loc_)
        # Int64 vs UInt64: negative is Less, otherwise compared as u64 after a value-preserving cast
        for (l, r), qs in table.items():
            if {l, r} == {'Int64', 'UInt64'}:
                from panics import norm, norm_conds
                for q in qs:
                    pf = PathFacts(norm_conds(q.conds))
                    if pf.infeasible():
                        continue
                    # `T::try_from(x).map_or(K, |y| ..)`: the default K answers for exactly the x outside T's range, i.e. an unsigned x above
                    # i64::MAX (then the signed other operand is smaller) or a negative signed x (then the unsigned other operand is larger)
                    rr_ = deref_all(q.ret)
                    if rr_[0] == 'call' and canon(rr_[1]).split('::')[-1] in ('map_or', 'map_or_else', 'unwrap_or') and len(rr_[2]) >= 2:
                        tf_ = deref_all(rr_[2][0])
                        if tf_[0] == 'call' and canon(tf_[1]).split('::')[-1] == 'try_from' and tf_[2]:
                            x_ = tf_[2][0]
                            # which operand is converted: field of `self` (parameter 1) or of `other` (parameter 2)
                            ps_ = {s_[1] for s_ in subterms(x_) if s_[0] == 'init' and isinstance(s_[1], int)}
                            dflt = deref_all(rr_[2][1])
                            dv = dflt[1][2] if agg_variant(dflt) and dflt[1][1].endswith('cmp::Ordering') else None
                            if ps_ in ({1}, {2}) and dv is not None:
                                x_is_left = ps_ == {1}
                                x_kind = l if x_is_left else r
                                # x out of range: unsigned x too large (x is the bigger operand) / signed x negative (x is the smaller operand)
                                x_bigger = (x_kind == 'UInt64')
                                want = ('Greater' if x_bigger else 'Less') if x_is_left else ('Less' if x_bigger else 'Greater')
                                (run.proved if dv == want else run.violation)(rule, b.path, f'cross[{l},{r}]/conversion-fails', f'the {x_kind} operand does not fit the other type -> {want}' if dv == want else
                                    f'when the {x_kind} operand does not fit the other operand\'s type ({"above i64::MAX" if x_bigger else "negative"}) the result is {dv}; it must be {want}', f'{b.file}:{b.line}')
                            else:
                                run.undecided(rule, b.path, f'cross[{l},{r}]/conversion-fails', 'the outcome for an operand that does not fit the other type is not a constant order this rule reads: not decided', f'{b.file}:{b.line}')
                    casts = [s for s in subterms(q.ret) if s[0] == 'cast' and s[1] == 'IntToInt']
                    if casts:
                        # the signed operand may be reinterpreted as u64 only where it is known to be >= 0
                        ok = True
                        for cst in casts:
                            rg_ = pf.range_of_term(norm(cst[2]))
                            if rg_.empty() or rg_.lo() < 0:
                                ok = False
                        (run.proved if ok else run.violation)(rule, b.path, f'cross[{l},{r}]/cast', 'i64 -> u64 cast only for non-negative values' if ok else
                                                               'an i64 is cast to u64 for comparison without excluding negative values', f'{b.file}:{b.line}')
                    # a negative signed operand is below every unsigned one: the constant outcome on that path is fixed
                    for c in q.conds:
                        t = c[0]
                        if t[0] == 'bin' and t[1] in ('Lt', 'Le', 'Gt', 'Ge') and (const_of(t[3]) == 0 or const_of(t[2]) == 0):
                            atom = t[2] if const_of(t[3]) == 0 else t[3]
                            rg_ = pf.range_of_term(norm(atom))
                            if not rg_.empty() and rg_.hi() < 0:
                                want = 'Less' if l == 'Int64' else 'Greater'
                                got = deref_all(q.ret)
                                gv = got[1][2] if agg_variant(got) and got[1][1].endswith('cmp::Ordering') else None
                                if gv is not None:
                                    (run.proved if gv == want else run.violation)(rule, b.path, f'cross[{l},{r}]/negative', f'negative signed operand -> {want}' if gv == want else
                                                                                   f'when the Int64 operand is negative the result is {gv}, but a negative number is below every unsigned one: it must be {want}', f'{b.file}:{b.line}')
                            break


def const_outcomes(ctx, run, rule, cone):
    """Integer-vs-float helpers f(l: iN/uN, r: f64) -> Ordering: a path that returns a constant Ordering without looking at
    the integer is right only if r is NaN (-> Less, NaN is the greatest number) or r lies outside the integer type's whole
    range on the right side."""
    f = ctx.facts
    n = 0
    for p in cone:
        b = f.bodies[p]
        if b.kind == 'Promoted' or b.argc != 2:
            continue
        ity = str(b.local_ty(1).get('s'))
        if ity not in INT_RANGES or str(b.local_ty(2).get('s')) != 'f64' or not str(b.local_ty(0).get('s', '')).endswith('cmp::Ordering'):
            continue
        tmin, tmax = INT_RANGES[ity]
        if ity in ('i128', 'u128'):
            # wider than any stored number: the values that actually arrive are those of the callers' arguments
            # (`i128::from(i64)`, `i128::from(u64)`, widening casts): the union of their source types' ranges
            lo_, hi_, unknown = None, None, False
            for pc, bc in f.bodies.items():
                if bc.kind == 'Promoted':
                    continue
                for _, t_ in bc.calls():
                    if canon(callee_name(t_)) != canon(p) or not t_.get('args'):
                        continue
                    a0 = t_['args'][0]
                    src_ty = None
                    if a0['k'] in ('copy', 'move') and not a0['place'].get('proj'):
                        l0 = a0['place']['local']
                        from mir import defs as _defs
                        for site in _defs(bc).get(l0, []):
                            if site[0] == 'call' and canon(callee_name(site[2])).endswith(('From::from', 'Into::into', '::from', '::into')) and site[2].get('args'):
                                src_ty = operand_ty(bc, site[2]['args'][0]) or src_ty
                            elif site[0] == 'stmt' and site[3] is not None and site[3].get('k') == 'cast':
                                o_ = site[3].get('op') or site[3].get('a')
                                if o_ is not None:
                                    src_ty = operand_ty(bc, o_) or src_ty
                    if src_ty in INT_RANGES and src_ty not in ('i128', 'u128'):
                        a_, b_ = INT_RANGES[src_ty]
                        lo_ = a_ if lo_ is None else min(lo_, a_)
                        hi_ = b_ if hi_ is None else max(hi_, b_)
                    else:
                        unknown = True
            if unknown or lo_ is None:
                run.undecided(rule, p, 'constant-outcomes', f'the integer parameter is {ity}, wider than any stored number, and the values its callers pass could not be bounded from their source types: '
                              'the constant outcomes of this helper are not decided', f'{b.file}:{b.line}')
                continue
            tmin, tmax = lo_, hi_
            ity = f'{ity} restricted to the callers\' arguments'
        ps, _ = explore(b)
        r_atom = ('init', 2, b.name_of(2))
        for q in ps:
            if q.end[0] != 'return':
                continue
            ret = deref_all(q.ret)
            if not (agg_variant(ret) and ret[1][1].endswith('cmp::Ordering')):
                continue
            v = ret[1][2]
            if any(s_[0] == 'init' and s_[1] == 1 for c in q.conds for s_ in subterms(c[0])):
                continue     # the integer took part in the decision
            n += 1
            loc = f'{b.file}:{b.line}'
            is_nan = any(c[0][0] == 'call' and called(c[0][1], 'f64::is_nan') and c[2] is True for c in q.conds)
            lo, los, hi, his, nan = float_bounds(q.conds, r_atom)
            d = f'constant[{v}]'
            if is_nan:
                (run.proved if v == 'Less' else run.violation)(rule, p, d + '/nan', 'NaN is greater than every integer' if v == 'Less' else
                                                               f'for a NaN float the integer is reported {v}; NaN is the greatest number, it must be Less', loc)
                continue
            if v == 'Less':
                ok = lo >= float(tmax + 1) or (lo > float(tmax))
                why = f'r >= {lo!r} is above every {ity}'
            elif v == 'Greater':
                ok = hi < float(tmin) or (hi == float(tmin) and his)
                why = f'r < {hi!r} is below every {ity}'
            else:
                ok = False
                why = ''
            if ok:
                run.proved(rule, p, d, why, loc)
            else:
                run.violation(rule, p, d, f'the helper answers {v} without looking at the integer on a path where the float is only known to lie in '
                              f'{"(" if los else "["}{lo!r}, {hi!r}{")" if his else "]"}: that interval contains values inside the range of {ity} [{tmin}, {tmax}], '
                              f'for which the answer depends on the integer', loc)
    return n


def float_pair_outcomes(ctx, run, rule, cone):
    """A helper (f64, f64) -> Ordering in the ordering cone that answers with constant orderings must be an order comparison of
    its two arguments in one orientation: on every path the relation its conditions establish between the arguments
    (a subset of {<, =, >}) must force the constant it returns.  `a != b => Less` is not: it answers Less for a > b too."""
    f = ctx.facts
    REL = {('Lt', True): {'lt'}, ('Lt', False): {'eq', 'gt'}, ('Le', True): {'lt', 'eq'}, ('Le', False): {'gt'}, ('Gt', True): {'gt'}, ('Gt', False): {'lt', 'eq'},
           ('Ge', True): {'gt', 'eq'}, ('Ge', False): {'lt'}, ('Eq', True): {'eq'}, ('Eq', False): {'lt', 'gt'}, ('Ne', True): {'lt', 'gt'}, ('Ne', False): {'eq'}}
    FLIP = {'lt': 'gt', 'gt': 'lt', 'eq': 'eq'}
    n = 0
    def is_floaty(t):
        return any((x[0] == 'const' and (str(x[2] if len(x) > 2 else '') == 'f64' or (isinstance(x[1], str) and x[1].startswith('bits:')))) or
                   (x[0] == 'call' and 'f64::' in canon(x[1])) for x in subterms(t))
    for p in cone:
        b = f.bodies[p]
        if b.kind == 'Promoted' or not str(b.local_ty(0).get('s', '')).endswith('cmp::Ordering'):
            continue
        is_closure = '{closure' in p
        if not is_closure and (b.argc != 2 or str(b.local_ty(1).get('s')) != 'f64' or str(b.local_ty(2).get('s')) != 'f64'):
            continue
        ps, _ = explore(b)
        a1 = a2 = None
        if not is_closure:
            a1, a2 = ('init', 1, b.name_of(1)), ('init', 2, b.name_of(2))
        rows = []
        for q in ps:
            if q.end[0] != 'return':
                continue
            ret = deref_all(q.ret)
            if not (agg_variant(ret) and ret[1][1].endswith('cmp::Ordering')):
                continue
            rel = {'lt', 'eq', 'gt'}
            for c in q.conds:
                t = c[0]
                if t[0] == 'discr' and c[1] == 'eq' and c[2] == 0 and is_call(deref_all(t[1]), 'PartialOrd::partial_cmp') and len(deref_all(t[1])[2]) == 2:
                    # `partial_cmp(a, b)` answered None: the two floats are unordered (one is NaN) — none of <, =, > holds, so a constant returned
                    # here says nothing about the order of comparable values (what NaN compares as is R18.4's comparator clause, not this one)
                    pa, pb = deref_all(deref_all(t[1])[2][0]), deref_all(deref_all(t[1])[2][1])
                    if a1 is not None and {repr(pa), repr(pb)} == {repr(a1), repr(a2)}:
                        rel = set()
                if t[0] == 'bin' and (t[1], c[2]) in REL and c[1] == 'eq':
                    x, y = deref_all(t[2]), deref_all(t[3])
                    if a1 is None and (is_floaty(x) or is_floaty(y)):
                        a1, a2 = x, y      # a closure: the pair compared by its first float comparison
                    if (x, y) == (a1, a2):
                        rel &= REL[(t[1], c[2])]
                    elif (x, y) == (a2, a1):
                        rel &= {FLIP[r_] for r_ in REL[(t[1], c[2])]}
            if rel and a1 is not None:
                rows.append((ret[1][2], rel))
        if not rows:
            continue
        n += 1
        want = {'Less': 'lt', 'Equal': 'eq', 'Greater': 'gt'}
        ok = any(all(rel <= {(FLIP[want[v]] if flip else want[v])} for v, rel in rows) for flip in (False, True))
        loc = f'{b.file}:{b.line}'
        d = 'float-pair-comparator'
        if ok:
            run.proved(rule, p, d, f'{len(rows)} constant outcome(s), each forced by the order relation established between the two floats', loc)
            continue
        worst = next((v, rel) for v, rel in rows if len(rel) > 1)
        # does a comparator of a *signed* integer with a float reach it?  (for an unsigned one the float is >= 0 and one-sided answers can be right)
        signed = False
        if is_closure:
            bb_ = f.bodies.get(p.split('::{closure')[0])
            if bb_ is not None and bb_.argc == 2 and str(bb_.local_ty(1).get('s')) in ('i64', 'i32', 'i16', 'i8', 'i128', 'isize'):
                signed = True
        for pc in cone:
            bc = f.bodies[pc]
            base = pc.split('::{closure')[0]
            bb_ = f.bodies.get(base)
            if bb_ is None or bb_.argc != 2 or str(bb_.local_ty(1).get('s')) not in ('i64', 'i32', 'i16', 'i8', 'i128', 'isize') or str(bb_.local_ty(2).get('s')) != 'f64':
                continue
            if any(canon(callee_name(t_)) == canon(p) or canon(callee_name(t_)).endswith('::' + p.split('::')[-1]) for _, t_ in bc.calls()):
                signed = True
        msg = (f'answers {worst[0]} on a path where the two floats it compares ({show(a1)[:40]} and {show(a2)[:40]}) are only known to be related by {sorted(worst[1])}: it is not an order comparison of them in either '
               f'orientation')
        if signed:
            run.violation(rule, p, d, msg + '; a signed-integer/float comparator breaks its tie with it, and for negative floats the fractional part has the other sign '
                          '(-4 vs -4.5 would come out Less)', loc)
        else:
            run.undecided(rule, p, d, msg + '; whether its callers only pass arguments for which the one-sided answer is right is not decided', loc)
    return n


def only_feeds_assert(body, local):
    """Does the value of `local` flow only into the condition of an assert!/debug_assert! (a switch one of whose arms panics with an
    assertion failure)?  Such a computation states a fact about the values; it does not take part in the result."""
    from prov import locals_in
    from rules.recursion import panic_kind
    S = {local}
    changed = True
    while changed:
        changed = False
        for blk in body.blocks:
            for st in blk['stmts']:
                if st['k'] == 'assign' and not st['place'].get('proj') and st['place']['local'] not in S and (locals_in(st['rv']) & S):
                    S.add(st['place']['local'])
                    changed = True
    def leads_to_assert(bb, depth=0):
        t = body.blocks[bb]['term']
        if t['k'] == 'call':
            return panic_kind(t) == 'assert'
        if t['k'] == 'goto' and depth < 3:
            return leads_to_assert(t['target'], depth + 1)
        return False
    used = False
    for blk in body.blocks:
        for st in blk['stmts']:
            if st['k'] == 'assign' and st['place'].get('proj') and (locals_in(st['rv']) & S):
                return False
        t = blk['term']
        if t['k'] == 'switch' and (locals_in(t['discr']) & S):
            tg = [x for _, x in t['targets']] + [t['otherwise']]
            if not any(leads_to_assert(x) for x in tg):
                return False
            used = True
        elif t['k'] == 'call' and (locals_in(t.get('args', [])) & S):
            if panic_kind(t) != 'assert':
                return False
            used = True
        elif t['k'] == 'return' and 0 in S:
            return False
    return used and 0 not in S


def partial_cmp_none_handled(body, bb, t):
    """the Option returned by this partial_cmp call is inspected by a discriminant read / switch (match, if let), not
    handed to unwrap / expect / unwrap_or*"""
    dest = t['dest']['local']
    from mir import defs
    for blk in body.blocks:
        tt = blk['term']
        if tt['k'] == 'call' and called(callee_name(tt), 'Option::unwrap', 'Option::expect', 'Option::unwrap_or', 'Option::unwrap_or_else', 'Option::unwrap_or_default',
                                         'Option::map_or', 'Option::is_some', 'Option::is_none'):
            for a in tt['args']:
                if a['k'] in ('copy', 'move') and a['place']['local'] == dest:
                    return False
    for blk in body.blocks:
        for st in blk['stmts']:
            if st['k'] == 'assign' and st['rv']['k'] == 'discr' and st['rv']['place']['local'] == dest:
                return True
    return False


def operand_ty(body, o):
    if o['k'] == 'const':
        return o['ty']['s']
    p = o['place']
    if not p.get('proj'):
        return body.local_ty(p['local']).get('s')
    return None


def float_to_int_casts(body, q):
    """(cond index, cast term, loc) for FloatToInt casts evaluated on a path (found in the path's stored terms)."""
    out = []
    seen = set()
    for e in q.events:
        if e[0] != 'call':
            continue
        for a in e[2]:
            for s in subterms(a):
                if s[0] == 'cast' and s[1] == 'FloatToInt' and s not in seen:
                    seen.add(s)
                    t = e[5]
                    out.append((e[6], s, f"{t.get('file')}:{t.get('line')}"))
    if q.ret is not None:
        for s in subterms(q.ret):
            if s[0] == 'cast' and s[1] == 'FloatToInt' and s not in seen:
                seen.add(s)
                out.append((len(q.conds), s, f'{body.file}:{body.line}'))
    for k, v in q.store.items():
        if isinstance(v, tuple):
            for s in subterms(v):
                if s[0] == 'cast' and s[1] == 'FloatToInt' and s not in seen:
                    seen.add(s)
                    out.append((len(q.conds), s, f'{body.file}:{body.line}'))
    return out


def r18_5(ctx, run, rule='R18.5'):
    """Views: as_i64 / as_u64 are exact or absent; as_f64 is the plain cast."""
    f = ctx.facts
    vs = [v['name'] for v in f.adts[NUM]['variants']]
    for fn, target in (('as_i64', 'i64'), ('as_u64', 'u64')):
        b = f.one('number::Number::' + fn)
        if b is None:
            run.undecided(rule, 'number::Number::' + fn, 'body', 'function not found (anchor lost)')
            continue
        ps, _ = explore(b)
        seen = set()
        for q in ps:
            if q.end[0] != 'return':
                continue
            vi = variant_of_path(q)
            if vi is None:
                continue
            vname = vs[vi]
            r = q.ret
            loc = f'{b.file}:{b.line}'
            if agg_variant(r) and r[1][2] == 'Some':
                x = r[2][0]
                src = strip_casts(x)
                atom = payload_value_atom(q) or src
                if vname == 'Float64':
                    run.violation(rule, b.path, f'arm[{vname}]', f'a float is returned as {target}: {show(x)}', loc)
                    continue
                if x[0] == 'cast':
                    sty = 'i64' if vname == 'Int64' else 'u64'
                    pf = PathFacts(q.conds)
                    rng = pf.range_of(src).intersect(IntervalSet.of_type(sty))
                    ok = rng.subset_of(IntervalSet.of_type(target))
                    key = (vname, 'cast')
                    if ok:
                        run.proved(rule, b.path, f'arm[{vname}]/cast', f'{sty} values {rng} fit {target}', loc)
                    else:
                        run.violation(rule, b.path, f'arm[{vname}]/cast', f'{sty} values {rng} are cast to {target} although some do not fit: the view returns a different value instead of None', loc)
                else:
                    if (vname == 'Int64') == (target == 'i64') and src == atom or deref_all(src) == atom:
                        run.proved(rule, b.path, f'arm[{vname}]', 'the stored value itself', loc)
                    else:
                        run.violation(rule, b.path, f'arm[{vname}]', f'returns {show(x)}, not the stored value', loc)
            elif agg_variant(r) and r[1][2] == 'None':
                if vname == 'Float64':
                    run.proved(rule, b.path, 'arm[Float64]', 'None', loc)
                else:
                    # None only for values outside the target range
                    atom = payload_value_atom(q)
                    if atom is not None:
                        sty = 'i64' if vname == 'Int64' else 'u64'
                        pf = PathFacts(q.conds)
                        rng = pf.range_of(atom).intersect(IntervalSet.of_type(sty))
                        inside = rng.intersect(IntervalSet.of_type(target))
                        if inside.empty():
                            run.proved(rule, b.path, f'arm[{vname}]/none', f'None only for {rng}, which {target} cannot represent', loc)
                        else:
                            run.violation(rule, b.path, f'arm[{vname}]/none', f'None is returned for {inside}, which {target} can represent', loc)
    b = f.one('number::Number::as_f64')
    if b is None:
        run.undecided(rule, 'number::Number::as_f64', 'body', 'function not found (anchor lost)')
    else:
        ps, _ = explore(b)
        for q in ps:
            if q.end[0] != 'return':
                continue
            vi = variant_of_path(q)
            if vi is None:
                continue
            vname = vs[vi]
            r = q.ret
            ok = agg_variant(r) and r[1][2] == 'Some'
            if ok:
                x = r[2][0]
                if vname == 'Float64':
                    ok = x[0] != 'cast' and any(s[0] == 'downcast' and s[2] == 'Float64' for s in subterms(x))
                else:
                    ok = x[0] == 'cast' and x[1] == 'IntToFloat' and x[3] == 'f64' and any(s[0] == 'downcast' and s[2] == vname for s in subterms(x[2]))
            (run.proved if ok else run.violation)(rule, b.path, f'arm[{vname}]', 'Some(value as f64): round-to-nearest by language semantics' if ok else f'as_f64 of {vname} returns {show(r)}', f'{b.file}:{b.line}')


# ------------------------------------------------------------------ R18.1 (bit-length form): the low `width` bytes of the 8-byte form hold the value

def bitlen_widths(ctx, run, rule='R18.1'):
    """Where an integer is written as the low W bytes of its 8-byte big-endian form (`&v.to_be_bytes()[8 - W..]`) with W chosen from a bit
    count (`64 - v.leading_zeros()`, `65 - v.leading_ones()`, a sign-folded magnitude), the conditions of the path bound the value:
    lz(x) >= 64-k  <=>  x < 2^k (as an unsigned pattern), and for a negative v, leading_ones(v) >= 64-k  <=>  v >= -2^k.  The decoder
    reads W bytes back as a signed (NUMBER_INT) or unsigned (NUMBER_UINT) integer, so the path must imply v in [-2^(8W-1), 2^(8W-1)) resp.
    v < 2^(8W).  Interval reasoning only; a shape this reading does not cover is undecided."""
    from panics import norm_conds
    f = ctx.facts
    n = 0
    for p, b in sorted(f.bodies.items()):
        if b.kind == 'Promoted' or not p.startswith('number::'):
            continue
        if not any(called(callee_name(t), 'to_be_bytes') for _, t in b.calls()):
            continue
        ps, capped = explore(b, max_paths=4000)
        rows = {}
        for q in ps:
            if q.end[0] != 'return':
                continue
            for e in q.calls():
                if not (called(e[1], 'Write::write_all', 'Vec::extend_from_slice') and len(e[2]) == 2):
                    continue
                x = deref_all(e[2][1])
                if not (is_call(x, 'Index::index', 'index::index', 'array::index') and len(x[2]) == 2):
                    continue
                arr, rg = deref_all(x[2][0]), deref_all(x[2][1])
                if not (is_call(arr, 'to_be_bytes') and arr[2] and agg_variant(rg) and rg[1][1].split('::')[-1] == 'RangeFrom' and rg[2]):
                    continue
                V = deref_all(arr[2][0])
                vty = None
                for s_ in subterms(V):
                    if s_[0] == 'downcast' and s_[2] in ('Int64', 'UInt64'):
                        vty = 'i64' if s_[2] == 'Int64' else 'u64'
                if vty is None:
                    continue
                start = const_of(rg[2][0])
                conds = q.conds[:e[6]]
                try:
                    _bitcount = lambda a: IntervalSet([(0, 64)]) if (isinstance(a, tuple) and a and a[0] == 'call' and canon(a[1]).split('::')[-1] in ('leading_zeros', 'leading_ones', 'count_ones')) else None
                    pf = PathFacts(norm_conds(conds), nonneg=lambda a: isinstance(a, tuple) and a and a[0] == 'call', typed=_bitcount)
                    if pf.infeasible():
                        continue
                except Exception:
                    continue
                key_base = (vty,)
                if not isinstance(start, int):
                    # the width comes from a helper `payload_width(bits)`: one row per constant it returns
                    wt = None
                    l_ = lin(strip_casts(rg[2][0]))
                    calls_ = [a_ for a_ in l_[0] if a_[0] == 'call' and a_[1] in f.bodies]
                    if len(calls_) == 1 and l_[0][calls_[0]] == -1 and l_[1] == 8 and len(calls_[0][2]) == 1:
                        hb = f.bodies[calls_[0][1]]
                        hrows = []
                        for hq in explore(hb)[0]:
                            if hq.end[0] != 'return' or hq.ret[0] != 'const' or not isinstance(hq.ret[1], int):
                                hrows = None
                                break
                            try:
                                hpf = PathFacts(norm_conds(hq.conds), nonneg=lambda a: True)
                                if hpf.infeasible():
                                    continue
                                r_ = hpf.range_of_term(('init', 1, hb.name_of(1)))
                            except Exception:
                                hrows = None
                                break
                            hrows.append((hq.ret[1], r_.hi() if not r_.empty() else INF))
                        if hrows:
                            bterm = calls_[0][2][0]
                            for W, bhi in hrows:
                                rows.setdefault((vty, W, show(bterm)[:80]), []).append((bterm, bhi, conds, V, e[5]))
                            continue
                    rows.setdefault((vty, None, show(rg[2][0])[:60]), []).append((None, None, conds, V, e[5]))
                    continue
                W = 8 - start
                # the bit-count term the path tests: C - leading_zeros(X) / C - leading_ones(X)
                bterms = []
                for c in conds:
                    for s_ in subterms(c[0]):
                        if s_[0] == 'bin' and s_[1] == 'Sub' and const_of(s_[2]) in (64, 65) and is_call(strip_casts(s_[3]), 'leading_zeros', 'leading_ones') and s_ not in bterms:
                            bterms.append(s_)
                if W == 8:
                    continue
                if len(bterms) != 1:
                    # fewer than 8 bytes of the 8-byte form are written and no single bit-count test is on the path (the count is merged from
                    # two branches, or the width is chosen some other way)
                    rows.setdefault((vty, W, 'unread'), []).append((None, None, conds, V, e[5]))
                    continue
                bterm = bterms[0]
                try:
                    from panics import norm as _norm
                    r_ = pf.range_of_term(_norm(bterm))
                    bhi = r_.hi() if not r_.empty() else INF
                    if bhi >= 64:
                        r2_ = pf.range_of_term(bterm)
                        if not r2_.empty():
                            bhi = min(bhi, r2_.hi())
                except Exception:
                    bhi = INF
                rows.setdefault((vty, W, show(bterm)[:80]), []).append((bterm, bhi, conds, V, e[5]))
        for (vty, W, desc), occ in sorted(rows.items(), key=str):
            n += 1
            loc = f"{occ[0][4].get('file')}:{occ[0][4].get('line')}"
            d = f'bit-length[{vty}:{W}:{desc[:40]}]'
            verdict = 'ok'
            why = ''
            for (bterm, bhi, conds, V, _t) in occ:
                if bterm is None or W is None:
                    verdict, why = 'unread', 'the width or the bit count on this path is computed in a form this rule does not read'
                    break
                if W == 8:
                    continue
                bt = strip_casts(bterm)
                if not (bt[0] == 'bin' and bt[1] == 'Sub' and const_of(bt[2]) in (64, 65) and is_call(strip_casts(bt[3]), 'leading_zeros', 'leading_ones')):
                    verdict, why = 'unread', f'the bit count {show(bterm)[:50]} is not C - leading_zeros(x) / C - leading_ones(x)'
                    break
                if bhi == INF:
                    verdict, why = 'unread', 'no upper bound on the bit count is known on this path'
                    break
                C = const_of(bt[2])
                K = 64 - C + bhi          # x < 2^K (leading_zeros) / v >= -2^K (leading_ones)
                fn_ = canon(strip_casts(bt[3])[1]).split('::')[-1]
                X = deref_all(strip_casts(strip_casts(bt[3])[2][0]))
                shift = 0
                if X[0] == 'bin' and X[1] == 'Shl' and isinstance(const_of(X[3]), int):
                    shift = const_of(X[3])
                    X = deref_all(strip_casts(X[2]))
                folded = X[0] == 'bin' and X[1] == 'BitXor' and any(s_[0] == 'bin' and s_[1] == 'Shr' and const_of(s_[3]) == 63 for s_ in subterms(X))
                plain = (X == V) or (show(X) == show(V))
                if not (folded or plain):
                    verdict, why = 'unread', f'the bit count is taken of {show(X)[:50]}, which this rule does not relate to the value written'
                    break
                Kv = K - shift            # bound exponent of |v| (v < 2^Kv, and for signed forms v >= -2^Kv)
                need = 8 * W - (1 if vty == 'i64' else 0)
                if Kv > need:
                    lo_ = f'-2^{Kv}' if (vty == 'i64' and (folded or fn_ == 'leading_ones')) else '0'
                    verdict = 'bad'
                    why = (f'on this path the bit count is at most {bhi}, i.e. the value may be anything in [{lo_}, 2^{Kv}), and its low {W} byte(s) are written; read back as '
                           f'{"a signed" if vty == "i64" else "an unsigned"} {8 * W}-bit integer only [{"-2^" + str(8 * W - 1) if vty == "i64" else "0"}, 2^{need}) comes back unchanged'
                           + (' (the sign bit is not counted)' if vty == 'i64' else ''))
                    break
            if verdict == 'ok':
                run.proved(rule, p, d, f'every value that reaches this {W}-byte form fits it', loc)
            elif verdict == 'bad':
                run.violation(rule, p, d, why, loc)
            else:
                run.undecided(rule, p, d, why + ': not decided', loc)
    run.count('bitlen_rows', n)
