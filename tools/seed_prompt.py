#!/usr/bin/env python3
"""Print the prompt given to a seeding sub-agent for one property (only the property text + its worktree)."""
import json, sys
pid = sys.argv[1]
wt = sys.argv[2] if len(sys.argv) > 2 else f"/tmp/seed/{pid}"
for l in open('/verif/properties.jsonl'):
    p = json.loads(l)
    if p['id'] == pid:
        break
else:
    sys.exit("no such property")
mech = "\n".join(f"  - {m['name']} ({m['where']})" for m in p['anchors']['mechanism'])
print(f"""You are helping test a verification tool by mutation. You work ONLY inside the git worktree `{wt}` (a checkout of the Rust library b41sh/jsonb: a PostgreSQL-style binary JSONB encoding, JSON text parser, JSONPath parser/evaluator and byte-level JSONB functions). Do not touch `/repo` or `/verif`, and do not look into `/verif`. The sandbox is offline: always pass `--offline` to cargo. A warm `target/` directory is already in the worktree.

Here is a semantic property the library is supposed to satisfy:

  id: {p['id']}
  title: {p['title']}
  statement: {p['statement']}
  quantified over: {p['quantifier']['text']}
  why the existing tests cannot settle it: {p['why_tests_cant']}
  files involved: {', '.join(p['anchors']['files'])}
  mechanisms meant to make it hold:
{mech}
  observed at: {', '.join(p['anchors'].get('observe_at', []))}

YOUR TASK: produce TWO independent, realistic source changes ("A" and "B") to the library under `{wt}/src`, each of which BREAKS this property while the crate still compiles and the existing test suite still passes. They should look like plausible developer mistakes or "optimisations" (an off-by-one, a dropped or weakened guard, a wrong constant or table row, a swapped argument, a skipped step on one path, two sites that each look fine alone but disagree, a lossy conversion, a refactor that forgets a case…), NOT sabotage that ordinary use would expose at once. Prefer changes that need something specific to manifest: an unusual input, a particular multi-step sequence of operations, a rarely taken branch, extreme arguments, or two cooperating sites. A and B must touch different mechanisms/functions, and each should be small (typically 1-15 changed lines). Do not change tests, Cargo.toml, or public signatures.

For each of A and B:
 1. Start from a clean tree (`git -C {wt} checkout -- . && git -C {wt} status --short` shows nothing under src/).
 2. Make the change under `{wt}/src`.
 3. Check it compiles and the existing suite still passes: `cd {wt} && cargo test --offline --no-fail-fast 2>&1 | grep -E "^test result|FAILED"` must show 2 passed in the unit tests and 69 passed / 1 failed in `tests/it` — the single failing test `functions::test_to_serde_json` fails on the unchanged tree too and must be the ONLY failure.
 4. Write a demonstration as a stand-alone integration test file `{wt}/tests/seed_{{A|B}}.rs` that uses only the public API of the `jsonb` crate (e.g. `jsonb::parse_value`, `jsonb::from_slice`, `jsonb::to_string`, `jsonb::compare`, `jsonb::jsonpath::parse_json_path`, `jsonb::keypath::parse_key_paths`, `jsonb::Value`, `jsonb::Number`, …), states in a comment which clause of the property it checks, and FAILS with your change but PASSES on the unchanged tree. Run it both ways: `cargo test --offline --test seed_A` with the change applied (must fail) and after saving the diff and running `git checkout -- src` (must pass; NEVER use `git stash`: the stash is shared by all worktrees of this repository and other agents work in sibling worktrees — use `git diff -- src > file`, `git checkout -- src`, `git apply file` instead).
 5. Save the change as `{wt}/seed_{{A|B}}.diff` with `git -C {wt} diff -- src > {wt}/seed_A.diff` (paths relative to the repo root, so that `git apply` works in another checkout), and write `{wt}/seed_{{A|B}}.md` with: the property id, one paragraph on what the change does and why it breaks the property, what specific input / sequence / condition is needed for it to manifest, and the exact commands you ran with their observed outcomes.
 6. Restore the tree (`git -C {wt} checkout -- src`) before starting the next one; leave the `tests/seed_*.rs`, `seed_*.diff`, `seed_*.md` files in place (untracked).

Rules: the demonstration must test behaviour the property statement actually promises (not an internal detail); the change must not be caught by the existing suite; do not weaken or edit existing tests or golden files (`git status` must show no modified files under tests/). If after honest effort you can only produce one valid change, deliver one and say so. Finish with a short report listing, for A and B: files/functions changed, a one-line description, and the outcomes of the three runs (suite with change, demo with change, demo without change).""")
