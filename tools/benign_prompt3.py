#!/usr/bin/env python3
"""Print the prompt given to a sub-agent that produces BEHAVIOUR-PRESERVING changes near one property
(only the property text + its worktree).  Used to test the checks for false alarms."""
import json, sys
pid = sys.argv[1]
wt = sys.argv[2] if len(sys.argv) > 2 else f"/tmp/benign/{pid}"
for l in open('/verif/properties.jsonl'):
    p = json.loads(l)
    if p['id'] == pid:
        break
else:
    sys.exit("no such property")
mech = "\n".join(f"  - {m['name']} ({m['where']})" for m in p['anchors']['mechanism'])
print(f"""You are helping test a verification tool for FALSE ALARMS. You work ONLY inside the git worktree `{wt}` (a checkout of the Rust library b41sh/jsonb: a PostgreSQL-style binary JSONB encoding, JSON text parser, JSONPath parser/evaluator and byte-level JSONB functions). Do not touch `/repo` or `/verif`, and do not look into `/verif`. The sandbox is offline: always pass `--offline` to cargo. A warm `target/` directory is already in the worktree.

Here is a semantic property the library satisfies (or is meant to satisfy):

  id: {p['id']}
  title: {p['title']}
  statement: {p['statement']}
  quantified over: {p['quantifier']['text']}
  files involved: {', '.join(p['anchors']['files'])}
  mechanisms that make it hold:
{mech}
  observed at: {', '.join(p['anchors'].get('observe_at', []))}

YOUR TASK: produce THREE independent source changes ("R1", "R2", "R3") under `{wt}/src`, each touching the code these mechanisms live in, each of which a maintainer might realistically make, and each of which KEEPS THE PROPERTY TRUE FOR EVERY INPUT (it must not change any observable behaviour that the property constrains; ideally it changes no observable behaviour at all). The crate must still compile and the existing test suite must still pass. They are ordinary maintenance edits, of three different kinds size:

  R1 (cross-cutting mechanical edit over several functions): one uniform, behaviour-preserving transformation applied consistently to at least four functions of the mechanism — e.g. introduce a small private wrapper/newtype with methods (a byte cursor `struct Buf<'a>(&'a [u8])` with `u32_at(off)`, a `struct Offset(usize)`, a `struct Elem<'a> {{ entry: JEntry, payload: &'a [u8] }}` replacing the `(JEntry, &[u8])` tuples) and route the existing code through it; or replace every `match x {{ Ok(v) => v, Err(_) => return .. }}` by `let else` / `?` / `map_err`; or replace every explicit `as usize` / `as u32` conversion whose operand provably fits by `usize::try_from(..).unwrap()` / `u32::try_from(..).expect(..)` or the reverse; or turn tuple-like private enum variants into struct-like ones (`Position::Container {{ offset, length }}`) and update every use.
  R2 (different control flow, same result): re-express one algorithm with a genuinely different control structure that yields identical results for every input — two loops fused into one or one loop split in two, a flag-and-break loop turned into a helper with early return (or the reverse), a recursive private helper turned into an explicit work-list loop (or a work-list loop into bounded recursion with the same traversal order), a `match` ladder turned into a lookup table/array of function pointers or a table turned into a `match`, a sentinel value instead of an `Option`, computing a running offset incrementally instead of recomputing it (or the reverse).
  R3 (robustness and hygiene edits that cannot change behaviour on valid or invalid input): add `debug_assert!`s of facts that always hold, add `#[inline]`/`#[must_use]`/`const` where legal, replace `unsafe {{ from_utf8_unchecked(..) }}` by the checked form *only where the bytes were already validated on that path* (keeping the same result), replace an `unwrap()` that cannot fail by `expect("reason")` or by a pattern that makes the impossibility explicit, reserve capacity, narrow visibility (`pub(crate)` -> private) where possible, remove a dead parameter or dead branch that is provably unreachable, deduplicate two byte-identical private functions.
Each change should be 10-100 changed lines, touch a different function than the other two where possible, and must not change tests, Cargo.toml, public signatures or documented behaviour. Do NOT include anything that weakens a check, changes a constant's value, changes which inputs are accepted/rejected, or alters output bytes/text in any case — if you are not sure a rewrite is equivalent in every edge case (empty input, maximum lengths, negative/extreme integers, NaN/-0.0, nested/empty containers, invalid input), choose a different rewrite.

For each of R1, R2, R3:
 1. Start from a clean tree (`git -C {wt} checkout -- src && git -C {wt} status --short` shows nothing under src/).
 2. Make the change under `{wt}/src`.
 3. Check it compiles and the existing suite still passes: `cd {wt} && cargo test --offline --no-fail-fast 2>&1 | grep -E "^test result|FAILED"` must show 2 passed in the unit tests and 69 passed / 1 failed in `tests/it` — the single failing test `functions::test_to_serde_json` fails on the unchanged tree too and must be the ONLY failure.
 4. Write a differential sanity test `{wt}/tests/benign_{{R1|R2|R3}}.rs` using only the public API of the `jsonb` crate that exercises the changed code on a good spread of inputs including edge cases and asserts concrete expected results that you first observed on the UNCHANGED tree (so the test passes both without and with your change). Run it both ways.
 5. Save the change with `git -C {wt} diff -- src > {wt}/benign_R1.diff` (paths relative to the repo root) and write `{wt}/benign_R1.md`: property id, what was changed, and a careful argument why behaviour is unchanged (or why the property still holds for every input), listing the edge cases you considered.
 6. Restore the tree (`git -C {wt} checkout -- src`) before starting the next one; leave the `tests/benign_*.rs`, `benign_*.diff`, `benign_*.md` files in place (untracked). NEVER use `git stash` (the stash is shared by all worktrees of this repository and other agents work in sibling worktrees).

Finish with a short report listing, for R1-R3: files/functions changed, a one-line description, and the outcomes of the runs.""")
