#!/bin/sh
# usage: tools/why.sh <benign-or-seed dir name> <PID>...  — print rule / reason of each violation
d=/verif/benign/$1; [ -d $d ] || d=/verif/seeded/$1
id=$1; shift
/verif/tools/try_dev.sh $d/patch.diff "$@" 2>&1 | grep -A3 "rule=\|^\[" | grep -v "^VIOL\|KNOWN" | grep "rule=\|reason\|^\[" | cut -c1-${WHYW:-420}
