"""Rules about the documented binary layout: constants, masks, writer/reader tag tables, measured lengths
(R01.1-R01.7, shared with C06/C07)."""
import re
from sym import Explorer, explore, show, lin, subterms
from pat import called, canon, is_call, agg_variant, strip_casts, const_of, find_terms, deref_all
from mir import loc as mloc
from accounting import Accounting

C = 'constants::'


def cv(facts, name):
    return facts.const_val(C + name)


# ------------------------------------------------------------------ R01.1 documented constants

README_ROWS = [
    # (regex over README text, constant)
    (r'`scalar` container header:\s*`0x([0-9A-Fa-f]{8})`', 'SCALAR_CONTAINER_TAG'),
    (r'`object` container header:\s*`0x([0-9A-Fa-f]{8})`', 'OBJECT_CONTAINER_TAG'),
    (r'`array` container header:\s*`0x([0-9A-Fa-f]{8})`', 'ARRAY_CONTAINER_TAG'),
    (r'`null` JEntry header:\s*`0x([0-9A-Fa-f]{8})`', 'NULL_TAG'),
    (r'`string` JEntry header:\s*`0x([0-9A-Fa-f]{8})`', 'STRING_TAG'),
    (r'`number` JEntry header:\s*`0x([0-9A-Fa-f]{8})`', 'NUMBER_TAG'),
    (r'`false` JEntry header:\s*`0x([0-9A-Fa-f]{8})`', 'FALSE_TAG'),
    (r'`true` JEntry header:\s*`0x([0-9A-Fa-f]{8})`', 'TRUE_TAG'),
    (r'`container` JEntry header:?\s*`0x([0-9A-Fa-f]{8})`', 'CONTAINER_TAG'),
]


def r01_1(ctx, run, rule='R01.1'):
    f = ctx.facts
    txt = ctx.readme
    n = 0
    for rx, cname in README_ROWS:
        m = re.search(rx, txt)
        c = f.consts.get(C + cname)
        if m is None:
            run.violation(rule, 'README.md', f'doc-row[{cname}]', 'the README no longer documents this header value (oracle lost)')
            continue
        if c is None or c.get('val') is None:
            run.undecided(rule, C + cname, f'const[{cname}]', 'constant not found in the crate (anchor lost)')
            continue
        doc = int(m.group(1), 16)
        n += 1
        if doc != c['val']:
            run.violation(rule, C + cname, f'const[{cname}]', f'value {c["val"]:#010x} differs from the documented {doc:#010x} (README "Encoding format")', mloc(c))
        else:
            run.proved(rule, C + cname, f'const[{cname}]', f'= {doc:#010x} as documented', mloc(c))
    # one-byte prefixes are the top byte of the container tags
    for p, t in (('SCALAR_PREFIX', 'SCALAR_CONTAINER_TAG'), ('OBJECT_PREFIX', 'OBJECT_CONTAINER_TAG'), ('ARRAY_PREFIX', 'ARRAY_CONTAINER_TAG')):
        a, b = cv(f, p), cv(f, t)
        if a is None or b is None:
            run.undecided(rule, C + p, f'const[{p}]', 'constant not found (anchor lost)')
        elif a != (b >> 24):
            run.violation(rule, C + p, f'const[{p}]', f'{a:#x} is not the first byte of {t} ({b:#010x})', mloc(f.consts[C + p]))
        else:
            run.proved(rule, C + p, f'const[{p}]', f'first byte of {t}')
    # the README's worked example must be consistent with the constants
    ex = re.findall(r'^0x([0-9a-fA-F]+)\s+(.*)$', txt, re.M)
    exp = {'array container header': 'ARRAY_CONTAINER_TAG', 'false JEntry header': 'FALSE_TAG', 'number JEntry header': 'NUMBER_TAG',
           'container JEntry header': 'CONTAINER_TAG', 'object container header': 'OBJECT_CONTAINER_TAG',
           'string key JEntry header': 'STRING_TAG', 'string value JEntry header': 'STRING_TAG'}
    for hexs, desc in ex:
        for k, cname in exp.items():
            if desc.startswith(k) and len(hexs) == 8:
                word = int(hexs, 16)
                val = cv(f, cname)
                mask = cv(f, 'CONTAINER_HEADER_TYPE_MASK') if 'container header' in k else cv(f, 'JENTRY_TYPE_MASK')
                if val is not None and mask is not None:
                    if word & mask != val:
                        run.violation(rule, C + cname, f'example-row[{desc.strip()[:40]}]', f'README example word {word:#010x} has type bits {word & mask:#010x}, constant is {val:#010x}')
                    else:
                        run.proved(rule, C + cname, f'example-row[{k}]', 'README example word carries this tag')
    run.floor(rule, 'documented header constants', n, 9)


# ------------------------------------------------------------------ R01.2 masks partition the word

def r01_2(ctx, run, rule='R01.2'):
    f = ctx.facts
    g = lambda n: cv(f, n)
    names = ['CONTAINER_HEADER_TYPE_MASK', 'CONTAINER_HEADER_LEN_MASK', 'JENTRY_IS_OFF_FLAG', 'JENTRY_TYPE_MASK', 'JENTRY_OFF_LEN_MASK']
    if any(g(n) is None for n in names):
        run.undecided(rule, '<crate>', 'masks', 'mask constants not found (anchor lost)')
        return
    tm, lm = g('CONTAINER_HEADER_TYPE_MASK'), g('CONTAINER_HEADER_LEN_MASK')
    ok = (tm & lm) == 0 and (tm | lm) == 0xFFFFFFFF and bin(tm).count('1') == 3 and bin(lm).count('1') == 29 and lm == (1 << 29) - 1
    (run.proved if ok else run.violation)(rule, C + 'CONTAINER_HEADER_*_MASK', 'partition[header]',
                                           f'type mask {tm:#010x} (3 bits) and length mask {lm:#010x} (low 29 bits) are disjoint and cover the word' if ok else
                                           f'type mask {tm:#010x} / length mask {lm:#010x} do not partition the 32-bit header into 3 + 29 bits')
    of, jt, jl = g('JENTRY_IS_OFF_FLAG'), g('JENTRY_TYPE_MASK'), g('JENTRY_OFF_LEN_MASK')
    ok = (of & jt) == 0 and (of & jl) == 0 and (jt & jl) == 0 and (of | jt | jl) == 0xFFFFFFFF and jl == (1 << 28) - 1 and bin(jt).count('1') == 3
    (run.proved if ok else run.violation)(rule, C + 'JENTRY_*_MASK', 'partition[jentry]',
                                           f'flag {of:#010x} / type {jt:#010x} / length {jl:#010x} partition the entry word (1+3+28)' if ok else
                                           f'flag {of:#010x} / type {jt:#010x} / length {jl:#010x} do not partition the entry word into 1 + 3 + 28 bits')
    heads = ['SCALAR_CONTAINER_TAG', 'OBJECT_CONTAINER_TAG', 'ARRAY_CONTAINER_TAG']
    ents = ['NULL_TAG', 'STRING_TAG', 'NUMBER_TAG', 'FALSE_TAG', 'TRUE_TAG', 'CONTAINER_TAG']
    for fam, mask, nm in ((heads, tm, 'header'), (ents, jt, 'jentry')):
        vals = [g(n) for n in fam]
        if any(v is None for v in vals):
            run.undecided(rule, '<crate>', f'tags[{nm}]', 'tag constants not found (anchor lost)')
            continue
        inside = all((v & ~mask) == 0 for v in vals)
        distinct = len(set(vals)) == len(vals)
        if inside and distinct:
            run.proved(rule, '<crate>', f'tags[{nm}]', f'{len(vals)} tags lie inside their type mask and are pairwise distinct')
        else:
            run.violation(rule, '<crate>', f'tags[{nm}]', f'tags {[hex(v) for v in vals]} are not pairwise distinct values inside mask {mask:#010x}')
    nums = ['NUMBER_ZERO', 'NUMBER_NAN', 'NUMBER_INF', 'NUMBER_NEG_INF', 'NUMBER_INT', 'NUMBER_UINT', 'NUMBER_FLOAT']
    vals = [g(n) for n in nums]
    if any(v is None for v in vals) or len(set(vals)) != len(vals):
        run.violation(rule, '<crate>', 'tags[number]', f'number tag bytes {vals} are not 7 distinct constants')
    else:
        run.proved(rule, '<crate>', 'tags[number]', '7 number tag bytes are pairwise distinct')


# ------------------------------------------------------------------ R01.3 writer / reader tag tables

VALUE = 'value::Value'
VARIANTS = ['Null', 'Bool', 'String', 'Number', 'Array', 'Object']


def make_fn_table(facts):
    """JEntry::make_*: -> (type_code const, length term kind)"""
    out = {}
    for name in ('make_null_jentry', 'make_true_jentry', 'make_false_jentry', 'make_string_jentry', 'make_number_jentry', 'make_container_jentry'):
        b = facts.one('jentry::JEntry::' + name)
        if b is None:
            continue
        ps, _ = explore(b)
        rets = [p for p in ps if p.end[0] == 'return']
        if len(rets) != 1:
            continue
        r = rets[0].ret
        if agg_variant(r) and r[1][1] == 'jentry::JEntry':
            tc = const_of(r[2][0])
            ln = r[2][1]
            out[name] = (tc, ln)
    return out


def r01_3(ctx, run, rule='R01.3'):
    f = ctx.facts
    g = lambda n: cv(f, n)
    tagname = {g(n): n for n in ['NULL_TAG', 'STRING_TAG', 'NUMBER_TAG', 'FALSE_TAG', 'TRUE_TAG', 'CONTAINER_TAG']}
    headname = {g(n): n for n in ['SCALAR_CONTAINER_TAG', 'OBJECT_CONTAINER_TAG', 'ARRAY_CONTAINER_TAG']}
    mk = make_fn_table(f)
    run.floor(rule, 'JEntry::make_* constructors', len(mk), 6)
    want = {'make_null_jentry': 'NULL_TAG', 'make_true_jentry': 'TRUE_TAG', 'make_false_jentry': 'FALSE_TAG',
            'make_string_jentry': 'STRING_TAG', 'make_number_jentry': 'NUMBER_TAG', 'make_container_jentry': 'CONTAINER_TAG'}
    for name, (tc, ln) in mk.items():
        exp = g(want[name])
        fn = 'jentry::JEntry::' + name
        if tc != exp:
            run.violation(rule, fn, 'type_code', f'constructor writes type code {tc} but its kind is {want[name]} = {exp:#010x}')
        else:
            run.proved(rule, fn, 'type_code', f'= {want[name]}')
        lc = const_of(ln)
        if name in ('make_null_jentry', 'make_true_jentry', 'make_false_jentry'):
            if lc != 0:
                run.violation(rule, fn, 'length', f'payload-less entry is given length {show(ln)}')
            else:
                run.proved(rule, fn, 'length', '= 0')
        else:
            inner = strip_casts(ln)
            if inner[0] == 'init' and inner[1] == 1:
                run.proved(rule, fn, 'length', '= the length argument')
            else:
                run.violation(rule, fn, 'length', f'length field is {show(ln)}, not the length argument')
    # encoder: Value variant -> make_* / callee
    enc = {}
    b = f.one("ser::Encoder::<'a>::encode_value")
    if b is None:
        run.undecided(rule, 'ser::Encoder::encode_value', 'body', 'function not found (anchor lost)')
    else:
        ps, capped = explore(b)
        for p in ps:
            if p.end[0] != 'return':
                continue
            var = None
            for c in p.conds:
                if c[0][0] == 'discr' and c[1] == 'eq':
                    var = c[2]
                    break
            if var is None:
                continue
            vname = VARIANTS[var] if var < len(VARIANTS) else str(var)
            # adt order check
            vs = f.adts.get(VALUE, {}).get('variants', [])
            if var < len(vs):
                vname = vs[var]['name']
            made = [canon(e[1]).split('::')[-1] for e in p.calls() if called(e[1], 'JEntry::make_null_jentry', 'JEntry::make_true_jentry',
                    'JEntry::make_false_jentry', 'JEntry::make_string_jentry', 'JEntry::make_number_jentry', 'JEntry::make_container_jentry')]
            boolv = None
            for c in p.conds:
                if c[0][0] != 'discr' and isinstance(c[2], bool) and 'Bool' in show(c[0]):
                    boolv = c[2]
            key = vname if vname != 'Bool' else f'Bool({str(boolv).lower()})'
            enc.setdefault(key, set()).update(made)
            ret = deref_all(p.ret)
            if not str(b.local_ty(0).get('s', '')).endswith('JEntry'):
                # the function does not return the entry word any more (it stores it itself): which constructor built it is read from the calls above
                if not made:
                    run.undecided(rule, b.path, f'arm[{key}]', f'no JEntry constructor call was found on the path for {key}: the entry word written for it is not decided')
            elif not (is_call(ret, *['JEntry::' + m for m in want])):
                run.violation(rule, b.path, f'arm[{key}]', f'entry returned for {key} is not built by a JEntry constructor: {show(ret)}')
        expect = {'Null': 'make_null_jentry', 'Bool(true)': 'make_true_jentry', 'Bool(false)': 'make_false_jentry',
                  'String': 'make_string_jentry', 'Number': 'make_number_jentry', 'Array': 'make_container_jentry', 'Object': 'make_container_jentry'}
        for k, m in expect.items():
            got = enc.get(k)
            if got == {m}:
                run.proved(rule, b.path, f'arm[{k}]', f'-> {m}')
            else:
                run.violation(rule, b.path, f'arm[{k}]', f'Value::{k} must be written with {m}, found {sorted(got) if got else "no arm"}', f'{b.file}:{b.line}')
    # encoder headers
    for fn, tag in (('encode_scalar', 'SCALAR_CONTAINER_TAG'), ('encode_array', 'ARRAY_CONTAINER_TAG'), ('encode_object', 'OBJECT_CONTAINER_TAG')):
        b = f.one(f"ser::Encoder::<'a>::{fn}")
        if b is None:
            run.undecided(rule, f'ser::Encoder::{fn}', 'header', 'function not found (anchor lost)')
            continue
        check_header_write(f, run, rule, b, tag)
    # Encoder::encode dispatch
    b = f.one("ser::Encoder::<'a>::encode")
    if b is not None:
        ps, _ = explore(b)
        vs = [v['name'] for v in f.adts.get(VALUE, {}).get('variants', [])]
        ai, oi = vs.index('Array'), vs.index('Object')
        # per Value variant: the writers called on the paths that variant can take (tests of the discriminant of the value argument only;
        # a prelude that matches the value a second time, or an Option built from it, adds conditions but no other variant)
        per = {k: [] for k in range(len(vs))}
        for p in ps:
            if p.end[0] != 'return':
                continue
            possible = set(range(len(vs)))
            for c in p.conds:
                if c[0][0] == 'discr' and is_arg_value(c[0][1], b):
                    if c[1] == 'eq' and isinstance(c[2], int):
                        possible &= {c[2]}
                    elif c[1] == 'ne':
                        possible -= set(c[2] if isinstance(c[2], tuple) else (c[2],))
            callee = [canon(e[1]).split('::')[-1] for e in p.calls() if called(e[1], 'Encoder::encode_array', 'Encoder::encode_object', 'Encoder::encode_scalar')]
            for k in possible:
                per[k].append(tuple(callee))
        want_of = lambda k: 'encode_array' if k == ai else 'encode_object' if k == oi else 'encode_scalar'
        table = {vs[k]: sorted(set(v_)) for k, v_ in per.items()}
        ok = all(v_ and set(v_) == {(want_of(k),)} for k, v_ in per.items())
        crossed = any(any(c_ and c_ != (want_of(k),) for c_ in v_) for k, v_ in per.items())
        inline = [vs[k] for k, v_ in per.items() if any(c_ == () for c_ in v_)]
        if ok:
            run.proved(rule, b.path, 'dispatch', 'Array->encode_array, Object->encode_object, other->encode_scalar', f'{b.file}:{b.line}')
        elif crossed:
            run.violation(rule, b.path, 'dispatch', f'top-level dispatch table is {table}', f'{b.file}:{b.line}')
        else:
            run.undecided(rule, b.path, 'dispatch', f'top-level dispatch table is {table}: {", ".join(inline) or "some variants"} reach(es) no encode_* writer on some path (written inline or by a '
                          'writer not recognised by name): not decided', f'{b.file}:{b.line}')
    else:
        run.undecided(rule, 'ser::Encoder::encode', 'dispatch', 'function not found (anchor lost)')
    # decoder: header switch
    b = f.one("de::Decoder::<'a>::decode_jsonb")
    if b is None:
        run.undecided(rule, 'de::Decoder::decode_jsonb', 'switch', 'function not found (anchor lost)')
    else:
        ps, _ = explore(b)
        table = {}
        for p in ps:
            if p.end[0] != 'return':
                continue
            hc = [c for c in p.conds if c[0][0] == 'bin' and c[0][1] == 'BitAnd' and const_of(c[0][3]) == g('CONTAINER_HEADER_TYPE_MASK')]
            if not hc:
                continue
            callee = [canon(e[1]).split('::')[-1] for e in p.calls() if called(e[1], 'Decoder::decode_scalar', 'Decoder::decode_array', 'Decoder::decode_object')]
            c = hc[0]
            if is_call(p.ret, 'FromResidual::from_residual'):
                continue
            if c[1] == 'eq':
                table[headname.get(c[2], c[2])] = callee
            else:
                r = p.ret
                table['otherwise'] = 'Err' if (agg_variant(r) and r[1][2] == 'Err') else show(r)
        exp = {'SCALAR_CONTAINER_TAG': ['decode_scalar'], 'ARRAY_CONTAINER_TAG': ['decode_array'], 'OBJECT_CONTAINER_TAG': ['decode_object'], 'otherwise': 'Err'}
        for k, v in exp.items():
            got = table.get(k)
            if got == v:
                run.proved(rule, b.path, f'header-arm[{k}]', f'-> {v}')
            elif got is None or got == [] or (isinstance(got, str) and got != 'Err' and k == 'otherwise' and 'Err' not in got and not got.startswith('Result::Ok')):
                run.undecided(rule, b.path, f'header-arm[{k}]', f'expected {v}; this arm was not recognised (the header is read or dispatched through a helper this rule does not know by name?): '
                              'not decided', f'{b.file}:{b.line}')
            else:
                run.violation(rule, b.path, f'header-arm[{k}]', f'expected {v}, found {got}', f'{b.file}:{b.line}')
    # decoder: entry switch -> constructed variant
    b = f.one("de::Decoder::<'a>::decode_scalar")
    if b is None:
        run.undecided(rule, 'de::Decoder::decode_scalar', 'switch', 'function not found (anchor lost)')
    else:
        ps, _ = explore(b)
        table = {}
        cond_err = {}
        for p in ps:
            if p.end[0] != 'return':
                continue
            tc = [c for c in p.conds if c[0][0] == 'field' and c[0][2] == 'type_code']
            if not tc:
                continue
            c = tc[0]
            r = p.ret
            res = None
            if agg_variant(r) and r[1][2] == 'Ok':
                v = r[2][0]
                if agg_variant(v) and v[1][1] == VALUE:
                    res = v[1][2]
                    if res == 'Bool':
                        res = f'Bool({str(const_of(v[2][0])).lower()})'
            elif agg_variant(r) and r[1][2] == 'Err':
                res = 'Err'
            elif is_call(deref_all(r), 'Decoder::decode_jsonb'):
                res = 'nested'
            elif is_call(r, 'FromResidual::from_residual'):
                continue
            key = tagname.get(c[2], c[2]) if c[1] == 'eq' else 'otherwise'
            if res == 'Err' and key != 'otherwise' and any(cc not in tc and cc[0][0] != 'discr' and not is_call(cc[0], 'Try::branch') for cc in p.conds):
                # an explicit error for *some* entries of a valid kind, selected by a further test on the entry (its length, ...): whether the
                # encoder ever writes such an entry is a question about values, which this table does not answer
                cond_err.setdefault(key, []).append(next(show(cc[0])[:60] for cc in p.conds if cc not in tc and cc[0][0] != 'discr' and not is_call(cc[0], 'Try::branch')))
                continue
            table.setdefault(key, set()).add(res)
        exp = {'NULL_TAG': {'Null'}, 'TRUE_TAG': {'Bool(true)'}, 'FALSE_TAG': {'Bool(false)'}, 'STRING_TAG': {'String'},
               'NUMBER_TAG': {'Number'}, 'CONTAINER_TAG': {'nested'}, 'otherwise': {'Err'}}
        for k, v in exp.items():
            if table.get(k) == v and cond_err.get(k):
                run.undecided(rule, b.path, f'entry-arm[{k}]', f'-> {sorted(v)[0]}, but entries of this kind that satisfy a further test ({cond_err[k][0]}) are rejected with an explicit error: '
                              'whether the encoder can write such an entry is not decided by this table', f'{b.file}:{b.line}')
            elif table.get(k) == v:
                run.proved(rule, b.path, f'entry-arm[{k}]', f'-> {sorted(v)[0]}')
            elif not table.get(k) or table.get(k) <= {None}:
                run.undecided(rule, b.path, f'entry-arm[{k}]', f'expected {sorted(v)}; no arm for this tag was recognised (restructured?): not decided', f'{b.file}:{b.line}')
            else:
                run.violation(rule, b.path, f'entry-arm[{k}]', f'expected {sorted(v)}, found {sorted(map(str, table.get(k, [])))} — the decoder would not invert the encoder for this tag', f'{b.file}:{b.line}')
    for fn, var in (('decode_array', 'Array'), ('decode_object', 'Object')):
        b = f.one(f"de::Decoder::<'a>::{fn}")
        if b is None:
            run.undecided(rule, f'de::Decoder::{fn}', 'result', 'function not found (anchor lost)')
            continue
        ps, _ = explore(b)
        oks = set()
        for p in ps:
            if p.end[0] == 'return' and agg_variant(p.ret) and p.ret[1][2] == 'Ok':
                v = p.ret[2][0]
                oks.add(v[1][2] if agg_variant(v) else show(v))
        if oks == {var}:
            run.proved(rule, b.path, 'result', f'Ok(Value::{var})')
        else:
            run.violation(rule, b.path, 'result', f'successful returns construct {sorted(oks)}, expected Value::{var}', f'{b.file}:{b.line}')


def check_header_write(f, run, rule, b, tag, count_ok=None):
    """The first append of the function is write_u32(TAG | count as u32) (or the bare TAG for scalars)."""
    ps, _ = explore(b)
    val = cv(f, tag)
    seen = 0
    delegated = False
    for p in ps:
        if p.end[0] in ('unreachable',):
            continue
        w = [e for e in p.calls() if called(e[1], 'WriteBytesExt::write_u32')]
        if not w:
            # the same word appended as `buf.extend_from_slice(&word.to_be_bytes())`
            for e in p.calls():
                if called(e[1], 'Vec::extend_from_slice') and len(e[2]) == 2:
                    a_ = deref_all(e[2][1])
                    if is_call(a_, 'to_be_bytes') and a_[2]:
                        w = [(e[0], e[1], (e[2][0], a_[2][0])) + tuple(e[3:])]
                        break
        if not w:
            if p.end[0] in ('return', 'backedge', 'stop'):
                # the header word may be handed to a helper of this crate that writes it
                deleg = [e for e in p.calls() if e[1] in f.bodies and any(
                    (x[0] == 'bin' and x[1] == 'BitOr' and any(const_of(y) == val for y in (x[2], x[3]))) or const_of(x) == val
                    for a in e[2] for x in subterms(a))]
                if deleg:
                    run.undecided(rule, b.path, 'header', f'the header word is passed to {canon(deleg[0][1]).split("::")[-1]}() instead of being written here: its write is not checked by this rule', f'{b.file}:{b.line}')
                    delegated = True
                    continue
                run.violation(rule, b.path, 'header', f'a path reaches {p.end[0]} without writing the container header', f'{b.file}:{b.line}')
            continue
        seen += 1
        arg = w[0][2][1]
        ok = False
        why = ''
        if tag == 'SCALAR_CONTAINER_TAG':
            ok = const_of(arg) == val
        else:
            if arg[0] == 'bin' and arg[1] == 'BitOr':
                a, c = arg[2], arg[3]
                if const_of(c) == val:
                    a, c = c, a
                if const_of(a) == val:
                    cnt = strip_casts(c)
                    ok = is_call(cnt, 'len')
                    why = show(cnt)
            elif isinstance(const_of(arg), int) and const_of(arg) == val:
                # the bare tag (count 0) is the right header on a path that established that the container is empty
                def _empty(c):
                    t = c[0]
                    if is_call(t, 'is_empty') and c[2] is True:
                        return True
                    if t[0] == 'bin' and t[1] == 'Eq' and c[2] is True and any(const_of(x) == 0 for x in (t[2], t[3])) and any(is_call(strip_casts(x), 'len') for x in (t[2], t[3])):
                        return True
                    if is_call(strip_casts(t), 'len') and c[1] == 'eq' and c[2] == 0:
                        return True
                    return False
                ok = any(_empty(c) for c in p.conds)
        if not ok:
            run.violation(rule, b.path, 'header', f'header word written is {show(arg)}, expected {tag}{"" if tag.startswith("SCALAR") else " | element count"}', f'{b.file}:{b.line}')
            return
    if seen:
        run.proved(rule, b.path, 'header', f'{tag}' + ('' if tag.startswith('SCALAR') else ' | count'))
    elif not delegated:
        run.undecided(rule, b.path, 'header', 'no header write found in this function (anchor lost)', f'{b.file}:{b.line}')


# ------------------------------------------------------------------ R01.5 entry lengths are measured (ghost accounting)

def jentry_len_measure(mk):
    """measure for functions returning a JEntry: its length field as a term"""
    def m(ret):
        r = deref_all(ret)
        if agg_variant(r) and r[1][1] == 'jentry::JEntry':
            return r[2][1]
        if r[0] == 'call':
            nm = canon(r[1]).split('::')[-1]
            if nm in mk:
                tc, ln = mk[nm]
                if const_of(ln) == 0:
                    return ('const', 0, 'usize')
                return strip_casts(r[2][0])
        # a JEntry moved out of an enum payload (Entry::Raw(jentry, data)): its length is by R06.2 len(data)
        return None
    return m


def usize_measure(ret):
    return ret


def atom_norm(a):
    """Equalities between length atoms: str::len(s) == len(as_bytes(s)); String::len likewise; casts transparent."""
    t = a
    if t[0] == 'field' and t[2] == 'length':
        # jentry.length of a callee's result
        return ('lenfield', deref_all(t[1]))
    if t[0] == 'call' and called(t[1], 'str::len', 'String::len', 'slice::len', 'Vec::len', 'len'):
        x = deref_all(t[2][0])
        # look through Deref/AsRef/as_bytes/as_str adapters
        while x[0] == 'call' and called(x[1], 'Deref::deref', 'AsRef::as_ref', 'str::as_bytes', 'String::as_bytes', 'String::as_str', 'Borrow::borrow'):
            x = deref_all(x[2][0])
        return ('bytelen', x)
    if t[0] == 'len':
        x = deref_all(t[1])
        while x[0] == 'call' and called(x[1], 'Deref::deref', 'AsRef::as_ref', 'str::as_bytes', 'String::as_bytes', 'String::as_str'):
            x = deref_all(x[2][0])
        return ('bytelen', x)
    return a


def slice_len_lin(arg):
    x = deref_all(arg)
    while x[0] == 'call' and called(x[1], 'Deref::deref', 'AsRef::as_ref', 'str::as_bytes', 'String::as_bytes', 'String::as_str'):
        x = deref_all(x[2][0])
    # N.to_be_bytes(): a byte array of the integer's width
    if x[0] == 'call' and canon(x[1]).endswith(('to_be_bytes', 'to_le_bytes', 'to_ne_bytes')):
        import re as _re
        m = _re.search(r'impl (\w+)>::to_', x[1])
        w = {'u8': 1, 'i8': 1, 'u16': 2, 'i16': 2, 'u32': 4, 'i32': 4, 'u64': 8, 'i64': 8, 'f64': 8, 'f32': 4}.get(m.group(1) if m else '')
        if w:
            return ({}, w)
    return ({('bytelen', x): 1}, 0)


def is_arg_value(t, b):
    """the term is (a reference chain to) the last parameter of the function — the `value: &Value` of Encoder::encode"""
    t = deref_all(t)
    while t[0] in ('ref', 'deref'):
        t = t[1]
    return t[0] == 'init' and t[1] == b.argc


def writer_contracts(kind):
    """Contracts Δ|buf| for the callees of the encoder (kind='ser') or the builders (kind='builder')."""
    def const(n):
        return lambda ev: ({}, n)

    def arg_lin(i):
        return lambda ev: lin(ev[2][i])

    def res_usize(ev):
        return ({ev[4]: 1}, 0)

    def res_jentry_len(ev):
        return ({('lenfield', ev[4]): 1}, 0)

    cs = [
        (('WriteBytesExt::write_u32',), const(4)),
        (('Vec::extend_from_slice',), lambda ev: slice_len_lin(ev[2][1])),
        (('Vec::push',), const(1)),
    ]
    if kind == 'ser':
        cs += [
            (('Encoder::reserve_jentries',), arg_lin(1)),
            (('Encoder::replace_jentry',), const(0)),
            (('Encoder::encode_value',), res_jentry_len),
            (('Encoder::encode_array', 'Encoder::encode_object', 'Encoder::encode_scalar'), res_usize),
            (('Number::compact_encode',), lambda ev: 'opaque'),
        ]
    else:
        cs += [
            (('builder::reserve_jentries',), arg_lin(1)),
            (('builder::replace_jentry',), const(0)),
            (('builder::write_entry',), res_jentry_len),
            (('ArrayBuilder::build_into', 'ObjectBuilder::build_into'), res_usize),
        ]
    return cs


def r01_5(ctx, run, rule='R01.5', which='ser'):
    f = ctx.facts
    mk = make_fn_table(f)
    if which == 'ser':
        targets = [("ser::Encoder::<'a>::encode_scalar", 'usize'), ("ser::Encoder::<'a>::encode_array", 'usize'),
                   ("ser::Encoder::<'a>::encode_object", 'usize'), ("ser::Encoder::<'a>::encode_value", 'jentry')]
        zero_fns = [("ser::Encoder::<'a>::replace_jentry", 'replace_jentry')]
        reserve = "ser::Encoder::<'a>::reserve_jentries"
    else:
        targets = [("builder::ArrayBuilder::<'a>::build_into", 'usize'), ("builder::ObjectBuilder::<'a>::build_into", 'usize'),
                   ("builder::write_entry", 'jentry')]
        zero_fns = [("builder::replace_jentry", 'replace_jentry')]
        reserve = "builder::reserve_jentries"
    cs = writer_contracts(which)
    # the reserve helper's effect on the buffer is read from its body: resize(old_len + k * arg + c)  =>  appends k * arg + c
    rb = f.body(reserve)
    derived = derive_reserve(rb) if rb is not None else None
    if rb is not None:
        nm_ = tuple(x for x in ('Encoder::reserve_jentries', 'builder::reserve_jentries') if reserve.endswith(x.split('::')[-1]) and x.split('::')[0] in reserve)
        def reserve_contract(ev, derived=derived):
            if derived is None:
                return 'unknown'
            k_, c_, ai = derived
            l_ = lin(ev[2][ai])
            return ({a: v * k_ for a, v in l_[0].items()}, l_[1] * k_ + c_)
        cs = [(names, fn_) for names, fn_ in cs if not any(n_.endswith('reserve_jentries') for n_ in names)] + [(nm_ or ('reserve_jentries',), reserve_contract)]
    # contracts of the writers of the family follow their actual return type: usize = bytes appended; JEntry = its length field; anything else unknown
    fam = [t_[0] for t_ in targets]
    def typed_contract(path_):
        bb_ = f.body(path_)
        if bb_ is None:
            return None
        rt = str(bb_.local_ty(0).get('s', ''))
        if rt == 'usize':
            return lambda ev: ({ev[4]: 1}, 0)
        if rt.endswith('JEntry'):
            return lambda ev: ({('lenfield', ev[4]): 1}, 0)
        return lambda ev: 'unknown'
    fam_short = {('::'.join(p_.replace("::<'a>", '').split('::')[-2:])): p_ for p_ in fam}
    cs2 = []
    for names, fn_ in cs:
        keep = tuple(n_ for n_ in names if n_ not in fam_short)
        if keep:
            cs2.append((keep, fn_))
        for n_ in names:
            if n_ in fam_short:
                tc = typed_contract(fam_short[n_])
                if tc is not None:
                    cs2.append(((n_,), tc))
    cs = cs2
    targets = [(p_, ('usize' if str(f.body(p_).local_ty(0).get('s', '')) == 'usize' else ('jentry' if str(f.body(p_).local_ty(0).get('s', '')).endswith('JEntry') else 'other'))
                if f.body(p_) is not None else k_) for p_, k_ in targets]
    jm = jentry_len_measure(mk)

    def jm2(ret):
        m = jm(ret)
        if m is not None:
            return m
        r = deref_all(ret)
        return ('field', r, 'length', 1)

    for path, kind in targets:
        b = f.body(path)
        if b is None:
            run.undecided(rule, path, 'contract', 'function not found (anchor lost)')
            continue
        if kind == 'other':
            run.undecided(rule, path, 'contract', f'this writer returns {b.local_ty(0).get("s")}, neither a byte count nor an entry word: the relation between what it returns and what it appends is not decided',
                          f'{b.file}:{b.line}')
            continue
        def is_buffer(t, b=b):
            x = deref_all(t)
            if x[0] == 'init':
                ty = b.local_ty(x[1])
                return ty.get('k') == 'ref' and ty['inner'].get('s') == 'std::vec::Vec<u8>'
            if x[0] == 'post':
                x = x[2]
                if x[0] == 'locval':
                    loc = x[1]
                    return loc[0] == 'S' and loc[2][0] == 'field' and loc[2][1] == 'buf'
            return x[0] == 'field' and x[2] == 'buf'
        acc = Accounting(b, usize_measure if kind == 'usize' else jm2, cs, atom_norm, is_buffer=is_buffer)
        probs = acc.run()
        # in write_entry the Raw arm returns the stored entry: its length equals len(data) by R06.2 (checked there)
        probs2 = []
        for k, msg, bb in probs:
            if which == 'builder' and path.endswith('write_entry') and k == 'mismatch' and 'Raw' in msg:
                run.assumed(rule, path, 'arm[Raw]', 'the stored entry word describes the stored payload — established at every push_raw site by R06.2')
                continue
            probs2.append((k, msg, bb))
        if not probs2:
            run.proved(rule, path, 'contract[returned length = bytes appended]', f'{acc.checked} region paths over {acc.regions} regions', f'{b.file}:{b.line}')
        for k, msg, bb in probs2:
            t = b.blocks[bb]['term']
            if k in ('cap', 'unknown'):
                run.undecided(rule, path, 'contract[returned length = bytes appended]', msg, f"{t.get('file')}:{t.get('line')}")
            else:
                run.violation(rule, path, f'contract[returned length = bytes appended]/{k}', msg, f"{t.get('file')}:{t.get('line')}")
    # zero-effect helpers really append nothing; reserve really appends its argument
    for path, nm in zero_fns:
        b = f.body(path)
        if b is None:
            run.undecided(rule, path, 'appends-nothing', 'function not found (anchor lost)')
            continue
        bad = [canon(t['callee'].get('resolved') or t['callee'].get('written') or '') for _, t in b.calls()
               if called(callee_of(t), 'Vec::push', 'Vec::extend_from_slice', 'Vec::resize', 'Vec::insert', 'Write::write_all', 'WriteBytesExt::write_u32', 'Vec::truncate', 'Vec::clear')]
        if bad:
            run.violation(rule, path, 'appends-nothing', f'helper assumed to leave the buffer length unchanged calls {bad}', f'{b.file}:{b.line}')
        else:
            run.proved(rule, path, 'appends-nothing', 'only index-assigns into the buffer')
    b = f.body(reserve)
    if b is None:
        run.undecided(rule, reserve, 'appends-its-argument', 'function not found (anchor lost)')
    elif derived is None:
        run.undecided(rule, reserve, 'appends-its-argument', 'the reserve helper is not a single resize(old_len + k * n + c): how many bytes it appends is not read, and the accounting of its callers is '
                      'not decided', f'{b.file}:{b.line}')
    else:
        k_, c_, ai = derived
        run.proved(rule, reserve, 'appends-its-argument', f'resize(old_len + {k_} * argument{" + " + str(c_) if c_ else ""}): this is the contract used for its callers', f'{b.file}:{b.line}')


def derive_reserve(b):
    """(k, c, argument index) if every return path of the helper performs exactly one resize(buf, old_len + k * arg + c, _)"""
    ps, _ = explore(b)
    out = set()
    for p in ps:
        if p.end[0] != 'return':
            continue
        rs = [e for e in p.calls() if called(e[1], 'Vec::resize')]
        ls = [e for e in p.calls() if called(e[1], 'Vec::len')]
        if len(rs) != 1 or not ls or any(called(e[1], 'Vec::push', 'Vec::extend_from_slice', 'WriteBytesExt::write_u32', 'Write::write_all', 'Vec::truncate') for e in p.calls()):
            return None
        new_len = lin(rs[0][2][1])
        if new_len is None:
            return None
        coef = dict(new_len[0])
        if coef.pop(ls[0][4], None) != 1:
            return None
        if len(coef) != 1:
            return None
        (a, k_), = coef.items()
        a0 = a
        while a0[0] in ('cast', 'deref', 'ref'):
            a0 = a0[2] if a0[0] == 'cast' else a0[1]
        if a0[0] != 'init' or not (1 <= a0[1] <= b.argc):
            return None
        out.add((k_, new_len[1], a0[1] - 1))
    return out.pop() if len(out) == 1 else None


def callee_of(t):
    return t['callee'].get('resolved') or t['callee'].get('written') or ''


# ------------------------------------------------------------------ R01.7 keys sorted and unique at the source

def r01_7(ctx, run, rule='R01.7'):
    f = ctx.facts
    al = f.aliases.get('value::Object')
    if al is None:
        run.undecided(rule, 'value::Object', 'alias', 'type alias not found (anchor lost)')
    else:
        e = al['expands_to']
        ok = e.get('path') == 'std::collections::BTreeMap' and e['args'] and e['args'][0].get('path') == 'std::string::String'
        (run.proved if ok else run.violation)(rule, 'value::Object', 'alias', f"= {e['s']}" if ok else f"Object expands to {e['s']}: keys would not be emitted sorted and unique")
    b = f.one("ser::Encoder::<'a>::encode_object")
    if b is None:
        run.undecided(rule, 'ser::Encoder::encode_object', 'key-source', 'function not found (anchor lost)')
        return
    iters = [t for _, t in b.calls() if called(callee_of(t), 'BTreeMap::iter', 'BTreeMap::keys', 'BTreeMap::values')]
    others = [canon(callee_of(t)) for _, t in b.calls() if 'iter' in canon(callee_of(t)).split('::')[-1] and not called(callee_of(t), 'BTreeMap::iter', 'BTreeMap::keys', 'BTreeMap::values', 'IntoIterator::into_iter')]
    if len(iters) >= 2 and not others:
        run.proved(rule, b.path, 'key-source', 'keys and values are both produced by BTreeMap iteration (sorted, unique), keys phase first')
    else:
        run.undecided(rule, b.path, 'key-source', f'this function is not written as two BTreeMap iterations (keys then values): found {len(iters)} and other iterators {others}; '
                      f'where the key bytes come from is checked by R07.3', f'{b.file}:{b.line}')
    # keys phase strictly before values phase: the first loop must not call encode_value, the second must
    from mir import natural_loops
    loops = natural_loops(b)
    heads = sorted(loops)
    if len(heads) == 2:
        def callees_in(blocks):
            return {canon(callee_of(b.blocks[x]['term'])).split('::')[-1] for x in blocks if b.blocks[x]['term']['k'] == 'call'}
        c1, c2 = callees_in(loops[heads[0]]), callees_in(loops[heads[1]])
        # order of loops in the CFG: the one whose head dominates the other comes first
        from mir import dominates
        first, second = (heads[0], heads[1]) if dominates(b, heads[0], heads[1]) else (heads[1], heads[0])
        cf, cs_ = callees_in(loops[first]), callees_in(loops[second])
        ok = 'encode_value' not in cf and 'extend_from_slice' in cf and 'encode_value' in cs_
        rev = 'encode_value' in cf and 'encode_value' not in cs_ and 'extend_from_slice' in cs_
        if ok:
            run.proved(rule, b.path, 'phase-order', 'all key bytes are written before any value', f'{b.file}:{b.line}')
        elif rev:
            run.violation(rule, b.path, 'phase-order', 'the key loop and the value loop are not in keys-then-values order', f'{b.file}:{b.line}')
        else:
            run.undecided(rule, b.path, 'phase-order', f'the two loops call {sorted(cf)} and {sorted(cs_)}: not the key-bytes loop followed by the encode_value loop this rule reads (helpers renamed?): '
                          'the order of the phases is not decided here', f'{b.file}:{b.line}')
    else:
        run.undecided(rule, b.path, 'phase-order', f'not written as exactly two loops (keys, values): found {len(heads)}; the order of the phases is not decided here', f'{b.file}:{b.line}')


# ------------------------------------------------------------------ R01.10 numbers reach the buffer only through the number codec

def r01_10(ctx, run, rule='R01.10'):
    """Must-pass-through: on every path of the encoder's value writer that returns a NUMBER entry, the bytes of the number were written
    by Number::compact_encode applied to that number.  A path that writes a number's bytes itself (a shortcut for zero, a hand-made
    tag byte) bypasses the codec whose tables R01.4 checks — `v == Number::default()` also holds for the float -0.0, which the codec
    writes as a float to keep its sign bit."""
    f = ctx.facts
    cands = [b for p, b in sorted(f.bodies.items()) if p.startswith('ser::') and p.endswith('::encode_value') and b.kind != 'Promoted']
    if not cands:
        run.undecided(rule, 'ser::Encoder::encode_value', 'number-arm', 'function not found (anchor lost)')
        return
    b = cands[0]
    ps, capped = explore(b)
    loc = f'{b.file}:{b.line}'
    n = 0
    bad = None
    unsure = None
    for q in ps:
        if q.end[0] != 'return' or q.ret is None:
            continue
        r = deref_all(q.ret)
        if not any(is_call(s, 'JEntry::make_number_jentry') for s in subterms(r)):
            continue
        n += 1
        enc = [e for e in q.calls() if called(e[1], 'Number::compact_encode')]
        if enc:
            continue
        others = [e for e in q.calls() if e[5].get('callee', {}).get('resolved_local') if isinstance(e[5], dict)]
        writes = [e for e in q.calls() if called(e[1], 'Vec::push', 'Vec::extend_from_slice', 'WriteBytesExt::write_u8', 'Write::write_all')]
        if writes:
            bad = (q, f'a NUMBER entry is returned on a path that writes the number\'s bytes itself ({canon(writes[0][1])}) and never calls Number::compact_encode')
        else:
            unsure = (q, 'a NUMBER entry is returned on a path that neither calls Number::compact_encode nor writes bytes itself (delegated to a helper this rule does not follow)')
    if n == 0:
        run.undecided(rule, b.path, 'number-arm', 'no path returning make_number_jentry(..) was recognised (anchor lost): how numbers reach the buffer is not decided', loc)
    elif bad:
        run.violation(rule, b.path, 'number-arm', bad[1] + ': the stored bytes no longer come from the number codec (for example Float64(-0.0) == Number::default() holds, and the '
                      'one-byte zero form loses its sign bit)', loc)
    elif unsure or capped:
        run.undecided(rule, b.path, 'number-arm', (unsure[1] if unsure else 'path cap exceeded'), loc)
    else:
        run.proved(rule, b.path, 'number-arm', f'{n} path(s) return a NUMBER entry, each after Number::compact_encode wrote the bytes', loc)
