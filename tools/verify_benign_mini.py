#!/usr/bin/env python3
"""Verify and file the behaviour-preserving changes of a focused mini-round: /tmp/r17b/w<n>/benign_R<k>.diff -> benign/<pid>-17R<k>/.
For each: the patch applies, the 71 baseline tests still pass with it, and the agent's differential test passes with and without it.
usage: verify_benign_mini.py <n>:<pid> ..."""
import json, os, re, shutil, subprocess, sys
BASE = json.load(open('/root/.vp/BASELINE.json'))
STABLE = set(n.replace('jsonb::it::', '').replace('jsonb::', '') for n in BASE['stable_pass'])
def sh(c, cwd):
    r = subprocess.run(c, cwd=cwd, shell=True, stdout=subprocess.PIPE, stderr=subprocess.STDOUT, text=True, env=dict(os.environ, CARGO_NET_OFFLINE='true'))
    return r.returncode, r.stdout
for spec in sys.argv[1:]:
    n, pid = spec.split(':')
    wt = f'/tmp/r17b/w{n}'
    for k in '123':
        diff, test, md = f'{wt}/benign_R{k}.diff', f'{wt}/tests/benign_R{k}.rs', f'{wt}/benign_R{k}.md'
        if not (os.path.exists(diff) and os.path.exists(test)) or os.path.getsize(diff) == 0:
            print(f'{pid}-17R{k} missing'); continue
        sh('git checkout -q -- src', wt)
        rc0, o0 = sh(f'cargo test --offline --test benign_R{k} 2>&1', wt)
        rc, o = sh(f'git apply {diff}', wt)
        if rc:
            print(f'{pid}-17R{k} does not apply'); continue
        rc1, o1 = sh('cargo test --offline --no-fail-fast --lib --test it 2>&1', wt)
        ok = set(re.findall(r'^test (\S+) \.\.\. ok$', o1, re.M))
        missing = sorted(x for x in STABLE if x not in ok)
        rc2, o2 = sh(f'cargo test --offline --test benign_R{k} 2>&1', wt)
        sh('git checkout -q -- src', wt)
        good = rc0 == 0 and not missing and rc2 == 0
        print(f'{pid}-17R{k}', 'OK' if good else f'BAD clean={rc0} missing={missing[:3]} with={rc2}', flush=True)
        if good:
            dst = f'/verif/benign/{pid}-17R{k}'
            os.makedirs(dst, exist_ok=True)
            shutil.copy(diff, f'{dst}/patch.diff'); shutil.copy(test, f'{dst}/test.rs')
            if os.path.exists(md): shutil.copy(md, f'{dst}/notes.md')
