#!/usr/bin/env python3
"""Print the prompt given to a sub-agent that produces BEHAVIOUR-PRESERVING changes near one property
(only the property text + its worktree).  Used to test the checks for false alarms."""
import json, sys
pid = sys.argv[1]
wt = sys.argv[2] if len(sys.argv) > 2 else f"/tmp/benign/{pid}"
for l in open('/verif/properties.jsonl'):
    p = json.loads(l)
    if p['id'] == pid:
        break
else:
    sys.exit("no such property")
mech = "\n".join(f"  - {m['name']} ({m['where']})" for m in p['anchors']['mechanism'])
print(f"""You are helping test a verification tool for FALSE ALARMS. You work ONLY inside the git worktree `{wt}` (a checkout of the Rust library b41sh/jsonb: a PostgreSQL-style binary JSONB encoding, JSON text parser, JSONPath parser/evaluator and byte-level JSONB functions). Do not touch `/repo` or `/verif`, and do not look into `/verif`. The sandbox is offline: always pass `--offline` to cargo. A warm `target/` directory is already in the worktree.

Here is a semantic property the library satisfies (or is meant to satisfy):

  id: {p['id']}
  title: {p['title']}
  statement: {p['statement']}
  quantified over: {p['quantifier']['text']}
  files involved: {', '.join(p['anchors']['files'])}
  mechanisms that make it hold:
{mech}
  observed at: {', '.join(p['anchors'].get('observe_at', []))}

YOUR TASK: produce THREE independent source changes ("R1", "R2", "R3") under `{wt}/src`, each touching the code these mechanisms live in, each of which a maintainer might realistically make, and each of which KEEPS THE PROPERTY TRUE FOR EVERY INPUT (it must not change any observable behaviour that the property constrains; ideally it changes no observable behaviour at all). The crate must still compile and the existing test suite must still pass. They are ordinary maintenance edits, of three different kinds and roughly increasing size:

  R1 (renames and moves): rename private functions, private constants, private struct fields, closure parameters and locals to different (still sensible) names; move a private helper to another module/file of the crate (adjusting `use`/visibility to `pub(crate)` as needed); reorder functions inside a file, reorder independent match arms, reorder struct fields of private structs; replace a private `const` by an equivalent expression or associated const; change a private free function into an associated function/method (or the reverse).  At least two of these kinds in the one change.
  R2 (different idiom, same behaviour): replace one data structure or control idiom by another with identical results — `VecDeque` by `Vec` + index or iterator, explicit index loops by iterator adaptors (`zip`, `take`, `skip`, `enumerate`, `chunks_exact`, `windows`, `fold`, `any`, `all`, `position`) or the reverse, `match` on tuples instead of nested `if`s, slice patterns (`[a, b, rest @ ..]`, `split_first`, `split_at`, `get(..)`, `first()`) instead of indexing, `?` on `Option`/`Result` combinators (`ok_or`, `map`, `and_then`, `filter`, `then_some`) instead of `match`, `u32::from_be_bytes(x.try_into()..)` instead of manual shifts or of a reader call, `let else`, `matches!`, labeled breaks, `loop` + `break value`.
  R3 (interfaces between private functions): change how private functions talk to each other with identical overall behaviour — add/remove/reorder parameters of private functions, return a tuple or a small private struct/enum instead of using `&mut` out-parameters (or the reverse), pass by value instead of by reference (or the reverse), make a private function generic or take a closure/iterator, introduce a small private struct with methods that carries a cursor (offset + buffer) instead of separate locals, split one function into two phases, or merge two private functions into one with a flag/enum parameter.
Each change should be 10-100 changed lines, touch a different function than the other two where possible, and must not change tests, Cargo.toml, public signatures or documented behaviour. Do NOT include anything that weakens a check, changes a constant's value, changes which inputs are accepted/rejected, or alters output bytes/text in any case — if you are not sure a rewrite is equivalent in every edge case (empty input, maximum lengths, negative/extreme integers, NaN/-0.0, nested/empty containers, invalid input), choose a different rewrite.

For each of R1, R2, R3:
 1. Start from a clean tree (`git -C {wt} checkout -- src && git -C {wt} status --short` shows nothing under src/).
 2. Make the change under `{wt}/src`.
 3. Check it compiles and the existing suite still passes: `cd {wt} && cargo test --offline --no-fail-fast 2>&1 | grep -E "^test result|FAILED"` must show 2 passed in the unit tests and 69 passed / 1 failed in `tests/it` — the single failing test `functions::test_to_serde_json` fails on the unchanged tree too and must be the ONLY failure.
 4. Write a differential sanity test `{wt}/tests/benign_{{R1|R2|R3}}.rs` using only the public API of the `jsonb` crate that exercises the changed code on a good spread of inputs including edge cases and asserts concrete expected results that you first observed on the UNCHANGED tree (so the test passes both without and with your change). Run it both ways.
 5. Save the change with `git -C {wt} diff -- src > {wt}/benign_R1.diff` (paths relative to the repo root) and write `{wt}/benign_R1.md`: property id, what was changed, and a careful argument why behaviour is unchanged (or why the property still holds for every input), listing the edge cases you considered.
 6. Restore the tree (`git -C {wt} checkout -- src`) before starting the next one; leave the `tests/benign_*.rs`, `benign_*.diff`, `benign_*.md` files in place (untracked). NEVER use `git stash` (the stash is shared by all worktrees of this repository and other agents work in sibling worktrees).

Finish with a short report listing, for R1-R3: files/functions changed, a one-line description, and the outcomes of the runs.""")
