"""C06 — editing functions produce exactly the document the edit denotes (structural clauses)."""
import report
from rules import accessors
from rules import editing, buffers, layout, walkers

EXPLANATION = (
    "Static analysis of the byte-level editors and builders. R06.1: documented errors precede every write (R17.4). R06.2: at every push_raw call "
    "site the entry word and the payload are drawn from one source (same iterator item; make_container_jentry(x.len()) with x; the entry word and "
    "bytes 8.. of one scalar document). R06.3: ArrayBuilder/ObjectBuilder/write_entry return exactly the number of bytes they append (path-wise ghost "
    "accounting), so rebuilt containers carry exact lengths at every depth. R06.4: every writer of an object header takes its keys from an ordered "
    "map (R07.3). R06.5: every signed position is cast to usize only where it is provably non-negative (clamping / counting from the end happens "
    "first). R06.8: in every entry-copying loop of an editor, each iteration either copies the entry into the builder or drops it under the edit's "
    "own condition (per-editor table), so no member is lost silently. Walker discipline of the iterators the editors use (R05.1/R05.2). "
    "NOT decided: that the output equals the tree edit beyond these clauses.")


def check(ctx, run):
    run.rules_run = ['R06.1', 'R06.2', 'R06.3', 'R06.4', 'R06.5', 'R06.8', 'R06.9', 'R05.1/R05.2(iterators)', 'R06.12', 'R06.13', 'R06.14', 'R06.15', 'R06.16', 'R06.17', 'R06.19', 'R05.14']
    ba = buffers.BufferAnalysis(ctx)
    from rules.c17 import entries
    for e in entries(ctx):
        ba.analyse_entry(e)
    buffers.r17_4(ctx, run, ba, None, rule='R06.1/R17.4')
    # every editor appends its result where the caller's buffer ends: a header or entry word back-patched at a position not relative to that end
    # leaves the appended document with a zero header (R17.2 over all editors and builders)
    buffers.r17_2(ctx, run, ba, rule='R06.16/R17.2', floor=None)
    editing.r06_2(ctx, run)
    layout.r01_5(ctx, run, rule='R06.3', which='builder')
    editing.r07_3_5(ctx, run, rule3='R06.4/R07.3', rule5='R06.4/R07.5')
    editing.r06_5(ctx, run)
    editing.r06_8(ctx, run)
    editing.r06_19(ctx, run)
    editing.r06_9(ctx, run, which=('bytes',))
    only = lambda p: 'iterator' in p
    walkers.w_init(ctx, run, 'R06.9/R05.1', only=only, floor=7)
    walkers.w_advance(ctx, run, 'R06.9/R05.2', only=only, floor=4)
    walkers.r05_18(ctx, run, 'R06.19/R05.18')
    walkers.w_pair(ctx, run, 'R06.9/R05.14', only=lambda p_: any(k_ in p_ for k_ in ('strip_nulls', 'delete_', 'concat', 'array_insert', 'object_')), floor=29)
    import boundaries
    _bf = lambda p_: p_.startswith(('functions::delete_', 'functions::array_insert', 'functions::object_'))
    boundaries.check(ctx, run, 'R06.10', [p_ for p_ in sorted(boundaries.load_baseline() or {}) if _bf(p_)], 'an editor rejects a position / key')
    accessors.name_variants_alike(ctx, run, 'R06.11', lambda p_: p_.startswith('functions::'))
    from rules import layout as _layout
    _layout.r01_2(ctx, run, rule='R06.12/R01.2')
    from rules import editing as _ed
    _ed.r06_13(ctx, run, rule='R06.13')
    _ed.r11_6(ctx, run, rule='R06.14/R11.6')
    _ed.r06_15(ctx, run, rule='R06.15')
    _ed.r06_17(ctx, run, rule='R06.17', floor=21)
    _ed.r06_18(ctx, run, rule='R06.18')
    return report.finish(run, level='other', explanation=EXPLANATION, assumptions=["A1: valid documents", "A2/A3"])
