"""C13 — array set functions implement multiset semantics over identical elements (structural clauses)."""
import report
from sym import Explorer, explore, show, subterms
from pat import called, canon, is_call, deref_all, agg_variant, const_of
from mir import natural_loops, callee_name
from rules import editing, layout, dispatch
from rules.c08 import param_provenance
import prov

FNS = ['functions::array_distinct_jsonb', 'functions::array_intersection_jsonb', 'functions::array_except_jsonb', 'functions::array_overlap_jsonb']
EXPLANATION = (
    "Static analysis of the four byte-level set functions. R13.1: the key type of the ordered set/map is (JEntry, &[u8]) — entry word plus raw payload — "
    "in all four, read from the MIR local types. R13.2: classifying the iteration paths of the first-list loops by (found in the map?, count > 0?), "
    "intersection pushes exactly on the paths where except skips, both decrement the count on exactly those paths, so the two results partition the "
    "first list. R13.3: every output is produced by ArrayBuilder (canonical by R06.3) and every copied pair is consistent (R06.2). R13.4: each function "
    "has the same three-way header dispatch (array / object / scalar) on each argument. R13.5: the elements pushed to the result come from the first "
    "argument and the lookup structure is filled from the second (result order follows the first list). R13.6: overlap returns true only on a path "
    "where an element of the first list was found in the set built from the second. R13.7: both document arguments of the public wrappers are "
    "dispatched independently and in order (R11.1/R11.3). NOT decided: first-occurrence order of distinct, idempotence, overlap <=> non-empty intersection as such.")


def check(ctx, run):
    f = ctx.facts
    run.rules_run = ['R13.1', 'R13.2', 'R13.3', 'R13.4', 'R13.5', 'R13.6', 'R13.7', 'R13.8', 'R13.12', 'R05.14']
    # ---- R13.1
    keytypes = {}
    for fn in FNS:
        b = f.bodies.get(fn)
        if b is None:
            run.undecided('R13.1', fn, 'key-type', 'function not found (anchor lost)')
            continue
        ks = set()
        for l in b.locals:
            s = l['ty'].get('s', '')
            if s.startswith('std::collections::BTreeSet<') or s.startswith('std::collections::BTreeMap<'):
                ks.add(s)
        keytypes[fn] = ks
        if not ks:
            run.undecided('R13.1', fn, 'key-type', 'no ordered set / map local was found in this function (the lookup structure lives in a helper or a struct?): the element key is not decided', f'{b.file}:{b.line}')
            continue
        ok = len(ks) == 1 and '(jentry::JEntry, &[u8])' in next(iter(ks))
        if not ok and len(ks) == 1:
            # a private struct as key: it must carry both the entry word and the payload
            import re as _re
            m_ = _re.search(r'BTree(?:Set|Map)<([\w:]+)(?:<[^>]*>)?[,>]', next(iter(ks)))
            adt_ = f.adts.get(m_.group(1)) if m_ else None
            if adt_ and adt_.get('variants') and len(adt_['variants']) == 1:
                ftys = [str(fl.get('ty', {}).get('s', fl.get('ty'))) for fl in adt_['variants'][0].get('fields', [])]
                if any('JEntry' in t_ for t_ in ftys) and any('[u8]' in t_ for t_ in ftys):
                    run.proved('R13.1', fn, 'key-type', f'{next(iter(ks))}: a struct carrying the entry word and the payload', f'{b.file}:{b.line}')
                    continue
                if ftys:
                    run.violation('R13.1', fn, 'key-type', f'the element key is {sorted(ks)} with fields {ftys}: two elements are "the same" only if both the entry word and the raw payload agree', f'{b.file}:{b.line}')
                    continue
            if m_ and not any(x in next(iter(ks)) for x in ('JEntry', '[u8]')):
                run.undecided('R13.1', fn, 'key-type', f'the element key is {sorted(ks)}, a type this rule cannot look into: not decided', f'{b.file}:{b.line}')
                continue
        (run.proved if ok else run.violation)('R13.1', fn, 'key-type', f'{next(iter(ks))}' if ok else f'the element key is {sorted(ks)}: two elements are "the same" only if both the entry word and the raw payload agree', f'{b.file}:{b.line}')
    # ---- R13.2
    tables = {}
    helper_push = {}
    for fn in ('functions::array_intersection_jsonb', 'functions::array_except_jsonb'):
        b = f.bodies.get(fn)
        if b is None:
            continue
        paths, loops = editing.region_paths(b)
        tab = {}
        for q in paths:
            if not q.blocks or q.blocks[0] not in loops or q.end[0] not in ('stop', 'backedge'):
                continue
            gm = [c for c in q.conds if c[0][0] == 'discr' and is_call(c[0][1], 'BTreeMap::get_mut')]
            if not gm:
                continue
            found = gm[0][1] == 'eq' and gm[0][2] == 1
            cnt = [c for c in q.conds if c[0][0] == 'bin' and c[0][1] == 'Gt' and const_of(c[0][3]) == 0]
            pos = cnt[0][2] if cnt else None
            pushed = any(called(e[1], 'ArrayBuilder::push_raw') for e in q.calls())
            # a push made through a crate-local helper that receives the builder (`elem.push_to(&mut builder)`)
            for e in q.calls():
                c_ = e[5].get('callee', {}) if isinstance(e[5], dict) else {}
                if c_.get('resolved_local') and not called(e[1], 'ArrayBuilder::push_raw', 'ArrayBuilder::new', 'ArrayBuilder::build_into') and \
                        any(a.get('k') in ('copy', 'move') and 'ArrayBuilder' in str(b.local_ty(a['place']['local']).get('s', '')) for a in e[5].get('args', [])):
                    hb_ = f.bodies.get(c_.get('resolved'))
                    if hb_ is not None and any(called(callee_name(t_), 'ArrayBuilder::push_raw') for _, t_ in hb_.calls()):
                        helper_push[fn] = canon(e[1]).split('::')[-1]
                        pushed = True
            dec = any(e[0] == 'store' and show(e[2]).startswith('Sub(') for e in q.events) or any('Sub' in show(v) and 'get_mut' in show(v) for k, v in q.store.items() if k[0] != 'L')
            tab[(found, pos)] = (pushed, dec)
        tables[fn] = tab
    ti, te = tables.get(FNS[1], {}), tables.get(FNS[2], {})
    keys = [(True, True), (True, False), (False, None)]
    ok = all(k in ti and k in te for k in keys)
    if ok:
        ok = all(ti[k][0] != te[k][0] for k in keys) and ti[(True, True)][0] is True and te[(True, True)][0] is False and ti[(True, True)][1] == te[(True, True)][1] is True \
            and not ti[(True, False)][1] and not te[(True, False)][1]
    b = f.bodies.get(FNS[1])
    if not all(k in ti and k in te for k in keys):
        run.undecided('R13.2', 'functions::array_intersection_jsonb+array_except_jsonb', 'complementary',
                      f'the first-list loops are not both written as "look the element up, test its remaining count, push or skip, decrement" (classes found: intersection {sorted(map(str, ti))}, '
                      f'except {sorted(map(str, te))}): whether the two results partition the first list is not decided', f'{b.file}:{b.line}' if b else '')
    else:
      (run.proved if ok else run.violation)('R13.2', 'functions::array_intersection_jsonb+array_except_jsonb', 'complementary',
                                           'on (found, count>0) intersection pushes and except skips, both decrementing; on every other class except pushes and intersection skips' if ok else
                                           f'path classes (found, count>0) -> (pushed, decremented): intersection {ti}, except {te}: the two results do not partition the first list',
                                           f'{b.file}:{b.line}' if b else '')
    # ---- R13.12 initial multiplicity: what the fill of the second list stores is what the first-list loop tests (producer / consumer agreement)
    for fn, tab in sorted(tables.items()):
        b = f.bodies.get(fn)
        if b is None or (True, True) not in tab:
            continue            # the consumer does not test `count > 0` in a form R13.2 reads: nothing to agree with
        paths, loops = editing.region_paths(b)
        zero = []
        unread = []
        n_fill = 0
        for q in paths:
            for e in q.calls():
                if called(e[1], 'BTreeMap::insert') and len(e[2]) == 3:
                    n_fill += 1
                    v = const_of(deref_all(e[2][2]))
                    if v == 0:
                        zero.append('insert(.., 0)')
                    elif v is None:
                        unread.append('insert(.., <computed>)')
                elif called(e[1], 'Entry::or_default', 'Entry::or_insert', 'Entry::or_insert_with'):
                    n_fill += 1
                    init = 0 if called(e[1], 'Entry::or_default') else (const_of(deref_all(e[2][1])) if called(e[1], 'Entry::or_insert') and len(e[2]) == 2 else None)
                    name = canon(e[1]).split('::')[-1]
                    bumped = any(ev[0] == 'store' and show(ev[2]).startswith('Add(') and name in show(ev[2]) for ev in q.events) or \
                        any('Add' in show(v_) and name in show(v_) for k_, v_ in q.store.items() if k_[0] != 'L')
                    if init is None:
                        unread.append(name + '(<computed>)')
                    elif init == 0 and not bumped:
                        zero.append(f'entry(..).{name}() with no increment')
        loc = f'{b.file}:{b.line}'
        if zero:
            run.violation('R13.12', fn, 'initial-count', f'an element of the second list is recorded with multiplicity 0 ({zero[0]}) while the first-list loop keeps or drops an element on `count > 0`: '
                          'an element that is present once is treated as absent on that path', loc)
        elif unread or not n_fill:
            run.undecided('R13.12', fn, 'initial-count', 'the multiplicity stored for an element of the second list is not a constant this rule reads: not decided', loc)
        else:
            run.proved('R13.12', fn, 'initial-count', f'{n_fill} fill site(s) store a multiplicity >= 1', loc)
    # ---- R13.3
    for fn in FNS[:3]:
        b = f.bodies.get(fn)
        if b is None:
            continue
        names = [canon(callee_name(t)) for _, t in b.calls()]
        ok = any(n.endswith('ArrayBuilder::build_into') for n in names) and not any(n.endswith(('Vec::extend_from_slice', 'WriteBytesExt::write_u32')) for n in names)
        (run.proved if ok else run.violation)('R13.3', fn, 'builder', 'the result is emitted by ArrayBuilder::build_into only' if ok else 'the result is not emitted exclusively through ArrayBuilder', f'{b.file}:{b.line}')
    editing.r06_2(ctx, run, rule='R13.3/R06.2')
    # ---- R13.4 three-way dispatch on each header
    for fn in FNS:
        b = f.bodies.get(fn)
        if b is None:
            continue
        paths, loops = editing.region_paths(b)
        heads = {}
        for q in paths:
            for c in q.conds:
                t = c[0]
                if t[0] == 'bin' and t[1] == 'BitAnd' and any(x[0] == 'const' and x[1] == 0xE0000000 for x in (t[2], t[3])):
                    pv = prov.prov(b)
                    ps_ = set()
                    for s_ in subterms(t):
                        if s_[0] in ('init', 'hav') and isinstance(s_[1], int):
                            ps_ |= pv.get(s_[1], set())
                    src = 'h2' if (2 in ps_ and 1 not in ps_) else 'h1'
                    heads.setdefault(src, set()).add(c[2] if c[1] == 'eq' else 'otherwise')
        # the arm that walks an argument must have been chosen by *that* argument's header
        cross = None
        for q in paths:
            for e in q.calls():
                walked = None
                if called(e[1], 'iterator::iterate_array', 'iterate_array') and e[2]:
                    walked = e[2][0]
                elif called(e[1], 'functions::read_u32') and len(e[2]) == 2 and const_of(e[2][1]) == 4:
                    walked = e[2][0]
                if walked is None:
                    continue
                pw = param_provenance(b, walked)
                if len(pw) != 1:
                    continue
                last = None
                for c in q.conds[:e[6]]:
                    t = c[0]
                    if t[0] == 'bin' and t[1] == 'BitAnd' and any(x[0] == 'const' and x[1] == 0xE0000000 for x in (t[2], t[3])):
                        last = c
                if last is None:
                    continue
                ph = param_provenance(b, last[0])
                if ph and not (ph & pw):
                    cross = (e, pw, ph)
        if cross:
            e_, pw, ph = cross
            t_ = e_[5]
            run.violation('R13.4', fn, 'dispatch/walked-argument', f'argument {sorted(pw)[0]} is walked in an arm selected by the header kind of argument {sorted(ph)[0]}: with inputs of different kinds '
                          '(a scalar against an array) the elements are read under the wrong layout', f"{t_.get('file')}:{t_.get('line')}")
            continue
        nargs = 1 if fn.endswith('distinct_jsonb') else 2
        # array and object arms, and a scalar arm: the fall-through, or the scalar kind spelled out (next to a fall-through or not)
        arms_ok = lambda v: {0x80000000, 0x40000000} <= v and ('otherwise' in v or 0x20000000 in v) and v <= {0x80000000, 0x40000000, 0x20000000, 'otherwise'}
        ok = len(heads) == nargs and all(arms_ok(v) for v in heads.values())
        if not ok and len(heads) < nargs and all(arms_ok(v) for v in heads.values()):
            run.undecided('R13.4', fn, 'dispatch', f'only {len(heads)} of {nargs} argument headers are dispatched in this function (the other in a helper?): not decided', f'{b.file}:{b.line}')
            continue
        if not ok and len(heads) == nargs and all({0x80000000, 'otherwise'} <= v and v <= {0x80000000, 0x40000000, 0x20000000, 'otherwise'} for v in heads.values()):
            # array arm + fall-through only: the object / scalar distinction is made by a helper the fall-through arm calls with the document
            # (whether that helper reads a container as a scalar is R06.17's question)
            helper_ = sorted({canon(callee_name(t_)).split('::')[-1] for _, t_ in b.calls() if (t_['callee'].get('resolved_local') and t_['callee'].get('resolved', '').startswith('functions::')
                              and not report.is_baseline_fn(t_['callee'].get('resolved', '')))})
            if helper_:
                run.undecided('R13.4', fn, 'dispatch', f'only the array kind is dispatched here; a non-array document goes to {helper_[0]}(), which decides between object and scalar: not decided by this table', f'{b.file}:{b.line}')
                continue
        (run.proved if ok else run.violation)('R13.4', fn, 'dispatch', 'array / object / scalar arms for every argument' if ok else f'header dispatch arms: {heads}', f'{b.file}:{b.line}')
    # ---- R13.5 provenance: pushes from arg 1, lookup structure from arg 2
    for fn in FNS[1:]:
        b = f.bodies.get(fn)
        if b is None:
            continue
        paths, loops = editing.region_paths(b)
        bad = []
        npush = nins = 0
        for q in paths:
            for e in q.calls():
                if called(e[1], 'ArrayBuilder::push_raw'):
                    npush += 1
                    pr = param_provenance(b, e[2][-1]) | param_provenance(b, e[2][-2])
                    if pr - {1}:
                        bad.append(f'an element pushed to the result derives from argument(s) {sorted(pr)}')
                elif called(e[1], 'BTreeMap::insert', 'BTreeSet::insert') and len(e[2]) >= 2:
                    nins += 1
                    pr = param_provenance(b, e[2][1])
                    if pr - {2}:
                        bad.append(f'the lookup structure is filled from argument(s) {sorted(pr)}')
        if bad:
            run.violation('R13.5', fn, 'roles', '; '.join(sorted(set(bad))[:2]) + ': the result must list elements of the first argument, in its order, looked up in a structure built from the second', f'{b.file}:{b.line}')
        else:
            run.proved('R13.5', fn, 'roles', f'result elements and lookup keys come from the first argument, the lookup structure from the second ({npush} push / {nins} insert paths)', f'{b.file}:{b.line}')
    # ---- R13.6 overlap
    b = f.bodies.get(FNS[3])
    if b is not None:
        paths, loops = editing.region_paths(b)
        n = 0
        bad = 0
        unsure = 0
        for q in paths:
            if q.end[0] == 'return' and agg_variant(q.ret) and q.ret[1][2] == 'Ok' and q.ret[2][0][0] == 'const' and q.ret[2][0][1] is True:
                n += 1
                hits = [c for c in q.conds if is_call(c[0], 'BTreeSet::contains') and c[2] is True]
                if hits and not any(param_provenance(b, c[0][2][1]) - {1} for c in hits):
                    continue
                # a membership test this rule does not read (a closure or helper applied to an element of the first list, an equality of pairs)
                other = [c for c in q.conds if c[2] is True and not is_call(c[0], 'BTreeSet::contains') and
                         any(s_[0] == 'call' for s_ in subterms(c[0])) and
                         1 in set().union(*[param_provenance(b, a_) for s_ in subterms(c[0]) if s_[0] == 'call' for a_ in s_[2] if deref_all(a_)[0] != 'init'] or [set()])]
                if other and not hits:
                    unsure += 1
                else:
                    bad += 1
        if not n:
            run.undecided('R13.6', b.path, 'true-paths', 'no path returns the constant true: the answer is handed back as a computed value (the result of any() / contains()), which this '
                          'clause does not trace: not decided', f'{b.file}:{b.line}')
        elif n and not bad and unsure:
            run.undecided('R13.6', b.path, 'true-paths', f'{unsure} of {n} path(s) return true after a test on an element of the first list that this rule does not read (a closure or helper): '
                          'whether it is membership in the set built from the second list is not decided', f'{b.file}:{b.line}')
        else:
            (run.proved if n and not bad else run.violation)('R13.6', b.path, 'true-paths', f'{n} path(s) return true, each after item_set.contains(element of the first list)' if n and not bad else
                                                          'a path returns true without an element of the first list having been found in the set built from the second: overlap can be true with an empty intersection', f'{b.file}:{b.line}')
    from rules import safety
    safety.forbidden_calls(ctx, run, 'R13.8', ['functions::array_distinct', 'functions::array_intersection', 'functions::array_except', 'functions::array_overlap'],
                           ('Vec::dedup', 'Vec::dedup_by', 'Vec::dedup_by_key', 'slice::sort', 'slice::sort_unstable', 'slice::sort_by', 'slice::sort_by_key', 'slice::sort_unstable_by',
                            'slice::reverse', 'Vec::retain', 'Vec::truncate', 'Vec::drain', 'Vec::remove', 'Vec::swap_remove'),
                           'the text branch of a set function', 'the parsed list must reach the byte-level implementation unchanged: elements are identical only if entry word and payload agree '
                           '(1 and 1.0 are different elements), which tree equality does not respect',
                           only=lambda p_: p_ in ('functions::array_distinct', 'functions::array_intersection', 'functions::array_except', 'functions::array_overlap'))
    pub = {'functions::array_distinct', 'functions::array_intersection', 'functions::array_except', 'functions::array_overlap'}
    dispatch.r11_1(ctx, run, rule='R13.7/R11.1', only=pub)
    dispatch.r11_3(ctx, run, rule='R13.7/R11.3', only=set(pub))
    dispatch.r11_7(ctx, run, rule='R13.7/R11.7', only=set(pub))
    from rules import walkers as _walkers
    _walkers.w_pair(ctx, run, 'R13.9/R05.14', only=lambda p_: p_.startswith('functions::array_'))
    result_always_written(ctx, run, 'R13.11')
    from rules import editing as _editing
    _editing.r06_17(ctx, run, rule='R13.10/R06.17', only=lambda p_: p_.startswith('functions::array_'))
    return report.finish(run, level='other', explanation=EXPLANATION, assumptions=["A1: valid documents"])


def result_always_written(ctx, run, rule='R13.11'):
    """array_distinct / array_intersection / array_except produce an array for every input: a successful return that has handed nothing to the
    output buffer (no build_into, no append, no callee that received the buffer) leaves the caller without a result — for an empty input
    array the canonical result is the 4-byte empty array, not nothing."""
    f = ctx.facts
    for fn in ('functions::array_distinct_jsonb', 'functions::array_intersection_jsonb', 'functions::array_except_jsonb'):
        b = f.bodies.get(fn)
        if b is None:
            run.undecided(rule, fn, 'result-written', 'function not found (anchor lost)')
            continue
        bufs = [k for k in range(1, b.argc + 1) if 'Vec<u8>' in str(b.local_ty(k).get('s')) and b.local_ty(k).get('mut')]
        if not bufs:
            run.undecided(rule, fn, 'result-written', 'no `&mut Vec<u8>` output parameter (interface changed): not decided', f'{b.file}:{b.line}')
            continue
        paths, loops = editing.region_paths(b)
        bad = 0
        n = 0
        for q in paths:
            if q.end[0] != 'return' or not (q.blocks and q.blocks[0] == 0):
                continue
            r = deref_all(q.ret) if q.ret is not None else None
            if not (r is not None and agg_variant(r) and r[1][2] == 'Ok'):
                continue
            n += 1
            wrote = any(any(deref_all(a_)[0] == 'init' and deref_all(a_)[1] in bufs for a_ in e[2]) for e in q.calls())
            if not wrote:
                bad += 1
        loc = f'{b.file}:{b.line}'
        if bad:
            run.violation(rule, fn, 'result-written', f'{bad} path(s) return Ok(()) straight from the entry without handing the output buffer to anything: nothing is written, where every input '
                          '(an empty array included) has an array as its result', loc)
        else:
            run.proved(rule, fn, 'result-written', f'every successful return reached without a loop ({n}) has passed the output buffer to a writer', loc)
