"""Number codec and ordering rules (R18.x), shared by C01, C04, C14, C18."""
def r18_1(ctx, run, rule='R18.1'):
    pass
def r18_2(ctx, run, rule='R18.2'):
    pass
