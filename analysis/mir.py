"""CFG utilities, dominators, loops, def-use and expression reconstruction over MIR facts."""
from facts import term_targets

# ---------------------------------------------------------------- CFG

def dominators(body):
    """Immediate-dominator based dominator sets for reachable, non-cleanup blocks: {bb: set(doms)}."""
    if body._dom is not None:
        return body._dom
    succ = body.succ()
    pred = body.pred()
    reach = body.reachable()
    order = []
    seen = set()

    def dfs(x):
        stack = [(x, iter(succ[x]))]
        seen.add(x)
        while stack:
            n, it = stack[-1]
            adv = False
            for y in it:
                if y not in seen:
                    seen.add(y)
                    stack.append((y, iter(succ[y])))
                    adv = True
                    break
            if not adv:
                order.append(n)
                stack.pop()
    dfs(0)
    rpo = list(reversed(order))
    dom = {n: None for n in rpo}
    dom[0] = {0}
    changed = True
    while changed:
        changed = False
        for n in rpo:
            if n == 0:
                continue
            ps = [p for p in pred[n] if p in reach and dom.get(p) is not None]
            if not ps:
                continue
            new = set.intersection(*[dom[p] for p in ps]) | {n}
            if dom[n] != new:
                dom[n] = new
                changed = True
    body._dom = dom
    return dom


def dominates(body, a, b):
    d = dominators(body).get(b)
    return d is not None and a in d


def back_edges(body):
    dom = dominators(body)
    r = []
    for a, ts in body.succ().items():
        if a not in dom or dom[a] is None:
            continue
        for t in ts:
            if t in dom[a]:
                r.append((a, t))
    return r


def natural_loops(body):
    """{head: set(blocks)} for every natural loop (loops with the same head are merged)."""
    key = 'loops'
    if key in body._cache:
        return body._cache[key]
    pred = body.pred()
    loops = {}
    for a, h in back_edges(body):
        s = loops.setdefault(h, {h})
        st = [a]
        while st:
            x = st.pop()
            if x not in s:
                s.add(x)
                st.extend(pred[x])
    body._cache[key] = loops
    return loops


def region_dominated_by(body, bb):
    dom = dominators(body)
    return {b for b, d in dom.items() if d is not None and bb in d}


def reachable_from(body, start, stop=()):
    """Blocks reachable from `start` without passing through blocks in `stop` (stop blocks excluded)."""
    succ = body.succ()
    seen = set()
    st = [start]
    while st:
        x = st.pop()
        if x in seen or x in stop:
            continue
        seen.add(x)
        st.extend(succ[x])
    return seen


def can_reach(body, a, b, avoid=()):
    return b in reachable_from(body, a, stop=avoid) or a == b


# ---------------------------------------------------------------- def-use

def place_key(p):
    proj = []
    for e in p.get('proj', []):
        k = e['k']
        if k == 'deref':
            proj.append(('deref',))
        elif k == 'field':
            proj.append(('field', e['i'], e.get('name', '')))
        elif k == 'downcast':
            proj.append(('downcast', e['v'], e.get('name', '')))
        elif k == 'index':
            proj.append(('index', e['local']))
        elif k == 'constindex':
            proj.append(('constindex', e['offset'], e['from_end']))
        elif k == 'subslice':
            proj.append(('subslice', e['from'], e['to'], e['from_end']))
        else:
            proj.append((k,))
    return (p['local'], tuple(proj))


def defs(body):
    """{local: [site,...]} where site = ('stmt', bb, i, rv, whole) | ('call', bb, term) ; whole=False for partial
    (field) assignments.  Arguments have an implicit ('arg',) def."""
    if body._defs is not None:
        return body._defs
    d = {}
    for l in range(1, body.argc + 1):
        d.setdefault(l, []).append(('arg',))
    for b in body.blocks:
        if b.get('cleanup'):
            continue
        for i, s in enumerate(b['stmts']):
            if s['k'] == 'assign':
                p = s['place']
                whole = not p.get('proj')
                d.setdefault(p['local'], []).append(('stmt', b['id'], i, s['rv'], whole))
            elif s['k'] == 'setdiscr':
                d.setdefault(s['place']['local'], []).append(('stmt', b['id'], i, None, False))
        t = b['term']
        if t['k'] == 'call':
            p = t['dest']
            whole = not p.get('proj')
            d.setdefault(p['local'], []).append(('call', b['id'], t, whole))
    body._defs = d
    return d


def single_def(body, local):
    ds = defs(body).get(local, [])
    if len(ds) == 1 and ds[0][0] != 'arg':
        if ds[0][0] == 'stmt' and ds[0][4]:
            return ds[0]
        if ds[0][0] == 'call' and ds[0][3]:
            return ds[0]
    return None


# ---------------------------------------------------------------- expression reconstruction

def callee_name(t):
    """Best name of a call terminator's callee: resolved def path if known, else as written."""
    c = t['callee']
    return c.get('resolved') or c.get('written') or '<indirect>'


def callee_written(t):
    return t['callee'].get('written') or '<indirect>'


def callee_full(t):
    return t['callee'].get('full') or t['callee'].get('written') or '<indirect>'


class Expr:
    """Reconstructs expression trees for operands by expanding single-definition unnamed temporaries.

    Terms (tuples):
      ('const', value, tystr, named)      value: int|bool|str|bytes(tuple)|None
      ('fn', path)                        function item constant
      ('var', local, name)                a named or multiply-assigned local (flow-sensitive leaf)
      ('arg', local, name)                an argument local never reassigned
      ('field', base, name, idx) ('deref', base) ('index', base, idx) ('downcast', base, vname)
      ('ref', base, mut) ('bin', op, checked, a, b) ('un', op, a) ('cast', kind, a, tystr)
      ('discr', a) ('agg', tag, ops) ('call', name, args, bb) ('repeat', a, n) ('other', s)
    """

    def __init__(self, body, expand_named=False, max_depth=40):
        self.body = body
        self.expand_named = expand_named
        self.max_depth = max_depth
        self.memo = {}

    def const(self, o):
        if 'fn' in o:
            return ('fn', o['fn'], o.get('fnfull'))
        if 'str' in o:
            v = o['str']
        elif 'bytes' in o:
            v = tuple(o['bytes'])
        elif 'elems' in o:
            v = tuple(o['elems'])
        elif 'bits' in o:
            v = 'bits:' + o['bits']
        else:
            v = o.get('val')
        return ('const', v, o['ty']['s'], o.get('named'))

    def operand(self, o, depth=0):
        k = o['k']
        if k == 'const':
            return self.const(o)
        if k in ('copy', 'move'):
            return self.place(o['place'], depth)
        return ('other', o.get('s', '?'))

    def local(self, l, depth=0):
        if l in self.memo:
            return self.memo[l]
        body = self.body
        name = body.name_of(l)
        sd = single_def(body, l)
        res = None
        if sd is not None and depth < self.max_depth and (name is None or self.expand_named is True or
                                                          (self.expand_named == 'pure' and self._pure_def(sd))):
            self.memo[l] = ('var', l, name)  # recursion guard
            if sd[0] == 'stmt':
                res = self.rvalue(sd[3], depth + 1)
            else:
                t = sd[2]
                res = ('call', callee_name(t), tuple(self.operand(a, depth + 1) for a in t['args']), sd[1])
        if res is None:
            ds = defs(body).get(l, [])
            if len(ds) == 1 and ds[0][0] == 'arg':
                res = ('arg', l, name)
            else:
                res = ('var', l, name)
        self.memo[l] = res
        return res

    def _pure_def(self, sd, depth=0):
        """A definition made only of constants, arguments, arithmetic, casts and field reads of such (no calls):
        its value cannot change between definition and use, so a named local defined this way may be expanded."""
        if sd[0] != 'stmt' or depth > 8:
            return False
        rv = sd[3]
        ops = []
        k = rv['k']
        if k == 'use':
            ops = [rv['op']]
        elif k == 'bin':
            ops = [rv['a'], rv['b']]
        elif k in ('un',):
            ops = [rv['a']]
        elif k == 'cast':
            ops = [rv['op']]
        else:
            return False
        for o in ops:
            if o['k'] == 'const':
                continue
            if o['k'] in ('copy', 'move'):
                p = o['place']
                if any(e['k'] not in ('field',) for e in p.get('proj', [])):
                    return False
                l = p['local']
                ds = defs(self.body).get(l, [])
                if len(ds) == 1 and ds[0][0] == 'arg':
                    continue
                sd2 = single_def(self.body, l)
                if sd2 is None or not self._pure_def(sd2, depth + 1):
                    return False
            else:
                return False
        return True

    def place(self, p, depth=0):
        t = self.local(p['local'], depth)
        for e in p.get('proj', []):
            k = e['k']
            if k == 'deref':
                if t[0] == 'ref':
                    t = t[1]
                else:
                    t = ('deref', t)
            elif k == 'field':
                if t[0] == 'agg' and t[1] in ('tuple',) and e['i'] < len(t[2]):
                    t = t[2][e['i']]
                elif t[0] == 'bin' and t[2] and e['i'] == 0:
                    # .0 of a checked arithmetic pair is the arithmetic result
                    t = ('bin', t[1], False, t[3], t[4])
                else:
                    t = ('field', t, e.get('name') or str(e['i']), e['i'])
            elif k == 'downcast':
                t = ('downcast', t, e.get('name', ''))
            elif k == 'index':
                t = ('index', t, self.local(e['local'], depth))
            elif k == 'constindex':
                t = ('index', t, ('const', e['offset'], 'usize', None))
            else:
                t = ('other', k)
        return t

    def rvalue(self, r, depth=0):
        k = r['k']
        if k == 'use':
            return self.operand(r['op'], depth)
        if k == 'ref':
            return ('ref', self.place(r['place'], depth), r['mut'])
        if k == 'rawptr':
            return ('ref', self.place(r['place'], depth), r['mut'])
        if k == 'bin':
            return ('bin', r['op'], r['checked'], self.operand(r['a'], depth), self.operand(r['b'], depth))
        if k == 'un':
            return ('un', r['op'], self.operand(r['a'], depth))
        if k == 'cast':
            return ('cast', r['kind'], self.operand(r['op'], depth), r['to']['s'])
        if k == 'discr':
            return ('discr', self.place(r['place'], depth))
        if k == 'agg':
            if r['agg'] == 'adt':
                tag = ('adt', r['adt'], r['vname'])
            elif r['agg'] == 'closure':
                tag = ('closure', r['closure'])
            else:
                tag = r['agg']
            return ('agg', tag, tuple(self.operand(x, depth) for x in r['ops']))
        if k == 'repeat':
            return ('repeat', self.operand(r['op'], depth), r['n'])
        return ('other', r.get('s', '?'))


def short(path):
    """Shorten a def path for display: drop generic arguments and well-known prefixes."""
    import re
    p = re.sub(r'<[^<>]*>', '', path)
    p = re.sub(r'<[^<>]*>', '', p)
    p = p.replace('::::', '::')
    return p


def render(t, depth=0):
    """Stable, line-number-free rendering of a term (used in obligation keys and messages)."""
    if depth > 12:
        return '…'
    k = t[0]
    if k == 'const':
        v = t[1]
        if t[3]:
            return t[3].split('::')[-1]
        if isinstance(v, tuple):
            try:
                return 'b' + repr(bytes(v).decode('latin1'))
            except Exception:
                return repr(v)
        if isinstance(v, str):
            return repr(v)
        return str(v)
    if k == 'fn':
        return short(t[1]).split('::')[-1]
    if k in ('var', 'arg'):
        return t[2] if t[2] else f'_{t[1]}'
    if k == 'field':
        return f"{render(t[1], depth + 1)}.{t[2]}"
    if k == 'deref':
        return f"*{render(t[1], depth + 1)}"
    if k == 'index':
        return f"{render(t[1], depth + 1)}[{render(t[2], depth + 1)}]"
    if k == 'downcast':
        return f"({render(t[1], depth + 1)} as {t[2]})"
    if k == 'ref':
        return ('&mut ' if t[2] else '&') + render(t[1], depth + 1)
    if k == 'bin':
        return f"{t[1]}({render(t[3], depth + 1)},{render(t[4], depth + 1)})"
    if k == 'un':
        return f"{t[1]}({render(t[2], depth + 1)})"
    if k == 'cast':
        return f"({render(t[2], depth + 1)} as {t[3]})"
    if k == 'discr':
        return f"discr({render(t[1], depth + 1)})"
    if k == 'agg':
        tag = t[1]
        if isinstance(tag, tuple):
            name = tag[1].split('::')[-1] + ('::' + tag[2] if tag[0] == 'adt' else '')
        else:
            name = tag
        return f"{name}({','.join(render(x, depth + 1) for x in t[2])})"
    if k == 'call':
        return f"{fn_tail(t[1])}({','.join(render(x, depth + 1) for x in t[2])})"
    if k == 'repeat':
        return f"[{render(t[1], depth + 1)};{t[2]}]"
    return str(t[1]) if len(t) > 1 else k


def fn_tail(path, n=2):
    p = short(path)
    parts = [x for x in p.split('::') if x]
    return '::'.join(parts[-n:])


def walk(t):
    """Pre-order traversal of a term."""
    yield t
    k = t[0]
    if k in ('field', 'deref', 'downcast', 'discr'):
        yield from walk(t[1])
    elif k == 'ref':
        yield from walk(t[1])
    elif k == 'index':
        yield from walk(t[1])
        yield from walk(t[2])
    elif k == 'bin':
        yield from walk(t[3])
        yield from walk(t[4])
    elif k in ('un', 'cast'):
        yield from walk(t[2])
    elif k in ('agg', 'call'):
        for x in t[2]:
            yield from walk(x)
    elif k == 'repeat':
        yield from walk(t[1])


def strip(t):
    """Strip refs, derefs, Use-copies and integer-widening casts to get at the underlying value term."""
    while True:
        if t[0] in ('ref', 'deref'):
            t = t[1]
        elif t[0] == 'cast' and t[1] in ('IntToInt',):
            t = t[2]
        else:
            return t


# ---------------------------------------------------------------- spans

def loc(x):
    return f"{x.get('file', '?')}:{x.get('line', '?')}"


def term_macs(t):
    return t.get('macs', []) if t.get('exp') else []
