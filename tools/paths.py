#!/usr/bin/env python3
"""Debug aid: print the symbolic paths (conditions, events, return) of one function of the VERIF_REPO tree.
usage: tools/paths.py <fn suffix> [--loops] [--events] [--max N]"""
import sys
sys.path.insert(0, '/verif/analysis')
from extract import get_facts
from facts import Facts
import sym
from sym import Explorer, show
from mir import natural_loops
f = Facts(get_facts()[0]); sym.FACTS = f
args = sys.argv[1:]
fn = args[0]
bs = [b for b in f.find_bodies(fn) if b.kind != 'Promoted']
mx = int(args[args.index('--max') + 1]) if '--max' in args else 40
for b in bs:
    print('==', b.path, f'{b.file}:{b.line}', 'argc', b.argc)
    loops = natural_loops(b)
    ex = Explorer(b, max_paths=4000)
    starts = [None] + (sorted(loops) if '--loops' in args else [])
    for s0 in starts:
        ps = ex.explore(start=s0, stop=set(loops)) if s0 is not None else ex.explore(stop=set(loops)) if loops else ex.explore()
        print('-- region', s0, 'paths', len(ps))
        for p in ps[:mx]:
            print('  end', p.end, '| conds:', '; '.join(f"{show(c[0])} {c[1]} {c[2]}" for c in p.conds))
            if '--events' in args:
                for e in p.events:
                    if e[0] == 'call':
                        print('      call', show(('call', e[1], e[2])))
                    else:
                        print('      ', e[0], e[1], [show(x) for x in e[2]])
            if p.end[0] == 'return':
                print('      ret', show(p.ret))
