"""C09 / C16: JSONPath and key-path syntax rules (token tables, ordered choice, whole-input checks, escape widths)."""
import re
from sym import Explorer, explore, show, subterms, lin, lin_sub
from pat import called, canon, is_call, deref_all, agg_variant, const_of, strip_casts
from mir import natural_loops, callee_name
from rules import recursion

TOKEN_FNS = ('complete::tag', 'complete::tag_no_case', 'complete::char')
NUM_FNS = {'complete::u64': 'u64', 'complete::i64': 'i64', 'complete::i32': 'i32', 'complete::double': 'double', 'complete::u32': 'u32'}


def tok_of(t):
    """('tag'|'nocase'|'char', text) for a token parser term, ('num', kind) for numeric parsers, ('fn', name) for local scanners."""
    t = deref_all(t)
    if t[0] == 'call':
        n = canon(t[1])
        if n.endswith('complete::tag') and t[2]:
            v = deref_all(t[2][0])
            return ('tag', v[1] if v[0] == 'const' else None)
        if n.endswith('complete::tag_no_case') and t[2]:
            v = deref_all(t[2][0])
            return ('nocase', v[1] if v[0] == 'const' else None)
        if n.endswith('complete::char') and t[2]:
            v = t[2][0]
            return ('char', chr(v[1]) if v[0] == 'const' and isinstance(v[1], int) else None)
    if t[0] == 'fn':
        for k, v in NUM_FNS.items():
            if canon(t[1]).endswith(k):
                return ('num', v)
        return ('fn', canon(t[1]).split('::')[-1])
    return None


def leading(t, depth=0):
    """(leading token, guarded?) of a combinator term."""
    t = deref_all(t)
    tk = tok_of(t)
    if tk:
        return tk, False
    if depth > 8 or t[0] != 'call':
        if t[0] == 'agg' and t[1] == 'tuple' and t[2]:
            return leading(t[2][0], depth + 1)
        if t[0] == 'agg' and isinstance(t[1], tuple) and t[1][0] == 'closure':
            return ('closure', t[1][1].split('::')[-2] + '::' + t[1][1].split('::')[-1]), False
        return None, False
    n = canon(t[1]).split('::')[-1]
    a = t[2]
    if n in ('value',) and len(a) == 2:
        return leading(a[1], depth + 1)
    if n in ('map', 'map_res') and a:
        return leading(a[0], depth + 1)
    if n in ('preceded', 'pair', 'separated_pair', 'delimited') and a:
        first, g = leading(a[0], depth + 1)
        if first and first[0] in ('fn',) and first[1] == 'multispace0' and len(a) > 1:
            return leading(a[1], depth + 1)
        return first, g
    if n == 'terminated' and len(a) == 2:
        first, g = leading(a[0], depth + 1)
        guard = deref_all(a[1])
        if guard[0] == 'call' and canon(guard[1]).endswith('combinator::peek') and guard[2]:
            # terminated(X, peek(one_of("..."))): X must be followed by one of these characters
            inner = deref_all(guard[2][0])
            if inner[0] == 'call' and canon(inner[1]).endswith('one_of') and inner[2]:
                v = deref_all(inner[2][0])
                chars = v[1] if v[0] == 'const' and isinstance(v[1], str) else (''.join(chr(x) for x in v[1] if isinstance(x, int)) if v[0] == 'const' and isinstance(v[1], tuple) else None)
                if chars is not None:
                    return first, ('peek', frozenset(chars))
        guarded = guard[0] == 'call' and canon(guard[1]).endswith('combinator::not')
        if guarded and guard[2]:
            # not(one_of("...")): remember which characters the look-ahead excludes
            inner = deref_all(guard[2][0])
            if inner[0] == 'call' and canon(inner[1]).endswith('one_of') and inner[2]:
                v = deref_all(inner[2][0])
                if v[0] == 'const' and isinstance(v[1], str):
                    return first, frozenset(v[1])
                if v[0] == 'const' and isinstance(v[1], tuple):
                    return first, frozenset(chr(x) for x in v[1] if isinstance(x, int))
        return first, guarded or g
    if n == 'tuple' and a:
        return leading(a[0], depth + 1)
    return None, False


def alt_tables(ctx, prefixes):
    """[(fn path, [member terms in order])] for every nom alt((..)) call in the given modules."""
    f = ctx.facts
    out = []
    for p, b in sorted(f.bodies.items()):
        if b.kind == 'Promoted' or not any(p.startswith(x) for x in prefixes):
            continue
        ex = Explorer(b, max_paths=200)
        seen = set()
        for q in ex.explore():
            for e in q.calls():
                if canon(e[1]).endswith('branch::alt') and e[2]:
                    tup = deref_all(e[2][0])
                    if tup[0] == 'agg' and tup[1] == 'tuple' and e[3] not in seen:
                        seen.add(e[3])
                        out.append((p, list(tup[2]), e))
    return out


def value_rows(ctx, prefixes):
    """[(fn, constant term K, token)] for every value(K, token-parser) in the modules."""
    f = ctx.facts
    rows = []
    for p, b in sorted(f.bodies.items()):
        if b.kind == 'Promoted' or not any(p.startswith(x) for x in prefixes):
            continue
        ex = Explorer(b, max_paths=200)
        seen = set()
        for q in ex.explore():
            for e in q.calls():
                if canon(e[1]).endswith('combinator::value') and len(e[2]) == 2 and e[3] not in seen:
                    seen.add(e[3])
                    tk = tok_of(e[2][1])
                    k = deref_all(e[2][0])
                    if tk:
                        rows.append((p, k, tk))
    return rows


def decode_template(bs):
    """literal pieces of a fmt::Arguments template byte string (new compact representation) or plain str."""
    if isinstance(bs, str):
        return [bs]
    out = []
    i = 0
    b = bytes(x for x in bs if isinstance(x, int))
    while i < len(b):
        n = b[i]
        if n == 0:
            break
        if n >= 0x80:
            out.append(None)      # an argument placeholder
            i += 1
            # extended placeholder bytes
            while i < len(b) and b[i] >= 0x80:
                i += 1
            continue
        out.append(b[i + 1:i + 1 + n].decode('utf-8', 'replace'))
        i += 1 + n
    return out


def display_table(ctx, impl_path, _depth=0):
    """{variant index: [pieces...]} literal pieces and argument kinds written by a Display impl, per top-level variant."""
    f = ctx.facts
    b = f.bodies.get(impl_path)
    if b is None:
        return None
    loops = natural_loops(b)
    ex = Explorer(b, max_paths=3000)
    table = {}
    for s0 in [0] + sorted(loops):
        for q in ex.explore(start=s0, stop=set(loops)):
            d = [c for c in q.conds if c[0][0] == 'discr' and c[1] == 'eq' and c[0][1][0] in ('deref', 'init')]
            key = d[0][2] if d else None
            if q.end[0] == 'return' and q.ret is not None and is_call(deref_all(q.ret), 'FromResidual::from_residual'):
                continue      # a write failed and the error is passed on: the pieces written so far are not a complete rendering
            pieces = []
            for e in q.calls():
                if canon(e[1]).endswith('Arguments::from_str') and e[2]:
                    v = deref_all(e[2][0])
                    if v[0] == 'const':
                        pieces.append(('lit', v[1]))
                elif canon(e[1]).endswith('Arguments::new') and e[2]:
                    v = deref_all(e[2][0])
                    args = [canon(s[1]).split('::')[-1] for s in subterms(e[2][1]) if s[0] == 'call' and 'Argument' in s[1]]
                    if v[0] == 'const':
                        ai = 0
                        for piece in decode_template(v[1]):
                            if piece is None:
                                pieces.append(('arg', args[ai] if ai < len(args) else '?'))
                                ai += 1
                            else:
                                pieces.append(('lit', piece))
                elif canon(e[1]).endswith('Formatter::write_str') and len(e[2]) == 2:
                    v = deref_all(e[2][1])
                    if v[0] == 'const':
                        pieces.append(('lit', v[1]))
                    else:
                        # a string value written as it is: what `{}` prints for a str / String / Cow<str>
                        pieces.append(('arg', 'new_display'))
                elif canon(e[1]).endswith('Display::fmt') and len(e[2]) == 2 and not canon(e[1]).startswith('Arguments'):
                    pieces.append(('arg', 'new_display'))
            if pieces:
                table.setdefault(key, [])
                if pieces not in table[key]:
                    table[key].append(pieces)
    # a failed write returns early (`?`): what was written up to there is a proper prefix of a complete rendering, not a rendering
    for key, alts in table.items():
        table[key] = [a for a in alts if not any(a != o and len(a) < len(o) and o[:len(a)] == a for o in alts)]
    if not table and _depth < 2:
        # the impl only hands (self, f) to a crate-local helper: its table is the helper's
        from mir import callee_name
        for _bb, t_ in b.calls():
            cn = callee_name(t_)
            hb = f.bodies.get(cn)
            if hb is not None and hb.argc == 2 and 'Formatter' in str(hb.local_ty(2).get('s', '')) and cn != impl_path:
                sub = display_table(ctx, cn, _depth + 1)
                if sub:
                    return sub
    return table


# ------------------------------------------------------------------ R09.1 printer / parser tokens

def r09_1(ctx, run, rule='R09.1'):
    f = ctx.facts
    rows = value_rows(ctx, ('jsonpath::parser::', 'jsonpath::path::'))
    run.floor(rule, 'value(CONST, token) rows in the JSONPath grammar', len(rows), 20)

    def variant_of(k):
        if agg_variant(k):
            return (k[1][1].split('::')[-1], k[1][2], tuple(const_of(x) for x in k[2]))
        if k[0] == 'const':
            return ('const', k[1], ())
        return None
    parse_tab = {}
    for fn, k, tk in rows:
        v = variant_of(k)
        if v:
            parse_tab.setdefault((v[0], v[1], v[2]), set()).add(tk)
    # operators
    for enum, impl in (('BinaryOperator', '<jsonpath::path::BinaryOperator as std::fmt::Display>::fmt'),):
        names = [v['name'] for v in f.adts['jsonpath::path::' + enum]['variants']]
        dt = display_table(ctx, impl)
        if dt is None:
            run.undecided(rule, impl, 'display', 'Display impl not found (anchor lost)')
            continue
        for vi, alts in sorted((k, v) for k, v in dt.items() if k is not None):
            name = names[vi]
            text = ''.join(p[1] for p in alts[0] if p[0] == 'lit')
            if name in ('And', 'Or'):
                continue
            toks = parse_tab.get((enum, name, ()), set())
            ok = any((t[0] in ('tag', 'char') and t[1] == text) for t in toks)
            if not toks:
                run.undecided(rule, impl, f'token[{enum}::{name}]', f'{name} is printed as {text!r}; no grammar row producing {name} was found where this rule looks (moved or written differently?): not decided')
                continue
            (run.proved if ok else run.violation)(rule, impl, f'token[{enum}::{name}]', f'prints {text!r}; the grammar maps {text!r} back to {name}' if ok else
                                                   f'{name} is printed as {text!r}, but the grammar maps {sorted(str(t[1]) for t in toks)} to {name}: a printed path does not parse back to the same operator')
    # every parser row must denote the variant the printer would print for it or a documented alias
    alias = {('BinaryOperator', 'NotEq'): {'!=', '<>'}}
    dt = display_table(ctx, '<jsonpath::path::BinaryOperator as std::fmt::Display>::fmt') or {}
    names = [v['name'] for v in f.adts['jsonpath::path::BinaryOperator']['variants']]
    printed = {names[k]: ''.join(p[1] for p in v[0] if p[0] == 'lit') for k, v in dt.items() if k is not None}
    for (en, name, args), toks in sorted(parse_tab.items(), key=str):
        if en != 'BinaryOperator':
            continue
        for t in toks:
            ok = t[1] == printed.get(name) or t[1] in alias.get((en, name), set())
            (run.proved if ok else run.violation)(rule, 'jsonpath::parser::op', f'row[{t[1]}]', f'{t[1]!r} -> {name}' if ok else
                                                   f'the token {t[1]!r} is parsed as {name}, whose printed form is {printed.get(name)!r}')
    # && / || : the tags of expr_and / expr_or and the operator they build
    for fn, tok, op in (('jsonpath::parser::expr_and', '&&', 'And'), ('jsonpath::parser::expr_or', '||', 'Or')):
        b = f.bodies.get(fn)
        if b is None:
            run.undecided(rule, fn, 'connective', 'function not found (anchor lost)')
            continue
        tags = set()
        for q in Explorer(b, max_paths=50).explore():
            for e in q.calls():
                tk = tok_of(e[4])
                if tk and tk[0] == 'tag':
                    tags.add(tk[1])
        built = set()
        for cp, cb in f.bodies.items():
            if cp.startswith(fn + '::{closure'):
                for bb, i, s in cb.all_stmts():
                    if s['k'] == 'assign' and s['rv']['k'] == 'agg' and s['rv'].get('adt') == 'jsonpath::path::BinaryOperator':
                        built.add(s['rv']['vname'])
        ok = tags == {tok} and built == {op} and printed.get(op) == tok
        (run.proved if ok else run.violation)(rule, fn, f'connective[{op}]', f'splits on {tok!r} and builds {op}, printed {tok!r}' if ok else
                                               f'splits on {sorted(tags)}, builds {sorted(built)}, prints {printed.get(op)!r}')
    # keywords / punctuation of paths and literals
    expect = [('Path', 'Root', '$'), ('Path', 'Current', '@'), ('Path', 'DotWildcard', '.*')]
    pd = display_table(ctx, "<jsonpath::path::Path<'a> as std::fmt::Display>::fmt") or {}
    pnames = [v['name'] for v in f.adts['jsonpath::path::Path']['variants']]
    pprinted = {pnames[k]: v for k, v in pd.items() if k is not None}
    for en, name, tok in expect:
        toks = parse_tab.get((en, name, ()), set())
        text = ''.join(p[1] for p in pprinted.get(name, [[('lit', '?')]])[0] if p[0] == 'lit')
        ok = text == tok and any(t[1] == tok for t in toks)
        (run.proved if ok else run.violation)(rule, 'jsonpath::path::Path', f'token[{name}]', f'{tok!r} both ways' if ok else f'{name} prints {text!r}; grammar tokens {sorted(str(t[1]) for t in toks)}')
    shapes = {'BracketWildcard': [('lit', '[*]')], 'ColonField': [('lit', ':'), ('arg', 'new_display')], 'DotField': [('lit', '.'), ('arg', 'new_display')],
              'ObjectField': [('lit', '["'), ('arg', 'new_display'), ('lit', '"]')], 'FilterExpr': [('lit', '?('), ('arg', 'new_display'), ('lit', ')')]}
    for name, want in shapes.items():
        got = pprinted.get(name)
        ok = got is not None and want in got
        (run.proved if ok else run.violation)(rule, 'jsonpath::path::Path', f'shape[{name}]', ''.join(x[1] if x[0] == 'lit' else '{}' for x in want) if ok else f'{name} is printed as {got}')
    # literals
    vd = display_table(ctx, "<jsonpath::path::PathValue<'a> as std::fmt::Display>::fmt") or {}
    lits = {''.join(p[1] for p in alt if p[0] == 'lit') for alts in vd.values() for alt in alts}
    for kw in ('null', 'true', 'false'):
        ok = kw in lits and any(tk == ('tag', kw) for (fn, k, tk) in rows)
        (run.proved if ok else run.violation)(rule, 'jsonpath::path::PathValue', f'keyword[{kw}]', 'printed and parsed' if ok else f'{kw!r}: printed forms {sorted(lits)}')
    strq = any(alt == [('lit', '"'), ('arg', 'new_display'), ('lit', '"')] for alts in vd.values() for alt in alts)
    (run.proved if strq else run.violation)(rule, 'jsonpath::path::PathValue', 'shape[String]', '"{}"' if strq else 'string literals are not printed between double quotes with Display')
    # index keywords
    idt = display_table(ctx, '<jsonpath::path::Index as std::fmt::Display>::fmt') or {}
    ilits = {p[1] for alts in idt.values() for alt in alts for p in alt if p[0] == 'lit'}
    ok = 'last' in ilits and '+' in ilits
    (run.proved if ok else run.violation)(rule, 'jsonpath::path::Index', 'keyword[last]', 'last / last+N / lastN(negative)' if ok else f'index printer literals {sorted(ilits)}')
    adt = display_table(ctx, '<jsonpath::path::ArrayIndex as std::fmt::Display>::fmt') or {}
    alits = {p[1] for alts in adt.values() for alt in alts for p in alt if p[0] == 'lit'}
    ok = ' to ' in alits
    (run.proved if ok else run.violation)(rule, 'jsonpath::path::ArrayIndex', 'keyword[to]', 'start to end' if ok else f'range printer literals {sorted(alits)}')
    b = f.bodies.get('jsonpath::parser::index')
    nocase = set()
    if b is not None:
        for q in Explorer(b, max_paths=50).explore():
            for e in q.calls():
                tk = tok_of(e[4])
                if tk and tk[0] == 'nocase':
                    nocase.add(tk[1])
    b2 = f.bodies.get('jsonpath::parser::array_index')
    if b2 is not None:
        for q in Explorer(b2, max_paths=50).explore():
            for e in q.calls():
                tk = tok_of(e[4])
                if tk and tk[0] == 'nocase':
                    nocase.add(tk[1])
    ok = {'last', 'to'} <= nocase
    (run.proved if ok else run.violation)(rule, 'jsonpath::parser::index', 'keywords', 'last / to, any case' if ok else f'keyword parsers found: {sorted(nocase)}')


# ------------------------------------------------------------------ R09.2 precedence, R09.3 whole input, R09.4 complete combinators

def r09_2(ctx, run, rule='R09.2'):
    cg = ctx.cg
    def calls(a, b_):
        seen = set()
        st = [a]
        while st:
            x = st.pop()
            if x in seen:
                continue
            seen.add(x)
            for y in cg.edges.get(x, {}):
                if y == b_:
                    return True
                if y.startswith(a + '::{closure'):
                    st.append(y)
        return False
    ok1 = calls('jsonpath::parser::expr_or', 'jsonpath::parser::expr_and') and not calls('jsonpath::parser::expr_and', 'jsonpath::parser::expr_or')
    ok2 = calls('jsonpath::parser::expr_and', 'jsonpath::parser::expr_atom')
    ok = ok1 and ok2
    (run.proved if ok else run.violation)(rule, 'jsonpath::parser::expr_or', 'nesting', '|| splits into && groups, && groups into atoms: && binds tighter' if ok else
                                           'the ||-level does not delegate to the &&-level which delegates to atoms: operator precedence is not && over ||')


def whole_input(ctx, run, rule, fn, err_variant):
    f = ctx.facts
    b = f.bodies.get(fn)
    if b is None:
        run.undecided(rule, fn, 'whole-input', 'function not found (anchor lost)')
        return
    ps, _ = explore(b)
    n = 0
    bad = 0
    unread = 0
    unread_ret = False
    comb = 0
    chain_bad = False
    for p in ps:
        if p.end[0] == 'return' and p.ret is not None and not agg_variant(p.ret):
            # the result built by combinators: `rest.is_empty().then_some(v).ok_or(err)` / `.then(|| v).ok_or(..)`
            r_ = deref_all(p.ret)
            if is_call(r_, 'Option::ok_or', 'Option::ok_or_else') and r_[2] and is_call(deref_all(r_[2][0]), 'bool::then_some', 'bool::then'):
                c0 = deref_all(deref_all(r_[2][0])[2][0])
                if is_call(c0, 'slice::is_empty') and any(s_[0] == 'downcast' and s_[2] in ('Ok', 'Continue') for s_ in subterms(c0)):
                    comb += 1
                    continue
            # `grammar(input).ok().filter(|(rest, _)| rest.is_empty()).map(..).ok_or(err)`: the filter is the whole-input test; the same chain
            # without any filter / then_some step accepts whatever the grammar left over
            chain = [canon(s_[1]).split('::')[-1] for s_ in subterms(r_) if s_[0] == 'call']
            grammar_call = any(s_[0] == 'call' and s_[1] in f.bodies and not s_[1].endswith(fn.split('::')[-1]) for s_ in subterms(r_))
            if is_call(r_, 'Option::ok_or', 'Option::ok_or_else', 'Result::map', 'Result::map_err', 'Option::map') and grammar_call:
                tests = [s_ for s_ in subterms(r_) if s_[0] == 'call' and canon(s_[1]).split('::')[-1] in ('filter', 'then_some', 'then', 'and_then', 'filter_map', 'take_if', 'is_some_and')]
                if not tests and all(c_ in ('ok_or', 'ok_or_else', 'map', 'map_err', 'ok', 'err', 'into', 'from') or c_ in [x_.split('::')[-1] for x_ in f.bodies] or 'closure' in c_ for c_ in chain):
                    chain_bad = True
                    continue
                flt = [s_ for s_ in tests if canon(s_[1]).split('::')[-1] == 'filter' and len(s_[2]) == 2 and s_[2][1][0] == 'agg' and isinstance(s_[2][1][1], tuple) and s_[2][1][1][0] == 'closure']
                okf = False
                for s_ in flt:
                    cb_ = f.bodies.get(s_[2][1][1][1])
                    if cb_ is not None:
                        for cq in explore(cb_)[0]:
                            if cq.end[0] == 'return' and is_call(deref_all(cq.ret), 'slice::is_empty'):
                                okf = True
                if okf:
                    comb += 1
                    continue
            if not is_call(r_, 'FromResidual::from_residual'):
                unread_ret = True
        if p.end[0] != 'return' or not (agg_variant(p.ret) and p.ret[1][2] == 'Ok'):
            continue
        n += 1
        def of_rest(t):
            return any(s[0] == 'downcast' and s[2] in ('Ok', 'Continue') for s in subterms(t))
        ok = any(is_call(c[0], 'slice::is_empty') and c[2] is True and of_rest(c[0]) for c in p.conds)
        # the same test written on the length: rest.len() == 0, a slice pattern `[]`, rest.len() < 1 ...
        if not ok:
            from pathfacts import PathFacts
            from panics import norm_conds
            try:
                pf = PathFacts(norm_conds(p.conds), nonneg=lambda a: True)
                for c in p.conds:
                    for s_ in subterms(c[0]):
                        if (s_[0] == 'len' or is_call(s_, 'slice::len')) and of_rest(s_):
                            from panics import norm
                            r_ = pf.range_of_term(norm(s_) if s_[0] == 'len' else s_)
                            if not r_.empty() and r_.hi() == 0:
                                ok = True
            except Exception:
                pass
        if not ok:
            # a test of the rest made by something this rule does not read (a helper, first(), a pattern on its content)
            if any(of_rest(c[0]) and c[0][0] != 'discr' for c in p.conds):
                unread += 1
            elif not of_rest(p.ret) and not any(of_rest(c[0]) for c in p.conds) and any(
                    s_[0] == 'call' and any(x_[0] == 'init' and x_[1] == 1 for a_ in s_[2] for x_ in subterms(a_)) for c in p.conds for s_ in subterms(c[0])):
                # an answer given without running the grammar at all, on a decision about the whole input made by an iterator adaptor
                # or a helper (`input.iter().all(is_blank)`): there is no "rest" on such a path; what that decision admits is not read
                unread += 1
            else:
                bad += 1
    if chain_bad:
        run.violation(rule, fn, 'whole-input', 'the result of the grammar is turned into Ok by a chain of ok / map / ok_or steps with no test of the unparsed rest: input with trailing garbage is accepted', f'{b.file}:{b.line}')
    elif not n and comb and not unread_ret:
        run.proved(rule, fn, 'whole-input', f'the result is Ok only through rest.is_empty().then_some(..).ok_or(..) ({comb} path(s))', f'{b.file}:{b.line}')
    elif not n:
        run.undecided(rule, fn, 'whole-input', 'no return path builds Ok(..) directly in this function (the result comes from combinators or a helper this rule does not read): not decided', f'{b.file}:{b.line}')
    elif n and not bad and unread:
        run.undecided(rule, fn, 'whole-input', f'{unread} Ok return(s) follow a test of the unparsed rest that this rule does not read as "rest is empty": not decided', f'{b.file}:{b.line}')
    elif n and not bad:
        run.proved(rule, fn, 'whole-input', f'every Ok return ({n}) is taken only when the unparsed rest is empty', f'{b.file}:{b.line}')
    else:
        run.violation(rule, fn, 'whole-input', 'a successful return does not require the rest of the input to be empty: input with trailing garbage is accepted', f'{b.file}:{b.line}')


def r09_4(ctx, run, rule, roots):
    cg = recursion.augment(ctx)
    cone = cg.reachable([r for r in roots if r in ctx.facts.bodies])
    bad = []
    n = 0
    for p in cone:
        for name, bb, t in cg.ext_calls.get(p, []):
            if 'nom::' in name or name.startswith('nom'):
                n += 1
            if '::streaming::' in name:
                bad.append((p, name, t))
        b = ctx.facts.bodies[p]
        for bb, i, s in b.all_stmts():
            # a hand-written parser of the grammar that builds nom::Err::Incomplete itself is a streaming parser too (who-may-construct:
            # nobody; the entry points' Incomplete arms are unreachable!())
            if s['k'] == 'assign' and s['rv']['k'] == 'agg' and s['rv'].get('agg') == 'adt' and s['rv'].get('vname') == 'Incomplete' \
                    and 'nom' in s['rv'].get('adt', '') and s['rv']['adt'].split('::')[-1] == 'Err':
                bad.append((p, 'nom::Err::Incomplete built by hand', {'file': s.get('file'), 'line': s.get('line')}))
    if bad and bad[0][1].endswith('by hand'):
        p, name, t = bad[0]
        run.violation(rule, p, 'streaming-combinator', 'this grammar function returns nom::Err::Incomplete itself; alt / delimited / separated_list pass it through to the entry point, which treats it as unreachable!()', f"{t.get('file')}:{t.get('line')}")
    elif bad:
        p, name, t = bad[0]
        run.violation(rule, p, 'streaming-combinator', f'`{name}` is a streaming combinator: it reports Incomplete, which the entry point treats as unreachable!()', f"{t.get('file')}:{t.get('line')}")
    else:
        run.proved(rule, roots[0], 'complete-combinators', f'{len(cone)} functions in the grammar use only nom::*::complete parsers; Err::Incomplete cannot arise')


# ------------------------------------------------------------------ R09.6 / R02.4 escape widths

UNREC = {}


def _unchecked(t):
    """rewrite `(a.checked_add(b) as Some).0` as a + b (the Some case is the sum) so that cursor arithmetic written with checked operations
    is read like the plain form"""
    if not isinstance(t, tuple) or not t:
        return t
    if t[0] == 'field' and isinstance(t[1], tuple) and t[1] and t[1][0] == 'downcast' and t[1][2] == 'Some':
        c = deref_all(t[1][1])
        if c[0] == 'call' and canon(c[1]).split('::')[-1] in ('checked_add', 'checked_sub') and len(c[2]) == 2:
            return ('bin', 'Add' if canon(c[1]).endswith('checked_add') else 'Sub', _unchecked(c[2][0]), _unchecked(c[2][1]))
    return tuple(_unchecked(x) if isinstance(x, tuple) and x and isinstance(x[0], str) else x for x in t)


def scanner_widths(ctx):
    """Widths (bytes skipped from the backslash) per escape form in the pass-1 scanners."""
    f = ctx.facts
    out = {}
    UNREC.clear()
    b = f.bodies.get('jsonpath::parser::check_escaped')
    if b is not None:
        ws = set()
        for q in Explorer(b).explore():
            if q.end[0] == 'return' and q.ret[0] == 'const' and q.ret[1] is True:
                endv = None
                for k, v in q.store.items():
                    if k[0] == 'M':
                        endv = v
                if endv is not None:
                    l = lin(_unchecked(endv))
                    # the new cursor must be the old one plus a constant; anything else (a helper's result, a computed width) is not a width this rule reads
                    if len(l[0]) == 1 and list(l[0].values()) == [1] and isinstance(l[1], int):
                        ws.add(l[1])
                    else:
                        UNREC.setdefault('check_escaped', set()).add(show(endv)[:40])
        out['check_escaped'] = ws
    b = f.bodies.get("parser::Parser::<'a>::parse_json_string")
    if b is not None:
        loops = natural_loops(b)
        ws = set()
        ex = Explorer(b)
        for h in loops:
            for q in ex.explore(start=h, stop=set(loops)):
                if q.end[0] not in ('stop', 'backedge'):
                    continue
                if not any(c[1] == 'eq' and c[2] == 0x5C for c in q.conds):
                    continue
                tot = 0
                for e in q.calls():
                    if called(e[1], 'Parser::step'):
                        tot += 1
                    elif called(e[1], 'Parser::step_by') and len(e[2]) == 2 and const_of(e[2][1]) is not None:
                        tot += const_of(e[2][1])
                    elif e[1] in f.bodies and e[2] and not called(e[1], 'Parser::check_next', 'Parser::check_next_either', 'Parser::check_digit', 'Parser::error',
                                                                  'Parser::must_is', 'Parser::must_either', 'Parser::next'):
                        # another method of the parser may move the cursor: the width of this path is not known
                        a0 = e[5]['args'][0] if e[5].get('args') else None
                        if a0 is not None and a0.get('k') in ('copy', 'move') and str(b.local_ty(a0['place']['local']).get('s', '')).startswith('&mut'):
                            UNREC.setdefault('parse_json_string', set()).add(e[1].split('::')[-1])
                ws.add(tot)
        out['parse_json_string'] = ws
    return out


def decoder_widths(ctx):
    """Bytes consumed per escape form (including the backslash) by util::parse_escaped_string, from its paths."""
    f = ctx.facts
    b = f.bodies.get('util::parse_escaped_string')
    if b is None:
        return None
    ws = {}
    for q in Explorer(b, max_paths=4000).explore():
        if q.end[0] != 'return' or not (agg_variant(q.ret) and q.ret[1][2] == 'Ok'):
            continue
        consumed = 1   # the backslash consumed by the caller
        hexreads = 0
        for e in q.calls():
            if called(e[1], 'Index::index') and len(e[2]) == 2:
                r = deref_all(e[2][1])
                if agg_variant(r) and r[1][1].endswith('RangeFrom') and const_of(r[2][0]) is not None:
                    consumed += const_of(r[2][0])
            elif called(e[1], 'Read::read_exact'):
                consumed += 4
                hexreads += 1
        first = [c for c in q.conds if c[1] == 'eq' and isinstance(c[2], int) and not isinstance(c[2], bool) and c[0][0] == 'index']
        kind = 'plain'
        if first and first[0][2] == ord('u'):
            kind = 'u%d' % hexreads
        ws.setdefault(kind, set()).add(consumed)
    return ws


def r_widths(ctx, run, rule):
    sw = scanner_widths(ctx)
    dw = decoder_widths(ctx)
    if dw is None:
        run.undecided(rule, 'util::parse_escaped_string', 'widths', 'decoder not found (anchor lost)')
        return
    # decoder: plain escapes 2 bytes; one \\u escape 6 or 8 (braced); a surrogate pair consumes two escapes
    single = set(dw.get('plain', set())) | {w for w in dw.get('u1', set())}
    want = {2, 6, 8}
    ok_dec = dw.get('plain') == {2} and dw.get('u1', set()) <= {6, 8} and dw.get('u1')
    # a surrogate pair is two \\u escapes, each 6 (plain) or 8 (braced) bytes long
    if ok_dec and dw.get('u2') and not dw['u2'] <= {12, 14, 16}:
        run.violation(rule, 'util::parse_escaped_string', 'decoder-widths[pair]', f'a surrogate pair consumes {sorted(dw["u2"])} bytes on some path; two escapes of 6 or 8 bytes make 12, 14 or 16: '
                      'one form of the second escape leaves a byte (its closing brace) unconsumed or eats one too many, so the text after it is decoded shifted')
    elif ok_dec and dw.get('u2'):
        run.proved(rule, 'util::parse_escaped_string', 'decoder-widths[pair]', f'surrogate pairs consume {sorted(dw["u2"])} bytes')
    if not ok_dec and dw.get('plain', {2}) == {2} and dw.get('u1', set()) <= {6, 8} and (not dw.get('u1') or set(dw) - {'plain', 'u1', 'u2'}):
        run.undecided(rule, 'util::parse_escaped_string', 'decoder-widths', f'the \\u branch of the decoding pass does not read its hex digits in the shape this rule reads '
                      f'(found {dict((k, sorted(v)) for k, v in dw.items())}; moved to a helper?): the bytes it consumes per escape are not decided')
    else:
      (run.proved if ok_dec else run.violation)(rule, 'util::parse_escaped_string', 'decoder-widths', f'plain escapes consume 2 bytes, \\uXXXX 6, \\u{{XXXX}} 8 (pairs: two escapes): {dict((k, sorted(v)) for k, v in dw.items())}' if ok_dec else
                                               f'the second pass consumes {dict((k, sorted(v)) for k, v in dw.items())} bytes per escape')
    for name, ws in sw.items():
        fn = 'jsonpath::parser::check_escaped' if name == 'check_escaped' else "parser::Parser::<'a>::parse_json_string"
        ok = ws == want
        if not ok and (not ws or UNREC.get(name)):
            run.undecided(rule, fn, 'scanner-widths', f'the escape-skipping code of the scanning pass is not in the shape this rule reads (widths found: {sorted(ws)}; '
                          f'cursor moved by {sorted(UNREC.get(name, []))}): its agreement with the decoding pass is not decided')
            continue
        (run.proved if ok else run.violation)(rule, fn, 'scanner-widths', 'skips 2 / 6 / 8 bytes from the backslash, exactly what the decoding pass consumes' if ok else
                                               f'the scanning pass skips {sorted(ws)} bytes per escape but the decoding pass consumes 2 / 6 / 8: the two passes disagree on where an escape ends')
    # callers of parse_string are exactly the scanners (side condition of the data[0] assumptions)
    cg = ctx.cg
    callers = sorted(c for c, tg in cg.edges.items() if 'util::parse_string' in tg)
    want_callers = {"parser::Parser::<'a>::parse_json_string", 'jsonpath::parser::raw_string', 'jsonpath::parser::string'}
    f_ = ctx.facts

    def scanner_helper(c, seen=()):
        # a private function reached only from the scanners (or from such helpers)
        cb = f_.bodies.get(c)
        if cb is None or cb.vis not in ('private', 'closure'):
            return False
        cs = [x for x, tg in cg.edges.items() if c in tg and x != c]
        return bool(cs) and all(x in want_callers or (x not in seen and scanner_helper(x, seen + (c,))) for x in cs)
    ok = all(c in want_callers or scanner_helper(c) for c in callers) and bool(callers)
    (run.proved if ok else run.violation)(rule, 'util::parse_string', 'callers', 'called only by the three scanners' if ok else f'parse_string is called from {callers}: a caller that has not pre-scanned the escapes can make the decoder index past its input')


# ------------------------------------------------------------------ R09.7 literal coverage, R09.8 ordered choice

def r09_8(ctx, run, rule, prefixes, floor):
    tabs = alt_tables(ctx, prefixes)
    run.floor(rule, 'alt((..)) tables', len(tabs), floor)
    for fn, members, e in tabs:
        lead = [leading(m) for m in members]
        desc = [(l[0][1] if l[0] and l[0][1] is not None else '?') if l[0] else '?' for l in lead]
        problems = []
        for i in range(len(members)):
            li, gi = lead[i]
            if not li:
                continue
            for j in range(i + 1, len(members)):
                lj, gj = lead[j]
                if not lj:
                    continue
                if li[0] in ('tag', 'char', 'nocase') and lj[0] in ('tag', 'char', 'nocase') and li[1] and lj[1]:
                    a, b_ = li[1], lj[1]
                    if li[0] == 'nocase' or lj[0] == 'nocase':
                        a, b_ = a.lower(), b_.lower()
                    if b_.startswith(a) and len(b_) > len(a) and not gi:
                        # same leading token is fine when the members continue differently (preceded(char(':'), string) / preceded(char(':'), raw_string))
                        problems.append(f'alternative #{i} ({li[1]!r}) succeeds on a proper prefix of what alternative #{j} ({lj[1]!r}) needs, so #{j} can never match')
                if li[0] == 'num' and lj[0] == 'num' and li[1] in ('u64', 'i64', 'i32', 'u32') and lj[1] == 'double' and not gi:
                    problems.append(f'the integer parser {li[1]} (alternative #{i}) precedes double (alternative #{j}) without a guard: for 1.5 or 1e3 it consumes the integer part and the literal is lost')
                elif li[0] == 'num' and lj[0] == 'num' and li[1] in ('u64', 'i64', 'i32', 'u32') and lj[1] == 'double' and isinstance(gi, frozenset) and not {'.', 'e', 'E'} <= gi:
                    miss = sorted({'.', 'e', 'E'} - gi)
                    problems.append(f'the look-ahead after the integer parser {li[1]} (alternative #{i}) does not exclude {miss}: for a literal such as 1{miss[0]}3 it accepts the integer part, '
                                    f'double (alternative #{j}) is never tried and the literal is rejected or cut short')
        t = e[5]
        loc = f"{t.get('file')}:{t.get('line')}"
        d = 'alt[' + ','.join(str(x) for x in desc) + ']'
        if problems:
            run.violation(rule, fn, d, '; '.join(problems[:2]), loc)
        else:
            run.proved(rule, fn, d, 'no alternative is shadowed by an earlier one that matches a proper prefix', loc)
    return tabs


def r09_7(ctx, run, rule='R09.7'):
    tabs = alt_tables(ctx, ('jsonpath::parser::path_value',))
    f = ctx.facts
    if not tabs:
        run.undecided(rule, 'jsonpath::parser::path_value', 'alternatives', 'alt table not found (anchor lost)')
        return
    fn, members, e = tabs[0]
    kinds = []
    for m in members:
        l, g = leading(m)
        kinds.append((l[0], l[1]) if l else None)
    have = {k for k in kinds if k}
    need = [('tag', 'null'), ('tag', 'true'), ('tag', 'false'), ('num', 'u64'), ('num', 'i64'), ('num', 'double'), ('fn', 'string')]
    missing = [k for k in need if k not in have]
    (run.proved if not missing else run.violation)(rule, fn, 'literal-kinds', 'null, true, false, unsigned, signed, float and string literals all have an alternative' if not missing else
                                                    f'no alternative for {missing}')
    empty_literal(ctx, run, rule)


def empty_literal(ctx, run, rule='R09.7'):
    """the quoted-string scanner accepts the empty literal "" (also the empty quoted name of a key path): no success path requires the
    closing quote beyond position 1, and no helper it hands the text to fails on empty text"""
    f = ctx.facts
    # the quoted-string scanner accepts the empty literal: no success path requires i > 1
    b = f.bodies.get('jsonpath::parser::string')
    if b is not None:
        loops = natural_loops(b)
        ex = Explorer(b)
        bad = False
        n = 0
        for h in sorted(loops):
            for q in ex.explore(start=h, stop=set(loops)):
                if q.end[0] == 'return' and agg_variant(q.ret) and q.ret[1][2] == 'Ok':
                    n += 1
                    for c in q.conds:
                        t = c[0]
                        if t[0] == 'bin' and t[1] in ('Gt', 'Ge', 'Lt', 'Le') and any(s[0] == 'hav' for s in subterms(t)) and any(x[0] == 'const' and x[1] in (1, 2) for x in (t[2], t[3])) \
                                and not any(s[0] == 'len' or is_call(s, 'slice::len') for s in subterms(t)):
                            bad = True
        if True:
            # the result is built by a helper that receives the text between the quotes (`&input[1..end]`): a helper that answers Err just
            # because that text is empty rejects the empty literal
            rejecting = None
            for s0 in [0] + sorted(loops):
                for q in ex.explore(start=s0, stop=set(loops)):
                    for e in q.calls():
                        hb = f.bodies.get(e[1])
                        if hb is None or hb.kind == 'Promoted' or not e[1].startswith(('jsonpath::parser::', 'util::')):
                            continue
                        for i_, a_ in enumerate(e[2]):
                            r_ = deref_all(a_)
                            if not (is_call(r_, 'Index::index', 'index::index') and len(r_[2]) == 2):
                                continue
                            rg_ = deref_all(r_[2][1])
                            if not (agg_variant(rg_) and rg_[1][1].split('::')[-1] == 'Range' and const_of(rg_[2][0]) == 1):
                                continue
                            for hq in explore(hb)[0]:
                                if hq.end[0] != 'return' or not (agg_variant(hq.ret) and hq.ret[1][2] == 'Err'):
                                    continue
                                cs = [c for c in hq.conds if not (c[0][0] == 'discr')]
                                if cs and all(is_call(c[0], 'slice::is_empty', 'str::is_empty') and c[2] is True and deref_all(c[0][2][0])[0] == 'init' and deref_all(c[0][2][0])[1] == i_ + 1 for c in cs):
                                    rejecting = (canon(e[1]).split('::')[-1], f"{hb.file}:{hb.line}")
                        # or it receives the bounds (start = 1, end = position of the closing quote) and fails when end <= start: for ""
                        # the closing quote is at position 1, so start == end
                        ones = [i_ for i_, a_ in enumerate(e[2]) if const_of(deref_all(a_)) == 1]
                        curs = [i_ for i_, a_ in enumerate(e[2]) if i_ not in ones and i_ + 1 <= hb.argc and str(hb.local_ty(i_ + 1).get('s')) == 'usize' and const_of(deref_all(a_)) is None]
                        if len(ones) == 1 and curs:
                            sp = ones[0] + 1
                            for hq in explore(hb)[0]:
                                if hq.end[0] != 'return' or hq.ret is None:
                                    continue
                                r_ = deref_all(hq.ret)
                                if not (agg_variant(r_) and r_[1][2] in ('Err', 'None')):
                                    continue
                                cs = [c for c in hq.conds if c[0][0] != 'discr' and 'ovf' not in show(c[0])[:4]]
                                if not cs:
                                    continue

                                def holds_when_equal(c):
                                    t_ = c[0]
                                    if t_[0] != 'bin' or t_[1] not in ('Le', 'Ge', 'Eq', 'Lt', 'Gt', 'Ne') or not isinstance(c[2], bool):
                                        return None
                                    a_, b_ = deref_all(t_[2]), deref_all(t_[3])
                                    if not (a_[0] == 'init' and b_[0] == 'init' and sp in (a_[1], b_[1]) and any(k_ + 1 in (a_[1], b_[1]) and k_ + 1 != sp for k_ in curs)):
                                        return None
                                    v_ = {'Le': True, 'Ge': True, 'Eq': True, 'Lt': False, 'Gt': False, 'Ne': False}[t_[1]]
                                    return v_ == c[2]
                                hs = [holds_when_equal(c) for c in cs]
                                if all(h is True for h in hs):
                                    rejecting = (canon(e[1]).split('::')[-1], f"{hb.file}:{hb.line}")
            if rejecting:
                run.violation(rule, b.path, 'empty-literal', f'the text between the quotes (or its bounds) is handed to {rejecting[0]}(), which fails when that text is empty: the empty literal "" is rejected', rejecting[1])
            elif not n:
                run.undecided(rule, b.path, 'empty-literal', 'no path of the quoted-string scanner builds its Ok result in the function itself (moved to a helper?): acceptance of "" is not decided here', f'{b.file}:{b.line}')
        if n and not rejecting:
          (run.proved if n and not bad else run.violation)(rule, b.path, 'empty-literal', 'the empty string "" is accepted' if n and not bad else
                                                          'a successful return of the quoted-string scanner requires the closing quote to be beyond position 1: the empty literal "" is rejected', f'{b.file}:{b.line}')


# ------------------------------------------------------------------ C16 printer

def r16_4(ctx, run, rule='R16.4'):
    dt = display_table(ctx, "<keypath::KeyPath<'a> as std::fmt::Display>::fmt")
    f = ctx.facts
    if dt is None:
        run.undecided(rule, 'keypath::KeyPath', 'display', 'Display impl not found (anchor lost)')
        return
    names = [v['name'] for v in f.adts['keypath::KeyPath']['variants']]
    got = {names[k]: v for k, v in dt.items() if k is not None}
    want = {'Index': [('arg', 'new_display')], 'QuotedName': [('lit', '"'), ('arg', 'new_display'), ('lit', '"')], 'Name': [('arg', 'new_display')]}
    for k, w in want.items():
        ok = got.get(k) is not None and w in got[k] and len(got[k]) == 1
        if got.get(k) is None:
            # nothing this rule reads is written for the variant (the printing was moved somewhere it does not follow): not a recognised wrong rendering
            run.undecided(rule, 'keypath::KeyPath', f'shape[{k}]', f'no write of the Display impl was read for {k} (delegated to a helper or adaptor this rule does not follow): its printed form is not decided')
            continue
        (run.proved if ok else run.violation)(rule, 'keypath::KeyPath', f'shape[{k}]', ''.join(x[1] if x[0] == 'lit' else '{}' for x in w) if ok else
                                               f'{k} is printed as {got.get(k)}; expected {w} (Display of the name between plain quotes): other formatting does not parse back')
    dt = display_table(ctx, "<keypath::KeyPaths<'a> as std::fmt::Display>::fmt") or {}
    lits = [p[1] for alts in dt.values() for alt in alts for p in alt if p[0] == 'lit']
    # closures of the impl (try_for_each, for_each ...) print too
    for pth_ in sorted(x for x in f.bodies if x.startswith("<keypath::KeyPaths<'a> as std::fmt::Display>::fmt::{closure")):
        dtc = display_table(ctx, pth_) or {}
        lits += [p[1] for alts in dtc.values() for alt in alts for p in alt if p[0] == 'lit']
    joined = ''.join(lits)
    ok = '{' in joined and '}' in joined and ',' in joined
    foreign = [ch for ch in joined if ch in '[]();:|<>']
    if ok:
        run.proved(rule, 'keypath::KeyPaths', 'punctuation', '{ , }')
    elif foreign:
        run.violation(rule, 'keypath::KeyPaths', 'punctuation', f'printer literals {lits}')
    else:
        run.undecided(rule, 'keypath::KeyPaths', 'punctuation', f'the literals `{{`, `,`, `}}` were not all found in the Display impl as this rule reads it (found {lits}; written through a helper or adaptor?): not decided')
    b = f.bodies.get('keypath::key_paths')
    if b is None:
        run.undecided(rule, 'keypath::key_paths', 'punctuation', 'the list grammar function was not found under this name (renamed?): not decided')
        return
    chars = set()
    if b is not None:
        # the list grammar and the private helpers it is split into
        for pth in sorted(x for x in ctx.cg.reachable(['keypath::key_paths']) if x.startswith('keypath::') and x in f.bodies):
            cb = f.bodies[pth]
            if cb.kind == 'Promoted':
                continue
            for q in Explorer(cb, max_paths=100).explore():
                for e in q.calls():
                    tk = tok_of(e[4])
                    if tk and tk[0] == 'char':
                        chars.add(tk[1])
    ok = {'{', '}', ','} <= chars
    (run.proved if ok else run.violation)(rule, 'keypath::key_paths', 'punctuation', 'grammar uses { , }' if ok else f'grammar characters {sorted(chars)}')


# ------------------------------------------------------------------ R09.11 parenthesisation of nested && / ||

def enum_fn_table(body):
    """{variant index | 'otherwise': constant} for a function of one enum argument that returns a constant chosen by the argument's discriminant"""
    ps, _ = explore(body)
    tab = {}
    for q in ps:
        if q.end[0] != 'return':
            continue
        r = deref_all(q.ret)
        if r[0] != 'const':
            return None
        ds = [c for c in q.conds if c[0][0] == 'discr' and deref_all(c[0][1])[0] == 'init' and deref_all(c[0][1])[1] == 1]
        if len(ds) != 1 or len(q.conds) != 1:
            return None
        c = ds[0]
        if c[1] == 'eq':
            tab[c[2]] = r[1]
        else:
            tab['otherwise'] = r[1]
    return tab or None


def closure_parenthesises(f, cpath, ops):
    """Does the decision closure `|child: &Expr| -> bool` answer true for every child that is an && / || expression, whatever the
    enclosing operator?  True / False / None (not evaluable).  Evaluates the closure's paths for child = BinaryOp{op: And|Or} and an
    enclosing operator And|Or, reading discriminant tests, == on operator constants and calls of constant-valued enum functions."""
    cb = f.bodies.get(cpath)
    if cb is None or cb.argc != 2:
        return None
    ev = [v['name'] for v in f.adts['jsonpath::path::Expr']['variants']]
    if 'BinaryOp' not in ev or 'And' not in ops or 'Or' not in ops:
        return None
    BIN = ev.index('BinaryOp')
    ps, _ = explore(cb)
    tables = {}

    def which(t):
        """'expr' / 'child_op' / 'parent_op' for a place term of the closure, else None"""
        t = deref_all(t)
        while t[0] == 'cast':
            t = deref_all(t[2])
        if t[0] == 'init' and t[1] == 2:
            return 'expr'
        if t[0] == 'field' and t[2] == 'op' and t[1][0] == 'downcast' and t[1][2] == 'BinaryOp' and which(t[1][1]) == 'expr':
            return 'child_op'
        if t[0] == 'field' and deref_all(t[1])[0] == 'init' and deref_all(t[1])[1] == 1:
            return 'parent_op'      # a captured variable of the closure (the enclosing operator)
        return None

    def val(t, env):
        t0 = deref_all(t)
        if t0[0] == 'const':
            return t0[1]
        w = which(t0)
        if w in ('child_op', 'parent_op'):
            return ('op', env[w])
        if agg_variant(t0) and t0[1][1].endswith('BinaryOperator'):
            return ('op', ops.index(t0[1][2]))
        if t0[0] == 'discr':
            w = which(t0[1])
            if w == 'expr':
                return BIN
            if w in ('child_op', 'parent_op'):
                return env[w]
            return None
        if t0[0] == 'un' and t0[1] == 'Not':
            v = val(t0[2], env)
            return None if v is None else (not v)
        if t0[0] == 'bin':
            a, c = val(t0[2], env), val(t0[3], env)
            if a is None or c is None:
                return None
            a = a[1] if isinstance(a, tuple) else a
            c = c[1] if isinstance(c, tuple) else c
            try:
                return {'Lt': a < c, 'Le': a <= c, 'Gt': a > c, 'Ge': a >= c, 'Eq': a == c, 'Ne': a != c, 'BitOr': a | c, 'BitAnd': a & c}.get(t0[1])
            except Exception:
                return None
        if t0[0] == 'call':
            nm = canon(t0[1])
            if nm.endswith(('PartialEq::eq', 'PartialEq::ne')) and len(t0[2]) == 2:
                a, c = val(t0[2][0], env), val(t0[2][1], env)
                if a is None or c is None:
                    return None
                return (a == c) if nm.endswith('eq') else (a != c)
            tb = f.bodies.get(t0[1])
            if tb is not None and tb.argc == 1 and len(t0[2]) == 1:
                a = val(t0[2][0], env)
                if isinstance(a, tuple) and a[0] == 'op':
                    tab = tables.setdefault(t0[1], enum_fn_table(tb))
                    if tab:
                        return tab.get(a[1], tab.get('otherwise'))
            return None
        return None

    verdict = True
    for child in ('And', 'Or'):
        for parent in ('And', 'Or'):
            env = {'child_op': ops.index(child), 'parent_op': ops.index(parent)}
            res = None
            decided = False
            for q in ps:
                if q.end[0] != 'return':
                    continue
                feas = True
                for c in q.conds:
                    v = val(c[0], env)
                    if v is None:
                        feas = None
                        break
                    v = v[1] if isinstance(v, tuple) else v
                    holds = (v == c[2]) if c[1] == 'eq' else (v not in c[2] if isinstance(c[2], tuple) else v != c[2])
                    if not holds:
                        feas = False
                        break
                if feas is None:
                    return None
                if feas:
                    r = val(q.ret, env)
                    if r is None or isinstance(r, tuple):
                        return None
                    res = bool(r)
                    decided = True
                    break
            if not decided:
                return None
            if not res:
                verdict = False
    return verdict


def r09_11(ctx, run, rule='R09.11'):
    """Display for Expr: an operand of a binary operator that is itself an && or || expression is printed in
    parentheses (the grammar parses a flat && / || chain left-deep, so an unparenthesised nested group re-associates)."""
    f = ctx.facts
    impl = "<jsonpath::path::Expr<'a> as std::fmt::Display>::fmt"
    b = f.bodies.get(impl)
    if b is None:
        run.undecided(rule, impl, 'parens', 'Display impl not found (anchor lost)')
        return
    ops = [v['name'] for v in f.adts['jsonpath::path::BinaryOperator']['variants']]
    loops = natural_loops(b)
    ex = Explorer(b, max_paths=6000)
    n = 0
    bad = []
    unread = []
    for s0 in [0] + sorted(loops):
        for q in ex.explore(start=s0, stop=set(loops)):
            if q.end[0] in ('unreachable',):
                continue
            # writes of an operand: Arguments::new(template, [new_display(&operand)])
            for e in q.calls():
                if not canon(e[1]).endswith('Arguments::new') or len(e[2]) < 2:
                    continue
                tmpl = deref_all(e[2][0])
                if tmpl[0] != 'const':
                    continue
                pieces = decode_template(tmpl[1])
                side = None
                for s in subterms(e[2][1]):
                    if s[0] == 'field' and s[1][0] == 'downcast' and s[1][2] == 'BinaryOp' and s[2] in ('left', 'right'):
                        side = s[2]
                if side is None:
                    continue
                paren = pieces and pieces[0] == '(' and pieces[-1] == ')'
                conds = q.conds[:e[6]]
                # is the operand known to be a BinaryOp, and what is known about its operator?
                is_bin = None
                op_tests = {}
                same_op = None
                parent_cmp = set()
                for c in conds:
                    t = c[0]
                    if t[0] == 'discr' and any(s[0] == 'field' and s[2] == side and s[1][0] == 'downcast' and s[1][2] == 'BinaryOp' for s in subterms(t)):
                        if c[1] == 'eq':
                            is_bin = (c[2] == 2)
                        elif c[1] == 'ne' and 2 in c[2]:
                            is_bin = False
                    # a pattern on the operand's operator (`Expr::BinaryOp { op: And | Or, .. }`): a switch on the discriminant of its `op` field
                    if t[0] == 'discr':
                        x_ = deref_all(t[1])
                        if x_[0] == 'field' and x_[2] == 'op' and any(s[0] == 'field' and s[2] == side and s[1][0] == 'downcast' and s[1][2] == 'BinaryOp' for s in subterms(x_)):
                            if c[1] == 'eq' and isinstance(c[2], int) and c[2] < len(ops):
                                for o_ in ops:
                                    op_tests[o_] = (o_ == ops[c[2]])
                            elif c[1] == 'ne' and isinstance(c[2], tuple):
                                for v_ in c[2]:
                                    if isinstance(v_, int) and v_ < len(ops):
                                        op_tests[ops[v_]] = False
                    if t[0] == 'call' and canon(t[1]).endswith('PartialEq::eq') and len(t[2]) == 2:
                        k = deref_all(t[2][1])
                        inner_side = any(s[0] == 'field' and s[2] == side for s in subterms(t[2][0]))
                        if inner_side and agg_variant(k) and k[1][1].endswith('BinaryOperator'):
                            op_tests[k[1][2]] = c[2]
                    # the child's operator compared with the parent's own operator (`left_op != op`)
                    if t[0] == 'call' and (canon(t[1]).endswith('PartialEq::ne') or canon(t[1]).endswith('PartialEq::eq')) and len(t[2]) == 2 and isinstance(c[2], bool):
                        def _opfield(a_):
                            x_ = deref_all(a_)
                            if x_[0] != 'field' or x_[2] != 'op':
                                return None
                            sides = {s_[2] for s_ in subterms(x_) if s_[0] == 'field' and s_[1][0] == 'downcast' and s_[1][2] == 'BinaryOp' and s_[2] in ('left', 'right')}
                            return 'child' if sides == {side} else ('parent' if not sides else None)
                        if {_opfield(t[2][0]), _opfield(t[2][1])} == {'child', 'parent'}:
                            same_op = c[2] if canon(t[1]).endswith('PartialEq::eq') else (not c[2])
                            parent_cmp.add(id(c))
                n += 1
                if not paren and same_op is True and is_bin is not False and not (op_tests.get('And') is False and op_tests.get('Or') is False):
                    if side == 'right':
                        bad.append('the right operand is printed without parentheses when its operator equals the parent\'s operator')
                    # a same-operator group on the left is what the left-deep grammar builds itself: printing it bare keeps the structure
                    continue
                may_be_connective = is_bin is not False and not (op_tests.get('And') is False and op_tests.get('Or') is False)
                known_connective = is_bin is True and (op_tests.get('And') is True or op_tests.get('Or') is True)
                if not paren and may_be_connective:
                    which = [k for k in ('And', 'Or') if op_tests.get(k) is not False]
                    # a decision about this operand taken by something this rule does not read (a closure, a helper, matches! on a copy)
                    delegated = any(c[0][0] == 'call' and not canon(c[0][1]).endswith('PartialEq::eq') and
                                    any(s_[0] == 'field' and s_[2] == side for a_ in c[0][2] for s_ in subterms(a_)) for c in conds)
                    if delegated:
                        # evaluate the deciding closure for every && / || child under every && / || parent
                        dec = None
                        for c in conds:
                            if c[0][0] == 'call' and '{closure' in c[0][1] and c[2] is False and any(s_[0] == 'field' and s_[2] == side for a_ in c[0][2] for s_ in subterms(a_)):
                                dec = closure_parenthesises(f, c[0][1], ops)
                        if dec is True:
                            pass          # the closure answers true for every connective child: this bare write is not reached for one
                        elif dec is False:
                            bad.append(f'the {side} operand is printed without parentheses when the deciding closure answers false, and it answers false for some nested &&/|| operand '
                                       '(for example the same operator nested on the right)')
                        else:
                            unread.append(side)
                    else:
                        bad.append(f'the {side} operand is printed without parentheses on a path where it may be a nested {"/".join(which)} expression')
                if paren and not known_connective and is_bin is not True:
                    pass
    loc = f'{b.file}:{b.line}'
    if bad:
        run.violation(rule, impl, 'parens', '; '.join(sorted(set(bad))) + ': `a && (b && c)` prints as `a && b && c`, which parses back as `(a && b) && c`', loc)
    elif unread:
        run.undecided(rule, impl, 'parens', f'the {"/".join(sorted(set(unread)))} operand is printed bare after a test made by a closure or helper this rule does not read: whether it excludes && / || operands '
                      'is not decided', loc)
    else:
        run.proved(rule, impl, 'parens', f'{n} operand writes: an operand is printed bare only when it is known not to be an && / || expression', loc)
    run.floor(rule, 'operand writes in Display for Expr', n, 4)



# ------------------------------------------------------------------ R16.7 / R16.8 key-path specific grammar clauses

def r16_7(ctx, run, rule='R16.7'):
    """The plain-name scanner stops at the characters that delimit key-path elements and at the signs: a plain name can
    neither swallow a delimiter nor begin with `+` / `-` (a malformed signed integer must be an error, not a name)."""
    f = ctx.facts
    b = f.bodies.get('jsonpath::parser::raw_string')
    if b is None:
        run.undecided(rule, 'jsonpath::parser::raw_string', 'stop-set', 'function not found (anchor lost)')
        return
    loops = natural_loops(b)
    ex = Explorer(b, max_paths=3000)
    stops = set()
    advanced = set()
    for h in sorted(loops):
        for q in ex.explore(start=h, stop=set(loops)):
            ks = [c[2] for c in q.conds if c[1] == 'eq' and isinstance(c[2], int) and not isinstance(c[2], bool) and c[0][0] in ('index', 'deref') or
                  (c[1] == 'eq' and isinstance(c[2], int) and not isinstance(c[2], bool) and any(s_[0] == 'index' for s_ in subterms(c[0])))]
            if not ks:
                continue
            k = ks[-1]
            if q.end[0] in ('stop', 'backedge') and q.end[1] == h:
                advanced.add(k)
            elif q.end[0] in ('stop',) or q.end[0] == 'return':
                # left the loop on this byte without consuming it (break), or returned
                if not (q.end[0] == 'return' and agg_variant(q.ret) and q.ret[1][2] == 'Err'):
                    stops.add(k)
    need = {ord(c) for c in ' ,{}"+-'}
    loc = f'{b.file}:{b.line}'
    if not stops:
        run.undecided(rule, b.path, 'stop-set', 'the bytes that end a plain name are not tested one by one in the scanner loop (a table or range is used): the stop set is not read by this rule', loc)
        return
    missing = sorted(chr(x) for x in need - stops)
    if missing:
        run.violation(rule, b.path, 'stop-set', f'the plain-name scanner does not stop at {missing}: such a character becomes part of a name, so e.g. a malformed signed integer or a '
                      f'delimiter is accepted as (part of) a plain name instead of being an error / a separator', loc)
    else:
        run.proved(rule, b.path, 'stop-set', f'{len(stops)} stop bytes, including the key-path delimiters and both signs', loc)


def r16_8(ctx, run, tabs, rule='R16.8'):
    """The index alternative of a key-path element accepts an integer whatever follows it (the list grammar then skips
    optional blanks before `,` / `}`): a look-ahead that demands `,` or `}` immediately would turn `{1 ,a}` into a name."""
    for fn, members, e in tabs:
        if fn != 'keypath::key_path':
            continue
        for m in members:
            l, g = leading(m)
            if l and l[0] == 'num':
                t = e[5]
                loc = f"{t.get('file')}:{t.get('line')}"
                if isinstance(g, tuple) and g[0] == 'peek' and not ({' ', '\t', '\n'} & g[1]):
                    run.violation(rule, fn, 'index-lookahead', f'the index alternative requires one of {sorted(g[1])} directly after the integer: with a blank after it (any spacing is allowed '
                                  'inside the braces) the integer is no longer an index and is read as a plain name or rejected', loc)
                else:
                    run.proved(rule, fn, 'index-lookahead', 'the index alternative does not constrain the character after the integer', loc)


# ------------------------------------------------------------------ R09.14 a context flag is forwarded unchanged

def _param_names(b):
    out = {}
    for d in b.raw.get('debug', []):
        pl = d.get('place') or {}
        if not pl.get('proj') and isinstance(pl.get('local'), int) and 1 <= pl['local'] <= b.argc:
            out[pl['local']] = d['name']
    return out


def _closure_agg_ops(f, cpath):
    """the captured operands of closure `cpath` where its parent function builds it (symbolic terms of the parent), or None"""
    parent = cpath.rsplit('::{closure', 1)[0]
    pb = f.bodies.get(parent)
    if pb is None:
        return None, None
    ps, _ = explore(pb)
    for q in ps:
        terms = [a for e in q.calls() for a in e[2]] + [v for v in q.store.values() if isinstance(v, tuple)] + ([q.ret] if q.ret is not None else [])
        for a in terms:
            for s_ in subterms(a):
                if s_[0] == 'agg' and isinstance(s_[1], tuple) and s_[1][0] == 'closure' and s_[1][1] == cpath:
                    return parent, s_[2]
    return parent, None


def resolve_param(f, body_path, term, depth=0):
    """('param', function, n) when the term is parameter n of the (outermost) function, looked up through closure captures;
    ('const', v) for a constant; None otherwise."""
    t = deref_all(term)
    while isinstance(t, tuple) and t and t[0] == 'cast' and t[1] == 'IntToInt':
        t = deref_all(t[2])
    if t[0] == 'const':
        return ('const', t[1])
    is_closure = '::{closure' in body_path
    if t[0] == 'init':
        if is_closure and t[1] == 1:
            return None
        return ('param', body_path, t[1])
    if t[0] == 'field' and is_closure and depth < 4:
        base = deref_all(t[1])
        ix = t[3] if len(t) > 3 else t[2]
        if base[0] == 'init' and base[1] == 1 and isinstance(ix, int):
            parent, ops = _closure_agg_ops(f, body_path)
            if ops is not None and ix < len(ops):
                return resolve_param(f, parent, ops[ix], depth + 1)
    return None


def r_flag_forward(ctx, run, rule, prefixes, floor):
    """A function that receives a boolean context flag (a `bool` parameter) and calls another function of the grammar that takes a
    parameter of the same name must hand its own flag on: a constant there switches the context for everything parsed below
    (`@` admitted inside a stand-alone predicate, or refused inside a filter)."""
    f = ctx.facts
    fam = {}
    for p, b in f.bodies.items():
        if b.kind == 'Promoted' or '::{closure' in p or not p.startswith(prefixes):
            continue
        names = _param_names(b)
        bools = [k for k in range(1, b.argc + 1) if b.local_ty(k).get('s') == 'bool' and names.get(k)]
        if len(bools) == 1:
            fam[p] = (bools[0], names[bools[0]])
    n_fwd = 0
    for p, (k, nm) in sorted(fam.items()):
        bodies = [x for x in f.bodies if (x == p or x.startswith(p + '::{closure')) and f.bodies[x].kind != 'Promoted']
        b0 = f.bodies[p]
        loc = f'{b0.file}:{b0.line}'
        fwd = []
        bad = []
        unk = []
        for x in sorted(bodies):
            bx = f.bodies[x]
            ps, _ = explore(bx)
            seen = set()
            for q in ps:
                for e in q.calls():
                    tgt = [g_ for g_ in fam if called(e[1], g_)]
                    if len(tgt) != 1 or fam[tgt[0]][1] != nm:
                        continue
                    gk = fam[tgt[0]][0]
                    if gk - 1 >= len(e[2]):
                        continue
                    a = e[2][gk - 1]
                    key = (x, tgt[0], show(a))
                    if key in seen:
                        continue
                    seen.add(key)
                    r = resolve_param(f, x, a)
                    short = tgt[0].split('::')[-1]
                    if r is not None and r[0] == 'param' and r[1] == p and r[2] == k:
                        fwd.append(short)
                    elif r is not None and r[0] == 'const':
                        bad.append((short, r[1]))
                    else:
                        unk.append((short, show(a)[:40]))
        if not (fwd or bad or unk):
            continue
        n_fwd += len(fwd)
        if bad:
            run.violation(rule, p, f'flag[{nm}]', f'{p.split("::")[-1]} receives the context flag `{nm}` but calls {bad[0][0]}(.., {str(bad[0][1]).lower()}) with a constant: everything parsed below '
                          f'this call is read in a fixed context whatever the caller asked for', loc)
        elif unk:
            run.undecided(rule, p, f'flag[{nm}]', f'the value passed for `{nm}` to {unk[0][0]} ({unk[0][1]}) is neither this function\'s own flag nor a constant: not decided', loc)
        else:
            run.proved(rule, p, f'flag[{nm}]', f'`{nm}` is handed on unchanged in {len(fwd)} call(s): {sorted(set(fwd))}', loc)
    run.floor(rule, 'calls that forward a context flag', n_fwd, floor)
