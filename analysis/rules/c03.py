"""C03 — rendering JSONB as text yields valid JSON that denotes the same document (structural clauses)."""
import report
from rules import textparser
from rules import rendering, walkers

EXPLANATION = (
    "Static analysis of to_string/to_pretty_string's walker (container_to_string, scalar_to_string, escape_scalar_string) and Display "
    "for Number. R03.1: over all 256 byte values (interval sets from the switch/range conditions of each path of the escape loop) every "
    "byte RFC 8259 §7 requires to be escaped (0x00-0x1F, 0x22, 0x5C) takes an escape path. R03.2: each short escape string denotes its "
    "byte, the generic arm writes `\\u` + the byte in hex, every escape path first flushes the pending run of ordinary bytes and restarts "
    "the run after the escaped byte, the string is closed with a quote. R03.3: path pairs of container_to_string that differ only in "
    "pretty_opts.enabled push the same constants once JSON whitespace is removed and make the same nested calls; the compact side pushes no "
    "whitespace. R03.4: integers are formatted by itoa, floats by ryu::format::<f64> with no numeric conversion. R03.5: walker discipline "
    "of the renderer (cursor initial forms and paired advance). R03.6: indentation is spaces, two per level. NOT decided: that the text "
    "denotes the same document as a whole; the text->value->bytes round trip.")


def check(ctx, run):
    run.rules_run = ['R03.1', 'R03.2', 'R03.3', 'R03.4', 'R03.5', 'R03.6', 'R03.7']
    rendering.r03_1_2(ctx, run)
    rendering.r03_3(ctx, run)
    rendering.r03_4(ctx, run)
    rendering.r03_8(ctx, run)
    only = lambda p: p in ('functions::container_to_string', 'functions::scalar_to_string')
    walkers.w_init(ctx, run, 'R03.5/R05.1', only=only, floor=2)
    walkers.w_advance(ctx, run, 'R03.5/R05.2', only=only, floor=1)
    textparser.r02_12(ctx, run, rule='R03.7/R02.12')
    from rules import layout as _layout
    _layout.r01_2(ctx, run, rule='R03.7/R01.2')
    return report.finish(run, level='other', explanation=EXPLANATION,
                         assumptions=["A1: valid document, finite numbers (the property's precondition)", "ryu / itoa print shortest round-trip digits (trusted)"])
