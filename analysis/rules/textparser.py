"""C02: JSON text parser rules (R02.1-R02.11)."""
import re
from sym import Explorer, explore, show, subterms, lin
from pat import called, canon, is_call, deref_all, agg_variant, const_of, strip_casts, unwrap_ok
from mir import natural_loops, callee_name
from pathfacts import PathFacts, IntervalSet

P = "parser::Parser::<'a>::"


def byte_atom_of(p, name_hint=None):
    for c in p.conds:
        for s in subterms(c[0]):
            if s[0] == 'deref' and (is_call(s[1], 'Try::branch') or s[1][0] in ('field', 'downcast')):
                return s
    return None


def r02_1(ctx, run, rule='R02.1'):
    f = ctx.facts
    b = f.bodies.get(P + 'parse_json_value')
    if b is None:
        run.undecided(rule, P + 'parse_json_value', 'dispatch', 'function not found (anchor lost)')
        return
    ps, _ = explore(b)
    table = {}
    for p in ps:
        if p.end[0] != 'return':
            continue
        callee = [canon(e[1]).split('::')[-1] for e in p.calls() if canon(e[1]).split('::')[-1].startswith('parse_json_')]
        if not callee:
            # a value parser under another name: the crate-local call whose result this path returns
            r_ = deref_all(p.ret) if p.ret is not None else None
            if r_ is not None and r_[0] == 'call':
                for e in p.calls():
                    if e[4] == r_ and local_callee(e):
                        callee = ['?' + canon(e[1]).split('::')[-1]]
        # the dispatched byte: the switch on *c
        atom = None
        STARTS = set(b'ntf-0123456789"[{')
        for c in p.conds:
            t = c[0]
            if t[0] == 'deref' and c[1] in ('eq', 'ne'):
                atom = t
            if t[0] == 'bin' and t[1] in ('Le', 'Ge', 'Lt', 'Gt'):
                for s in (t[2], t[3]):
                    if s[0] == 'deref':
                        atom = s
        if atom is None:
            # the byte held by value (`next()` returning u8, a copied local): the term switched on the JSON start bytes
            for c in p.conds:
                t = c[0]
                if t[0] in ('discr',) or (t[0] == 'bin'):
                    continue
                if (c[1] == 'eq' and c[2] in STARTS and not isinstance(c[2], bool)) or (c[1] == 'ne' and isinstance(c[2], tuple) and len(STARTS & set(x for x in c[2] if isinstance(x, int))) >= 3):
                    atom = t
                    break
        if atom is None:
            continue
        pf = PathFacts(p.conds)
        rng = pf.range_of(atom).intersect(IntervalSet([(0, 255)]))
        if rng.empty():
            continue
        key = callee[0] if callee else ('Err' if (agg_variant(p.ret) and p.ret[1][2] == 'Err') else 'other')
        table.setdefault(key, IntervalSet([]))
        table[key] = table[key].union(rng)
    exp = {'parse_json_null': IntervalSet([(ord('n'),) * 2]), 'parse_json_true': IntervalSet([(ord('t'),) * 2]), 'parse_json_false': IntervalSet([(ord('f'),) * 2]),
           'parse_json_number': IntervalSet([(ord('0'), ord('9')), (ord('-'),) * 2]), 'parse_json_string': IntervalSet([(ord('"'),) * 2]),
           'parse_json_array': IntervalSet([(ord('['),) * 2]), 'parse_json_object': IntervalSet([(ord('{'),) * 2])}
    loc = f'{b.file}:{b.line}'
    allv = IntervalSet([])
    if not table:
        run.undecided(rule, b.path, 'first-byte', 'the byte the value parser dispatches on was not recognised (held in a form this rule does not read): not decided', loc)
        return
    renamed = {k: v for k, v in table.items() if k.startswith('?')}
    for k, v in exp.items():
        got = table.get(k)
        allv = allv.union(v)
        ok = got is not None and got == v
        if got is None:
            # entered through a parser this rule does not know by name?  the same byte set must then belong to exactly one renamed parser
            cands = [rk for rk, rv in renamed.items() if rv == v]
            if cands:
                run.undecided(rule, b.path, f'first-byte[{k}]', f'no call of {k} was found; the bytes {v} enter {cands[0][1:]}() instead (renamed?): which parser handles them is not decided', loc)
            elif renamed:
                run.undecided(rule, b.path, f'first-byte[{k}]', f'no call of {k} was found and no other parser is entered for exactly {v}: not decided', loc)
            else:
                run.violation(rule, b.path, f'first-byte[{k}]', f'{k} is entered for first bytes {got}, RFC 8259 value starts are {v}', loc)
            continue
        (run.proved if ok else run.violation)(rule, b.path, f'first-byte[{k}]', f'{v}' if ok else f'{k} is entered for first bytes {got}, RFC 8259 value starts are {v}', loc)
    err = table.get('Err', IntervalSet([]))
    ok = err == IntervalSet([(0, 255)]).intersect(allv.complement())
    (run.proved if ok else run.violation)(rule, b.path, 'first-byte[error]', 'every other byte is an error' if ok else f'bytes rejected: {err}', loc)


def r02_2(ctx, run, rule='R02.2'):
    f = ctx.facts
    b = f.bodies.get(P + 'skip_unused')
    if b is None:
        run.undecided(rule, P + 'skip_unused', 'whitespace', 'function not found (anchor lost)')
        return
    loops = natural_loops(b)
    ex = Explorer(b, max_paths=3000)
    classes = set()
    helpers = set()
    for h in loops:
        for p in ex.explore(start=h, stop=set(loops)):
            if p.end[0] not in ('backedge', 'stop') or p.end[1] != h:
                continue
            steps = sum(1 for e in p.calls() if called(e[1], 'Parser::step')) + sum(const_of(e[2][1]) or 0 for e in p.calls() if called(e[1], 'Parser::step_by') and len(e[2]) == 2)
            ws = any(is_call(c[0], 'u8::is_ascii_whitespace', 'is_ascii_whitespace') and c[2] is True for c in p.conds)
            consts = sorted(c[2] for c in p.conds if c[1] == 'eq' and isinstance(c[2], int) and not isinstance(c[2], bool) and c[0][0] in ('deref', 'index'))
            eqs = []
            for c in p.conds:
                t = c[0]
                if t[0] == 'bin' and t[1] == 'Eq' and c[2] is True:
                    for x in (t[2], t[3]):
                        if x[0] == 'const' and isinstance(x[1], int):
                            eqs.append(x[1])
                # `rest.starts_with(b"x0C")`: the bytes of the constant, in place of one comparison per byte
                if is_call(t, 'slice::starts_with') and c[2] is True and len(t[2]) == 2:
                    k = deref_all(t[2][1])
                    if k[0] == 'const' and isinstance(k[1], tuple) and all(isinstance(x, int) for x in k[1]):
                        eqs.extend(k[1])
                # `buf.get(i + 1..i + 4) == Some(b"x0C")`: an equality of the look-ahead slice with a byte-string constant
                elif t[0] == 'call' and c[2] is True and canon(t[1]).split('::')[-1] == 'eq' and len(t[2]) == 2:
                    ks = [x for x in subterms(t) if x[0] == 'const' and isinstance(x[1], tuple) and x[1] and all(isinstance(y, int) for y in x[1])]
                    if len(ks) == 1:
                        eqs.extend(ks[0][1])
                    else:
                        helpers.add('an equality this rule does not read')
            classes.add((steps, ws, tuple(consts), tuple(sorted(eqs))))
            for e in p.calls():
                if local_callee(e) and canon(e[1]).split('::')[-1] not in ('step', 'step_by', 'error', 'skip_unused'):
                    helpers.add(canon(e[1]).split('::')[-1])
    want = {(1, True, (), ()), (2, False, (92, 110), ()), (2, False, (92, 114), ()), (2, False, (92, 116), ()), (4, False, (92,), (48, 67, 120))}
    norm = set()
    for (steps, ws, consts, eqs) in classes:
        norm.add((steps, ws, consts, eqs))
    loc = f'{b.file}:{b.line}'
    # tolerate the representation of matches!() as either switch values or Eq comparisons
    simple = {(s, w, tuple(sorted(set(c) | set(e)))) for (s, w, c, e) in norm}
    wants = {(s, w, tuple(sorted(set(c) | set(e)))) for (s, w, c, e) in want}
    extra = simple - wants
    missing = wants - simple
    if not extra and not missing:
        run.proved(rule, b.path, 'whitespace-set', 'skips is_ascii_whitespace bytes (space, TAB, LF, FF, CR) and the escaped forms \\n \\r \\t \\x0C, nothing else', loc)
    elif helpers:
        run.undecided(rule, b.path, 'whitespace-set', f'the skipper looks at the input through helper(s) this rule does not read ({", ".join(sorted(helpers)[:3])}): which bytes it skips is not decided', loc)
    else:
        run.violation(rule, b.path, 'whitespace-set', f'the inter-token skipper also skips {sorted(extra)} / no longer skips {sorted(missing)} (steps, is_ascii_whitespace, byte values)', loc)


ESC = {92: 92, 34: 34, 47: 47, 98: 8, 102: 12, 110: 10, 114: 13, 116: 9}


def r02_3(ctx, run, rule='R02.3'):
    f = ctx.facts
    b = f.bodies.get('util::parse_escaped_string')
    if b is None:
        run.undecided(rule, 'util::parse_escaped_string', 'table', 'function not found (anchor lost)')
        return
    ps, _ = explore(b, max_paths=4000)
    table = {}
    other_err = False
    for p in ps:
        if p.end[0] != 'return':
            continue
        first = [c for c in p.conds if c[0][0] == 'index' and c[1] in ('eq', 'ne') and not isinstance(c[2], bool)]
        if not first:
            continue
        c = first[0]
        if c[1] == 'ne':
            other_err = agg_variant(p.ret) and p.ret[1][2] == 'Err'
            continue
        if c[2] == ord('u'):
            continue
        pushes = [const_of(e[2][1]) for e in p.calls() if called(e[1], 'String::push') and len(e[2]) == 2]
        table[c[2]] = pushes
    loc = f'{b.file}:{b.line}'
    for k, v in ESC.items():
        got = table.get(k)
        ok = got == [v]
        (run.proved if ok else run.violation)(rule, b.path, f'escape[\\{chr(k)}]', f'-> U+{v:04X}' if ok else f'the escape \\{chr(k)} decodes to {got}, RFC 8259 §7 says U+{v:04X}', loc)
    extra = sorted(set(table) - set(ESC))
    if extra:
        run.violation(rule, b.path, 'escape[extra]', f'escapes {[chr(x) for x in extra]} are accepted beyond the RFC 8259 table', loc)
    (run.proved if other_err else run.violation)(rule, b.path, 'escape[other]', 'any other escaped character is an error' if other_err else 'an unknown escape character is not rejected', loc)


def local_callee(e):
    """path of the crate-local function a call event resolves to, else None"""
    c = e[5].get('callee', {}) if isinstance(e[5], dict) else {}
    return c.get('resolved') if c.get('resolved_local') else None


def r02_5(ctx, run, rule='R02.5'):
    f = ctx.facts
    b = f.bodies.get(P + 'parse')
    if b is None:
        run.undecided(rule, P + 'parse', 'trailing', 'function not found (anchor lost)')
        return
    ps, _ = explore(b)
    n = 0
    bad = 0
    unread = 0
    for p in ps:
        if p.end[0] != 'return' or not (agg_variant(p.ret) and p.ret[1][2] == 'Ok'):
            continue
        n += 1
        evs = [canon(e[1]).split('::')[-1] for e in p.calls()]
        ok = 'skip_unused' in evs and 'parse_json_value' in evs and evs.index('parse_json_value') < evs.index('skip_unused')
        # on this path the cursor is at (or past) the end of the input: some comparison between the cursor and len(buf)
        # entails len <= cursor, however it is written (idx < len false, len > idx false, idx >= len true, ...)
        from panics import norm, norm_conds
        from pathfacts import PathFacts
        pf = PathFacts(norm_conds(p.conds))
        at_end = False
        for c in p.conds:
            t = c[0]
            if t[0] == 'bin' and t[1] in ('Lt', 'Gt', 'Le', 'Ge', 'Eq', 'Ne'):
                for L, I in ((t[2], t[3]), (t[3], t[2])):
                    if any(s_[0] == 'len' or is_call(s_, 'slice::len') for s_ in subterms(L)) and not any(s_[0] == 'len' or is_call(s_, 'slice::len') for s_ in subterms(I)):
                        if pf.prove_le(norm(L), norm(I), False):
                            at_end = True
        ok = ok and at_end
        if not ok:
            # a crate-local helper this rule has no name for (a renamed whitespace skipper, a new end-of-input check) is called after the value
            # was parsed: what it consumes or checks is not read here
            after = 'parse_json_value' not in evs      # the value parser itself may have been renamed: then every local helper on the path is unread
            for e in p.calls():
                nm = canon(e[1]).split('::')[-1]
                if nm == 'parse_json_value':
                    after = True
                elif after and local_callee(e) and nm not in ('skip_unused', 'error', 'parse_json_value'):
                    unread += 1
                    break
            else:
                bad += 1
    if n and not bad and unread:
        run.undecided(rule, b.path, 'trailing-check', f'{unread} successful path(s) end after a call to a helper this rule does not know by name (renamed whitespace skipper / end check?): '
                      'whether trailing characters are rejected is not decided', f'{b.file}:{b.line}')
        return
    (run.proved if n and not bad else run.violation)(rule, b.path, 'trailing-check', 'Ok only after skip_unused and idx >= len' if n and not bad else
                                                      'a successful return is possible with unconsumed non-whitespace input: trailing characters are accepted', f'{b.file}:{b.line}')


TOK = {'check_next': 'c', 'check_next_either': 'e', 'check_digit': 'd', 'step': 's', 'step_digits': 'D'}


def number_signatures(ctx):
    f = ctx.facts
    b = f.bodies.get(P + 'parse_json_number')
    if b is None:
        return None, None
    ps, capped = explore(b, max_paths=6000)
    sigs = []
    for p in ps:
        if p.end[0] != 'return' or not (agg_variant(p.ret) and p.ret[1][2] == 'Ok'):
            continue
        syms = []
        okdigits = True
        other = []
        for e in p.calls():
            n = canon(e[1]).split('::')[-1]
            if n in TOK and called(e[1], 'Parser::' + n):
                args = ','.join(str(a[1]) for a in e[2][1:] if a[0] == 'const')
                res = None
                for c in p.conds:
                    if c[0] == e[4] and isinstance(c[2], bool):
                        res = c[2]
                s = TOK[n] + (f'({args})' if args else '') + ('' if res is None else ('+' if res else '-'))
                syms.append(s)
                if n == 'step_digits':
                    # the count must be tested non-zero on this path
                    nz = False
                    for c in p.conds:
                        t = c[0]
                        if t[0] == 'bin' and t[1] == 'Eq' and c[2] is False and const_of(t[3]) == 0 and any(s2 == e[4] for s2 in subterms(t[2])):
                            nz = True
                    if not nz:
                        okdigits = False
            elif n in ('next', 'must_is', 'step_by') and called(e[1], 'Parser::' + n):
                other.append(n)
            elif local_callee(e) and n not in ('error',):
                other.append('helper:' + n)      # a crate-local helper outside the vocabulary this rule reads (renamed / new)
            elif called(e[1], 'Index::index') and not any(called(x[1], 'str::from_utf8_unchecked') for x in p.calls() if x[6] >= e[6] and x is not e and x[3] == e[3]):
                pass
        # any direct indexing of the buffer inside the lexer is outside the helper vocabulary
        raw = [e for e in p.events if e[0] == 'assert' and e[1] == 'BoundsCheck']
        if raw:
            other.append('buf[..]')
        v = p.ret[2][0]
        kind = None
        if agg_variant(v) and v[2] and agg_variant(v[2][0]):
            kind = v[2][0][1][2]
        parsers = [e[5]['callee'].get('full', '') for e in p.calls() if canon(e[1]).endswith('::parse')]
        sigs.append((' '.join(syms), kind, tuple(parsers), okdigits, tuple(other), p))
    return b, sigs


NUM_RE = re.compile(r'^(c\(45\)\+ s|c\(45\)-) (c\(48\)\+ s d-|c\(48\)- D) (c\(46\)\+ s D|c\(46\)-) (e\(69,101\)\+ s (e\(43,45\)\+ s|e\(43,45\)-) D|e\(69,101\)-)$')


def r02_6_11(ctx, run, rule_cls='R02.6', rule_lex='R02.11'):
    b, sigs = number_signatures(ctx)
    if b is None:
        run.undecided(rule_lex, P + 'parse_json_number', 'lexer', 'function not found (anchor lost)')
        return
    loc = f'{b.file}:{b.line}'
    shapes = set()
    bad = []
    cls_bad = []
    cls_unread = []
    for (s, kind, parsers, okdigits, other, p) in sigs:
        m = NUM_RE.match(s)
        if not m or other:
            bad.append(s + (' + ' + ','.join(other) if other else ''))
            continue
        if not okdigits:
            bad.append(s + ' (a digit run is not required to be non-empty)')
            continue
        shapes.add(s)
        neg = m.group(1).startswith('c(45)+')
        frac = m.group(3).startswith('c(46)+')
        exp = m.group(4).startswith('e(69,101)+')
        ints = [x for x in parsers if 'str::parse::<' in x or 'parse::<u64>' in x or 'parse::<i64>' in x]
        if kind == 'UInt64':
            ok = not neg and not frac and not exp and any('<u64>' in x for x in parsers)
            shape_ok = not neg and not frac and not exp
        elif kind == 'Int64':
            ok = neg and not frac and not exp and any('<i64>' in x for x in parsers)
            shape_ok = neg and not frac and not exp
        elif kind == 'Float64':
            ok = any('fast_float2::parse' in x for x in parsers)
            shape_ok = True
        else:
            ok = shape_ok = False
        if not ok and shape_ok and not parsers and kind == 'Float64':
            # a double computed by float arithmetic on an integer mantissa (mantissa as f64 / 10^k) is the correctly rounded value only while
            # the mantissa converts exactly, i.e. has at most 15 decimal digits (10^15 < 2^53 < 10^16); beyond that the cast rounds and the
            # division rounds again.  Read the digit bound the path puts on the token; 16 or more digits on this path is a violation.
            fa = [x_ for x_ in subterms(p.ret) if x_[0] == 'bin' and x_[1] in ('Div', 'Mul') and any(y_[0] == 'cast' and 'Float' in str(y_[1]) for y_ in subterms(x_))]
            if fa:
                best = None
                for c in p.conds:
                    t = c[0]
                    if t[0] == 'bin' and t[1] in ('Le', 'Lt') and c[2] is True and const_of(t[3]) is not None and any(is_call(x_, 'str::len', 'slice::len', 'len') for x_ in subterms(t[2])):
                        K = const_of(t[3]) - (1 if t[1] == 'Lt' else 0)
                        subs = [x_ for x_ in subterms(t[2]) if x_[0] == 'bin' and x_[1] == 'Sub']
                        exact = any(y_[0] == 'cast' and (('Bool' in str(y_[1])) or (len(y_) > 3 and y_[3] == 'usize' and (deref_all(y_[2])[0] in ('init', 'hav', 'loc') or
                                    (deref_all(y_[2])[0] == 'const' and isinstance(deref_all(y_[2])[1], bool))))) for x_ in subs for y_ in subterms(x_[3]))
                        # digits on this path: the tested quantity itself when it already subtracts the point and the sign, else allow for both
                        d_ = K if (len(subs) >= 2 and exact) else (K - 1 if len(subs) == 1 else K - 2)
                        best = d_ if best is None else min(best, d_)
                if best is None:
                    cls_unread.append(f'{kind} by float arithmetic on an integer mantissa, with no bound on the number of digits read on the path')
                elif best >= 16:
                    cls_bad.append(f'Float64 is computed as (integer mantissa as f64) {fa[0][1].lower()} a power of ten for tokens of up to {best} digits: beyond 15 digits the mantissa no longer converts '
                                   f'exactly (10^15 < 2^53 < 10^16) and the result is rounded twice, so it is not always the correctly rounded double of the literal')
                else:
                    cls_unread.append(f'{kind} by float arithmetic on a mantissa of at most {best} digits')
                continue
        if not ok and shape_ok and not parsers:
            # the representation fits the shape of the token, but the value is computed by code this rule does not read (a hand-written
            # digit accumulation, a helper) instead of str::parse / fast_float2: its value is not decided here
            cls_unread.append(f'{kind} for sign={neg} fraction={frac} exponent={exp}')
            continue
        if not ok:
            cls_bad.append(f'{kind} produced for sign={neg} fraction={frac} exponent={exp} via {[x.split("::")[-1] for x in parsers]}')
    # accepting paths whose result is not built as Ok(Value::Number(Number::X(..))) in the function (combinators: `.map(..)`, `.map_err(..)`,
    # `ok_or_else`): neither their shape nor their representation is read
    unread_ret = [s_ for (s_, kind_, _, _, _, _) in sigs if kind_ is None]
    if unread_ret:
        run.undecided(rule_lex, b.path, 'number-grammar', f'{len(unread_ret)} of {len(sigs)} successful returns hand back a value built by combinators this rule does not read (not Ok(Value::Number(..)) '
                      'built in place): the set of accepted shapes is not decided', loc)
        run.undecided(rule_cls, b.path, 'classification', 'not decided (some results are built by combinators this rule does not read)', loc)
        return
    unread_h = sorted({o for (_, _, _, _, other, _) in sigs for o in other if o.startswith('helper:')})
    if unread_h:
        run.undecided(rule_lex, b.path, 'number-grammar', f'the number lexer calls helper(s) this rule does not know by name ({", ".join(h[7:] for h in unread_h[:4])}): '
                      'the sequence of cursor tests on its accepting paths is not decided', loc)
        run.undecided(rule_cls, b.path, 'classification', 'not decided (the lexer shape was not read)', loc)
        return
    if bad:
        run.violation(rule_lex, b.path, 'number-grammar', 'an accepting path of the number lexer does not follow  -? (0 | [1-9][0-9]*) (\\.[0-9]+)? ([eE][+-]?[0-9]+)?  '
                      'as a sequence of cursor tests at the cursor: ' + ' | '.join(sorted(set(bad))[:2]), loc)
    elif len(shapes) != 24:
        run.violation(rule_lex, b.path, 'number-grammar', f'{len(shapes)} of the 24 grammar shapes (sign × zero/digits × fraction × exponent[sign]) are accepted', loc)
    else:
        run.proved(rule_lex, b.path, 'number-grammar', 'all 24 accepting shapes follow -?(0|[1-9][0-9]*)(\\.[0-9]+)?([eE][+-]?[0-9]+)?: a leading 0 is never followed by a digit, digit runs are non-empty', loc)
    if not cls_bad and cls_unread:
        run.undecided(rule_cls, b.path, 'classification', f'on {len(cls_unread)} accepting path(s) the number is built without str::parse / fast_float2 ({cls_unread[0]}): the representation matches the '
                      'token shape, the computed value is not decided', loc)
    elif cls_bad:
        run.violation(rule_cls, b.path, 'classification', '; '.join(sorted(set(cls_bad))[:2]) + ': integers must be u64 (i64 when negative) only without fraction/exponent, everything else the correctly rounded double', loc)
    else:
        run.proved(rule_cls, b.path, 'classification', 'plain non-negative -> parse::<u64>, plain negative -> parse::<i64>, every other form or overflow -> fast_float2::parse::<f64>', loc)
    run.floor(rule_lex, 'accepting paths of the number lexer', len(sigs), 24)


def r02_7(ctx, run, rule='R02.7'):
    f = ctx.facts
    b = f.bodies.get(P + 'parse_json_object')
    if b is None:
        run.undecided(rule, P + 'parse_json_object', 'insert', 'function not found (anchor lost)')
        return
    names = [canon(callee_name(t)) for _, t in b.calls()]
    ins = [n for n in names if n.endswith('BTreeMap::insert')]
    other = [n for n in names if 'BTreeMap' in n and any(k in n for k in ('entry', 'or_insert', 'try_insert', 'contains_key', 'get'))]
    ok = len(ins) == 1 and not other
    (run.proved if ok else run.violation)(rule, b.path, 'duplicate-keys', 'members are stored with BTreeMap::insert: the last duplicate wins' if ok else
                                           f'members are stored through {sorted(set(ins + other))}: a duplicate key does not simply overwrite the earlier one', f'{b.file}:{b.line}')


def r02_10(ctx, run, rule='R02.10'):
    """Surrogate pairs: high half 0xD800..=0xDBFF followed by `\\u` low half 0xDC00..=0xDFFF combine by the Unicode formula."""
    f = ctx.facts
    b = f.bodies.get('util::parse_escaped_string')
    if b is None:
        return
    ps, _ = explore(b, max_paths=4000)
    n = 0
    loc = f'{b.file}:{b.line}'
    bad = []
    for p in ps:
        for e in p.calls():
            if not (canon(e[1]).endswith('from_u32') and e[2]):
                continue
            arg = e[2][0]
            subs = [s for s in subterms(arg) if s[0] == 'bin' and s[1] == 'Sub' and const_of(s[3]) in (0xD800, 0xDC00)]
            if len(subs) < 2:
                continue
            n += 1
            n1 = [s[2] for s in subs if const_of(s[3]) == 0xD800][0]
            n2 = [s[2] for s in subs if const_of(s[3]) == 0xDC00][0]
            pf = PathFacts(p.conds[:e[6]])
            if pf.infeasible():
                n -= 1
                continue
            r1 = pf.range_of(n1).intersect(IntervalSet([(0, 0xFFFF)]))
            r2 = pf.range_of(n2).intersect(IntervalSet([(0, 0xFFFF)]))
            if r1 != IntervalSet([(0xD800, 0xDBFF)]):
                bad.append(f'the high half of a pair is taken from {r1}, not 0xD800..=0xDBFF')
            if r2 != IntervalSet([(0xDC00, 0xDFFF)]):
                bad.append(f'the low half of a pair is accepted in {r2}, not 0xDC00..=0xDFFF (pairs outside are kept as literal text)')
            # formula: ((n1 - 0xD800) << 10 | (n2 - 0xDC00)) + 0x10000
            a = arg
            ok = a[0] == 'bin' and a[1] == 'Add' and const_of(a[3]) == 0x10000 and a[2][0] == 'bin' and a[2][1] == 'BitOr'
            if ok:
                l, r = a[2][2], a[2][3]
                ok = l[0] == 'bin' and l[1] == 'Shl' and const_of(l[3]) == 10 and any(s == n1 for s in subterms(l[2])) and any(s == n2 for s in subterms(r))
            if not ok:
                bad.append(f'the code point is computed as {show(arg)[:100]}, not ((hi - 0xD800) << 10 | (lo - 0xDC00)) + 0x10000')
    if bad:
        run.violation(rule, b.path, 'surrogate-pair', '; '.join(sorted(set(bad))[:2]), loc)
    else:
        run.proved(rule, b.path, 'surrogate-pair', f'{n} pairing path(s): ranges 0xD800..=0xDBFF / 0xDC00..=0xDFFF and the Unicode formula', loc)
    run.floor(rule, 'surrogate pairing paths', n, 1)


# ------------------------------------------------------------------ R02.12 the hex-digit table of the \u decoder

def const_operands(j, out=None):
    """every constant operand of a MIR json fragment"""
    if out is None:
        out = []
    if isinstance(j, dict):
        if j.get('k') == 'const':
            out.append(j)
        for v in j.values():
            if isinstance(v, (dict, list)):
                const_operands(v, out)
    elif isinstance(j, list):
        for v in j:
            const_operands(v, out)
    return out


def r02_12(ctx, run, rule='R02.12'):
    """The 256-entry table that maps a byte to its hexadecimal digit value (used by the \\uXXXX decoder of the JSON
    text parser, the JSONPath parser and the key-path parser) is the hex-digit function: '0'-'9' -> 0-9, 'a'-'f' and
    'A'-'F' -> 10-15, every other byte -> the not-a-digit marker."""
    f = ctx.facts
    tabs = {}
    for p, b in f.bodies.items():
        if b.kind == 'Promoted' or not p.startswith('util::'):
            continue
        for blk in b.blocks:
            for o in const_operands(blk):
                st = o.get('static')
                if st and o.get('bytes') and len(o['bytes']) == 256:
                    tabs[st] = (o['bytes'], p, b)
    if not tabs:
        run.undecided(rule, 'util::HEX', 'table', 'no 256-entry static byte table is used by the escape decoder any more: hex digits are decoded in another way, which this rule does not read')
        return
    for st, (tb, p, b) in sorted(tabs.items()):
        bad = []
        markers = set()
        for i, v in enumerate(tb):
            ch = chr(i)
            if ch in '0123456789abcdefABCDEF':
                if v != int(ch, 16):
                    bad.append(f'{ch!r} -> {v} (must be {int(ch, 16)})')
            else:
                markers.add(v)
                if v <= 15:
                    bad.append(f'byte {i:#04x} -> {v}: a non-digit is given a digit value')
        if len(markers) > 1:
            bad.append(f'non-digits map to several values {sorted(markers)[:4]}')
        loc = f'{b.file}:{b.line}'
        if bad:
            run.violation(rule, p, f'table[{st.split("::")[-1]}]', 'the hex-digit table is wrong: ' + '; '.join(bad[:3]) + ' — \\\\uXXXX escapes containing that digit decode to a different code point', loc)
        else:
            run.proved(rule, p, f'table[{st.split("::")[-1]}]', f'22 hex digits map to their values, the other 234 bytes to the marker {sorted(markers)[0] if markers else "-"}', loc)


def r02_13(ctx, run, rule='R02.13'):
    """Inside a string every byte other than `"` and `\\` is content (RFC 8259 unescaped characters, plus the documented
    relaxation that raw control characters are accepted): the scanning loop of parse_json_string may fail at end of input
    or inside an escape, never because of the value of a plain byte."""
    from rules import editing
    from rules.buffers import is_err_return
    f = ctx.facts
    fn = "parser::Parser::<'a>::parse_json_string"
    b = f.bodies.get(fn)
    if b is None:
        run.undecided(rule, fn, 'raw-bytes', 'function not found (anchor lost)')
        return
    paths, loops = editing.region_paths(b)
    loc = f'{b.file}:{b.line}'
    def scanned(t):
        return any(s[0] == 'deref' and any(is_call(x, 'Parser::next') for x in subterms(s[1])) for s in subterms(t))
    n = 0
    bad = []
    for q in paths:
        if not q.blocks or q.blocks[0] not in loops:
            continue
        vc = [c for c in q.conds if c[0][0] != 'discr' and scanned(c[0])]
        if not vc:
            continue
        n += 1
        if q.end[0] != 'return' or not is_err_return(q):
            continue
        # an error propagated from the cursor itself (`self.next()?`, `self.must_is(..)?`) is the end-of-input error, whatever was read before
        if is_call(q.ret, 'FromResidual::from_residual') and any(is_call(x, 'Parser::next', 'Parser::must_is') for x in subterms(q.ret)):
            continue
        c = vc[0]
        if c[1] == 'eq' and c[2] in (ord('\\'), ord('"')) and c[0][0] == 'deref':
            continue
        bad.append(f'{show(c[0])[-60:]} {c[1]} {c[2]}')
    if not n:
        run.undecided(rule, fn, 'raw-bytes', 'the scanning loop does not read bytes through Parser::next in this function (restructured?): which bytes it rejects is not decided', loc)
    elif bad:
        run.violation(rule, fn, 'raw-bytes', f'the string scanner returns an error on a path selected by the value of a plain content byte ({bad[0]}): every byte other than `"` and `\\` '
                      'is string content (RFC 8259 unescaped characters; raw control characters are a documented relaxation), so valid text is rejected', loc)
    else:
        run.proved(rule, fn, 'raw-bytes', f'{n} scanning path(s): an error is returned only at end of input, inside an escape, or after the closing quote', loc)


def r02_16(ctx, run, rule='R02.16'):
    """Both halves of a surrogate pair may be written in either form (\\uXXXX or \\u{XXXX}) independently: whether the four hex
    digits of an escape are read after a `{` must be decided by the byte at *that* escape's own position."""
    f = ctx.facts
    fn = 'util::parse_escaped_string'
    b = f.bodies.get(fn)
    if b is None:
        run.undecided(rule, fn, 'bracket-test', 'function not found (anchor lost)')
        return
    ps, _ = explore(b, max_paths=4000)
    loc = f'{b.file}:{b.line}'

    def bare(t):
        t = deref_all(t)
        while t[0] == 'cast' and len(t) > 2:
            t = deref_all(t[2])
        if t[0] == 'call':
            return ('call', canon(t[1]), tuple(bare(a) for a in t[2]))
        if t[0] == 'agg':
            return ('agg', t[1], tuple(bare(a) for a in t[2]))
        return t

    def brace_tests(conds):
        """slices whose byte 0 was compared with '{' on this path"""
        out = []
        for c in conds:
            t = c[0]
            if t[0] == 'bin' and t[1] in ('Eq', 'Ne') and any(const_of(x) == ord('{') for x in (t[2], t[3])):
                t = t[2] if const_of(t[3]) == ord('{') else t[3]
            elif not ((c[1] == 'eq' and c[2] == ord('{')) or (c[1] == 'ne' and isinstance(c[2], tuple) and ord('{') in c[2])):
                continue
            t = deref_all(t)
            if t[0] == 'index' and const_of(t[2]) == 0:
                out.append(bare(t[1]))
        return out
    n = 0
    bad = None
    for q in ps:
        for e in q.calls():
            if not (called(e[1], 'read_exact') and e[2]):
                continue
            D = bare(e[2][0])
            tests = brace_tests(q.conds[:e[6]])
            if not tests:
                continue
            n += 1
            own = any(S == D or (D[0] == 'call' and D[1].endswith('index') and len(D[2]) == 2 and D[2][0] == S and agg_variant(D[2][1]) and D[2][1][1][1].endswith('RangeFrom')
                                 and const_of(D[2][1][2][0]) == 1) for S in tests)
            if not own and bad is None:
                bad = f'the digits read from {show(e[2][0])[:70]} follow a `{{` test made on another position ({show(tests[-1])[:60]})'
    if not n:
        run.undecided(rule, fn, 'bracket-test', 'no hex-digit read preceded by a `{` test was found in this function (moved to a helper?): not decided', loc)
    elif bad:
        run.violation(rule, fn, 'bracket-test', bad + ': a pair whose two halves use different forms (\\uD83D\\u{DC8E}) is mis-read', loc)
    else:
        run.proved(rule, fn, 'bracket-test', f'{n} digit read(s), each after a `{{` test on the byte at its own position', loc)
