"""C07 — any chain of operations keeps documents canonical (compositional structural clauses)."""
import report
from rules import editing, layout, accessors, buffers

EXPLANATION = (
    "A history property decided compositionally: 'canonical in => canonical out' for every operation is an inductive invariant of any chain, and its "
    "structural preconditions are local to each writer. R07.1: every raw (entry word, payload) pair copied by an editor is drawn from one source "
    "(R06.2). R07.2: the encoder and the builders return exactly the number of bytes they append, so every nested length that is rebuilt is exact "
    "(R01.5/R06.3, ghost accounting with assume-guarantee over the recursive writers). R07.3: every function that writes an OBJECT header emits its keys "
    "from an ordered-map iteration (sorted, unique). R07.4: extraction re-wraps scalars exactly and copies containers verbatim (R05.4); every Position "
    "the selector records pairs an offset with the length of the entry at that offset (or is the root / the caller's position) and the selector writers "
    "copy exactly that range. R07.5: the set of functions that write a container header equals the set covered by these rules (nothing escapes the "
    "induction). R07.8: a selector writer that nests copied bytes under a CONTAINER_TAG entry word has excluded the scalar header kind on that path, because the whole root (possibly a scalar document) is recorded as a Container position (D20, fixed). NOT decided: equality with the tree result at each step.")


def check(ctx, run):
    run.rules_run = ['R07.1', 'R07.2', 'R07.3', 'R07.4', 'R07.5', 'R07.6', 'R07.7', 'R07.8', 'R07.9', 'R07.10']
    editing.r06_2(ctx, run, rule='R07.1/R06.2')
    layout.r01_5(ctx, run, rule='R07.2/R01.5', which='ser')
    layout.r01_5(ctx, run, rule='R07.2/R06.3', which='builder')
    editing.r07_3_5(ctx, run)
    accessors.r05_4(ctx, run, rule='R07.4/R05.4')
    editing.r07_4(ctx, run)
    buffers.r17_5(ctx, run, rule='R07.4/R17.5')
    editing.r06_9(ctx, run, rule='R07.6/R06.9', which=('bytes',))
    editing.r07_8(ctx, run)
    # results are written where the caller's buffer ends: a header or entry word back-patched at a position that is not relative to the
    # buffer length at the call lands in earlier content, and the appended document keeps a zero header (R17.2 on the builders and writers)
    ba = buffers.BufferAnalysis(ctx)
    for e_ in ('functions::build_array', 'functions::build_object', 'functions::get_by_path', 'functions::get_by_path_first', 'functions::get_by_path_array'):
        if e_ in ctx.facts.bodies:
            ba.analyse_entry(ctx.facts.bodies[e_].path)
    buffers.r17_2(ctx, run, ba, rule='R07.10/R17.2', floor=None)
    from rules import units as _units
    _units.check(ctx, run, 'R07.11/R05.15', only=lambda p_: p_.startswith(('jsonpath::selector', 'functions::')))
    editing.r06_17(ctx, run, rule='R07.12/R06.17')
    editing.r06_18(ctx, run, rule='R07.13/R06.18')
    # what an editor drops decides whether its result equals the tree result (R06.8)
    editing.r06_8(ctx, run, rule='R07.14/R06.8')
    # the editors walk their operands with the container iterators: an iterator that ends early loses members (R05.18)
    from rules import walkers as _walkers
    _walkers.r05_18(ctx, run, 'R07.15/R05.18')
    accessors.name_variants_alike(ctx, run, 'R07.7', lambda p_: p_.startswith('functions::'))
    from rules import layout as _layout
    _layout.r01_2(ctx, run, rule='R07.9/R01.2')
    return report.finish(run, level='other', explanation=EXPLANATION, assumptions=["A1: inputs of the chain are canonical documents", "A2/A3"])
