"""Decision boundaries, compared with the pinned tree (differential rule).

For a function, every boolean comparison `a < b`, `a >= b` ... that a path takes is normalised to an integer inequality
    sum(coef * class) <= c
where the atoms of both sides are replaced by their *provenance class* (the set of parameters they derive from), so that
renaming, reordering, `a < b` vs `b > a` vs `!(a >= b)`, or introducing named locals do not change the normal form.
The signature of a function is {class-form: set of constants c}.  A change that *moves* a boundary by one — a constant
present on the pinned tree disappears and its neighbour c+1 / c-1 appears for the same class-form — is the classic
off-by-one (`<` for `<=`, `> len` for `>= len`) and is reported; anything else (new comparisons, removed ones, forms the
pinned tree does not have) is not judged by this rule."""
import json, os
from sym import Explorer, lin, subterms
from mir import natural_loops
import prov as provmod

VERIF = os.path.dirname(os.path.dirname(os.path.abspath(__file__)))
NEG = {'Lt': 'Ge', 'Le': 'Gt', 'Gt': 'Le', 'Ge': 'Lt'}


def atom_class(body, a, pv):
    ps = set()
    calls = []
    for s in subterms(a):
        if s[0] in ('init', 'hav') and isinstance(s[1], int):
            ps |= pv.get(s[1], set())
        elif s[0] == 'call':
            calls.append(s[1].split('::')[-1].split('<')[0])
        elif s[0] == 'field' and isinstance(s[2], str) and not s[2].isdigit():
            calls.append('.' + s[2])
    return (tuple(sorted(ps)), tuple(sorted(set(calls)))[:3])


def normal_forms(body, max_paths=3000):
    """[(form, c)] for the comparisons taken on the paths of the function"""
    pv = provmod.prov(body)
    loops = natural_loops(body)
    ex = Explorer(body, max_paths=max_paths)
    out = set()
    for s0 in [0] + sorted(loops):
        for q in ex.explore(start=s0, stop=set(loops)):
            # only the comparisons on the way to a *rejecting* return (None, Err(..), false): bounds that merely choose between
            # two values (clamps) may legitimately sit on either side of a point where both choices coincide
            if not rejecting(q):
                continue
            for c in q.conds:
                t, op, val = c[0], c[1], c[2]
                if not (t[0] == 'bin' and t[1] in NEG and op == 'eq' and isinstance(val, bool)):
                    continue
                o = t[1] if val else NEG[t[1]]
                la, lb = lin(t[2]), lin(t[3])
                if la is None or lb is None:
                    continue
                d = {}
                for x, k in la[0].items():
                    d[x] = d.get(x, 0) + k
                for x, k in lb[0].items():
                    d[x] = d.get(x, 0) - k
                cst = lb[1] - la[1]          # sum d.x  o  cst
                # to  sum <= c
                if o == 'Lt':
                    cst -= 1
                elif o in ('Gt', 'Ge'):
                    d = {x: -k for x, k in d.items()}
                    cst = -cst - (1 if o == 'Gt' else 0)
                form = {}
                for x, k in d.items():
                    cl = atom_class(body, x, pv)
                    form[cl] = form.get(cl, 0) + k
                form = tuple(sorted((cl, k) for cl, k in form.items() if k != 0))
                if not form or any(not cl[0] and not cl[1] for cl, _ in form):
                    continue
                if isinstance(cst, int) and abs(cst) < (1 << 40):
                    out.add((form, cst))
    return out


def rejecting(q):
    if q.end[0] != 'return' or q.ret is None:
        return False
    r = q.ret
    while r[0] in ('ref', 'deref'):
        r = r[1]
    if r[0] == 'const' and r[1] is False:
        return True
    if r[0] == 'agg' and isinstance(r[1], tuple) and r[1][0] == 'adt':
        if r[1][2] in ('None', 'Err'):
            return True
        if r[1][2] == 'Ok' and r[2] and r[2][0][0] == 'const' and r[2][0][1] is False:
            return True
        if r[1][2] == 'Ok' and r[2] and r[2][0][0] == 'agg' and isinstance(r[2][0][1], tuple) and r[2][0][1][0] == 'adt' and r[2][0][1][2] == 'None':
            return True
    return False


def signature(body):
    sig = {}
    for form, c in normal_forms(body):
        sig.setdefault(repr(form), set()).add(c)
    return {k: sorted(v) for k, v in sig.items()}


def load_baseline():
    p = os.path.join(VERIF, 'baseline_boundaries.json')
    if not os.path.exists(p):
        return None
    return json.load(open(p))


def check(ctx, run, rule, functions, what):
    """compare the boundaries of the given functions with the pinned tree"""
    base = load_baseline()
    f = ctx.facts
    if base is None:
        run.undecided(rule, '<crate>', 'boundaries', 'baseline_boundaries.json is missing')
        return
    n = 0
    for p in functions:
        b = f.bodies.get(p)
        if b is None or p not in base:
            continue
        sig = signature(b)
        n += 1
        moved = []
        for form, old in base[p].items():
            new = sig.get(form)
            if new is None:
                continue
            gone = set(old) - set(new)
            came = set(new) - set(old)
            for c in sorted(gone):
                for d in (c + 1, c - 1):
                    # the complementary branch of a comparison moves together with it: report the pair once
                    if d in came:
                        moved.append((form, c, d))
        loc = f'{b.file}:{b.line}'
        if moved:
            form, c, d = moved[0]
            run.violation(rule, p, 'boundary-moved', f'{what}: a comparison that was `{pretty(form)} <= {c}` on the pinned tree is now `<= {d}` ({len(moved)} moved bound(s) in this function): '
                          f'the decision changes for exactly the boundary value (an off-by-one in a range / index test)', loc)
        else:
            run.proved(rule, p, 'boundaries', f'{sum(len(v) for v in sig.values())} decision bounds, none moved by one against the pinned tree', loc, nontrivial=bool(sig))
    return n


def pretty(form_repr):
    try:
        form = eval(form_repr)
    except Exception:
        return form_repr[:60]
    parts = []
    for (ps, calls), k in form:
        nm = 'f(' + ','.join(f'arg{p}' for p in ps) + ('; ' + ','.join(calls) if calls else '') + ')'
        parts.append((f'{k}*' if k != 1 else '') + nm)
    return ' + '.join(parts)
