"""C20 — deep nesting and extreme arguments never crash (R20.1 recursion on document depth, R20.2 i32 arithmetic)."""
import report
from rules import recursion, intarith

ENTRY = ['parser::parse_value', "value::Value::<'a>::to_vec", "value::Value::<'a>::write_to_vec", 'de::from_slice', 'de::parse_jsonb',
         'functions::to_string', 'functions::to_pretty_string', 'functions::compare', 'functions::get_by_path',
         'functions::get_by_path_first', 'functions::get_by_path_array', 'functions::path_exists', 'functions::path_match',
         'functions::delete_by_index', 'functions::array_insert', 'functions::delete_by_keypath', 'functions::get_by_keypath',
         'functions::get_by_index']

EXPLANATION = (
    "Static analysis over the resolved call graph and MIR. R20.1: every strongly connected component of the call graph that is "
    "reachable from the property's entry points and descends on the document (bytes, offsets, &Value, cursor structs) must contain "
    "a depth guard (an integer that grows along each recursive edge and is compared with a constant); std containers forwarding "
    "Clone/PartialEq/Debug/Display to local impls are modelled. Unguarded SCCs are reported keyed by member set (the pinned tree's "
    "five recursions are known findings). R20.2: every checked Add/Sub/Mul/Neg and abs() on an integer type of at most 32 bits in "
    "the cone is evaluated by interval arithmetic along all CFG paths with public parameters ranging over their whole type, private "
    "parameters over the join of their call sites, and lengths/counts < 2^31 (A2); a site whose result interval leaves the type is a violation. R20.3: every index into a fixed-size table (array, static, byte-string constant) in the cone must be bounded by the table length by the same interval evaluation (an index that grows with nesting depth or input size crashes at a moderate size). "
    "NOT decided: stack use of non-recursive code, allocation failure, recursion in drop glue.")

ASSUME = ["A2: container counts < 2^29 and lengths cast to i32 < 2^31", "A3: dev-profile semantics (overflow checks on)",
          "drop glue is not part of the MIR fact dump: recursion in Drop for Value/Expr is outside R20.1"]


def check(ctx, run):
    run.rules_run = ['R20.1', 'R20.2', 'R20.3', 'R20.4']
    recursion.rrec(ctx, run, 'R20.1', ENTRY, {'document'}, 'recursion on document nesting depth', floor=5)
    recursion.depth_counter_pairing(ctx, run, 'R20.6')
    cg = recursion.augment(ctx)
    cone = cg.reachable([e for e in ENTRY if e in ctx.facts.bodies])
    run.floor('R20.2', 'C20 entry points', len([e for e in ENTRY if e in ctx.facts.bodies]), 16)
    # the path and key-path parsers feed the index arithmetic (`last - N`, negative indices): their own narrow-integer arithmetic belongs to the same cone
    pcone = cg.reachable([e for e in ('jsonpath::parser::parse_json_path', 'keypath::parse_key_paths') if e in ctx.facts.bodies])
    intarith.overflow_sites(ctx, run, 'R20.2', sorted(set(cone) | set(pcone)), floor=6, label='position arithmetic on a narrow integer')
    intarith.table_index_sites(ctx, run, 'R20.3', cone, floor=1)
    from rules import c08 as _c08
    _c08.r08_4(ctx, run, rule='R20.4/R08.4')
    intarith.param_cast_sites(ctx, run, 'R20.5', floor=1)
    return report.finish(run, level='other', explanation=EXPLANATION, assumptions=ASSUME)
