"""C19 — conversion to and from serde_json preserves the document (table clauses R19.1-R19.4)."""
import report
from sym import explore, show, subterms
from pat import called, canon, is_call, deref_all, agg_variant, const_of
from rules.layout import cv
from mir import callee_name as callee_name_

EXPLANATION = (
    "Static analysis of the three converters through MIR path enumeration. R19.1: numbers map UInt64<->u64, Int64<->i64, Float64<->f64 in all "
    "three converters, and From<&serde_json::Value> tests is_u64 before is_i64 before falling back to f64, constructing all three variants. "
    "R19.2: every entry tag / Value variant / serde_json variant has an arm constructing the corresponding kind, defaults are errors. "
    "R19.3: the object-only variant returns None exactly for array and scalar headers (no other condition), Some for objects, through the same "
    "element converter as the general one. R19.4: in the byte walker a non-finite float is an Err, not an unwrap. "
    "NOT decided: structural fidelity of whole documents (element order, string contents).")

JV = 'serde_json::Value'
V = 'value::Value'


def variant(t):
    t = deref_all(t)
    if agg_variant(t):
        return t[1][1].split('::')[0] + '::' + t[1][1].split('::')[-1], t[1][2], t
    return None


def check(ctx, run):
    f = ctx.facts
    run.rules_run = ['R19.1', 'R19.2', 'R19.3', 'R19.4', 'R05.14']
    vs = [v['name'] for v in f.adts[V]['variants']]
    ns = [v['name'] for v in f.adts['number::Number']['variants']]
    # ---- From<&JsonValue> for Value
    fn = "from::<impl std::convert::From<&serde_json::Value> for value::Value<'a>>::from"
    b = f.bodies.get(fn)
    if b is None:
        run.undecided('R19.2', fn, 'body', 'converter not found (anchor lost)')
    else:
        ps, _ = explore(b)
        kinds = {}
        nums = {}
        for p in ps:
            if p.end[0] != 'return' or not agg_variant(p.ret):
                continue
            d = [c for c in p.conds if c[0][0] == 'discr' and c[1] == 'eq']
            if not d:
                continue
            src = ['Null', 'Bool', 'Number', 'String', 'Array', 'Object'][d[0][2]] if d[0][2] < 6 else str(d[0][2])
            kinds.setdefault(src, set()).add(p.ret[1][2])
            if src == 'Number':
                inner = p.ret[2][0]
                if agg_variant(inner):
                    nv = inner[1][2]
                    tests = {canon(c[0][1]).split('::')[-1]: c[2] for c in p.conds if c[0][0] == 'call'}
                    # `if let Some(u) = n.as_u64()` tests the same thing as `n.is_u64()`
                    for c in p.conds:
                        if c[0][0] == 'discr' and c[0][1][0] == 'call' and c[1] in ('eq', 'ne'):
                            nm_ = canon(c[0][1][1]).split('::')[-1]
                            if nm_ in ('as_u64', 'as_i64'):
                                if c[1] == 'eq':
                                    tests['is_' + nm_[3:]] = (c[2] == 1)
                                elif 1 in c[2]:
                                    tests['is_' + nm_[3:]] = False
                    getter = sorted({canon(s[1]).split('::')[-1] for s in subterms(inner) if s[0] == 'call' and canon(s[1]).split('::')[-1] in ('as_u64', 'as_i64', 'as_f64')})
                    nums[nv] = (tests, getter)
        loc = f'{b.file}:{b.line}'
        for k in ('Null', 'Bool', 'Number', 'String', 'Array', 'Object'):
            ok = kinds.get(k) == {k}
            if not ok and not kinds.get(k):
                run.undecided('R19.2', fn, f'kind[{k}]', f'no return path converting {k} was recognised in this function (an explicit work list / helper instead of a recursive match?): not decided', loc)
                continue
            (run.proved if ok else run.violation)('R19.2', fn, f'kind[{k}]', f'-> Value::{k}' if ok else f'serde_json {k} is converted to {sorted(kinds.get(k, []))}', loc)
        exp = {'UInt64': ({'is_u64': True}, ['as_u64']), 'Int64': ({'is_u64': False, 'is_i64': True}, ['as_i64']), 'Float64': ({'is_u64': False, 'is_i64': False}, ['as_f64'])}
        for nv, (tests, getter) in exp.items():
            got = nums.get(nv)
            ok = got is not None and all(got[0].get(k) == v for k, v in tests.items()) and got[1] == getter
            if got is None:
                run.undecided('R19.1', fn, f'number[{nv}]', f'no path producing {nv} was recognised in this function: how serde_json numbers are classified is not decided', loc)
                continue
            (run.proved if ok else run.violation)('R19.1', fn, f'number[{nv}]', f'guarded by {tests}, read with {getter[0]}' if ok else
                                                   f'{nv} must be produced exactly when {tests} and read with {getter[0]}; found {got}: some integers would come back as a different '
                                                   'representation (e.g. u64 beyond i64::MAX rounded to a float)', loc)
    # ---- From<Value> for JsonValue
    fn = "from::<impl std::convert::From<value::Value<'a>> for serde_json::Value>::from"
    b = f.bodies.get(fn)
    if b is None:
        run.undecided('R19.2', fn, 'body', 'converter not found (anchor lost)')
    else:
        ps, _ = explore(b)
        kinds = {}
        nums = {}
        for p in ps:
            if p.end[0] != 'return' or not agg_variant(p.ret):
                continue
            d = [c for c in p.conds if c[0][0] == 'discr' and c[1] == 'eq']
            if not d:
                continue
            src = vs[d[0][2]]
            kinds.setdefault(src, set()).add(p.ret[1][2])
            if src == 'Number' and len(d) > 1 and d[1][2] < len(ns):
                nv = ns[d[1][2]]
                if not p.ret[2]:
                    nums[nv] = (f'the constant {p.ret[1][2]}', [])
                    continue
                inner = deref_all(p.ret[2][0])
                how = canon(inner[1]).split('::')[-1] if inner[0] == 'call' else show(inner)[:30]
                if is_call(inner, 'Option::unwrap') and inner[2] and is_call(inner[2][0], 'Number::from_f64'):
                    how = 'from_f64'
                payload = [s[2] for s in subterms(inner) if s[0] == 'downcast' and s[2] in ns]
                # the integer handed to serde_json must be the stored one: an `as` cast to another integer type on the way changes
                # the value for part of the range (u64 -> i64 wraps above i64::MAX, i64 -> u64 wraps below zero)
                if how == 'into' and inner[0] == 'call' and inner[2]:
                    a_ = deref_all(inner[2][0])
                    if a_[0] == 'cast' and a_[1] == 'IntToInt' and len(a_) > 3:
                        want_ty = {'Int64': 'i64', 'UInt64': 'u64'}.get(nv)
                        if want_ty and a_[3] != want_ty:
                            how = f'lossy cast to {a_[3]} before into'
                nums[nv] = (how, payload)
        loc = f'{b.file}:{b.line}'
        for k in vs:
            ok = kinds.get(k) == {k}
            if not ok and not kinds.get(k):
                run.undecided('R19.2', fn, f'kind[{k}]', f'no return path converting {k} was recognised in this function (an explicit work list / helper instead of a recursive match?): not decided', loc)
                continue
            (run.proved if ok else run.violation)('R19.2', fn, f'kind[{k}]', f'-> serde_json::Value::{k}' if ok else f'Value::{k} is converted to {sorted(kinds.get(k, []))}', loc)
        for nv, how in (('Int64', 'into'), ('UInt64', 'into'), ('Float64', 'from_f64')):
            got = nums.get(nv)
            ok = got is not None and got[0] == how and got[1] and set(got[1]) == {nv}
            (run.proved if ok else run.violation)('R19.1', fn, f'number[{nv}]', f'the stored {nv} itself, via {how}' if ok else f'{nv} is converted by {got}', loc)
    # ---- byte walker
    b = f.one('functions::scalar_to_serde_json')
    g = lambda n: cv(f, n)
    if b is None:
        run.undecided('R19.2', 'functions::scalar_to_serde_json', 'body', 'converter not found (anchor lost)')
    else:
        ps, _ = explore(b)
        names = {g(n): n for n in ('NULL_TAG', 'STRING_TAG', 'NUMBER_TAG', 'TRUE_TAG', 'FALSE_TAG', 'CONTAINER_TAG')}
        table = {}
        nums = {}
        for p in ps:
            if p.end[0] != 'return':
                continue
            tc = [c for c in p.conds if 'type_code' in show(c[0])]
            if not tc:
                continue
            key = names.get(tc[0][2], tc[0][2]) if tc[0][1] == 'eq' else 'otherwise'
            r = deref_all(p.ret)
            if is_call(r, 'FromResidual::from_residual'):
                # `from_f64(x).ok_or(..)?` : the non-finite case leaves through the `?`
                if key == 'NUMBER_TAG' and any(is_call(s, 'Number::from_f64') for s in subterms(r)):
                    d = [c for c in p.conds if c[0][0] == 'discr' and any(is_call(s, 'Number::decode') for s in subterms(c[0])) and not is_call(c[0][1], 'Try::branch')]
                    if d:
                        nums.setdefault(ns[d[0][2]], set()).add(('Err', 'non-finite'))
                continue
            if agg_variant(r) and r[1][2] == 'Err':
                res = 'Err'
            elif agg_variant(r) and r[1][2] == 'Ok':
                v = deref_all(r[2][0])
                if agg_variant(v):
                    res = v[1][2]
                    if res == 'Bool':
                        res = f'Bool({str(const_of(v[2][0])).lower()})'
                    if res == 'Number':
                        d = [c for c in p.conds if c[0][0] == 'discr' and any(is_call(s, 'Number::decode') for s in subterms(c[0])) and not is_call(c[0][1], 'Try::branch')]
                        if d:
                            nv = ns[d[0][2]]
                            inner = deref_all(v[2][0])
                            how = canon(inner[1]).split('::')[-1] if inner[0] == 'call' else ('from_f64' if any(is_call(s, 'Number::from_f64') for s in subterms(inner)) else show(inner)[:30])
                            if how == 'from' and inner[0] == 'call':
                                import re as _re
                                m_ = _re.search(r'From<(\w+)>', inner[1])
                                if m_:
                                    how = f'from<{m_.group(1)}>'
                            nums.setdefault(nv, set()).add(('Ok', how))
                else:
                    res = 'nested' if any(is_call(s, 'functions::containter_to_serde_json') for s in subterms(v)) else '?' + show(v)[:30]
            elif is_call(r, 'functions::containter_to_serde_json'):
                res = 'nested'      # the nested converter's own Result returned as is
            else:
                res = '?' + show(r)[:30]
            if key == 'NUMBER_TAG' and res == 'Err':
                d = [c for c in p.conds if c[0][0] == 'discr' and any(is_call(s, 'Number::decode') for s in subterms(c[0])) and not is_call(c[0][1], 'Try::branch')]
                if d:
                    nums.setdefault(ns[d[0][2]], set()).add(('Err', 'non-finite'))
                continue
            table.setdefault(key, set()).add(res)
        loc = f'{b.file}:{b.line}'
        exp = {'NULL_TAG': {'Null'}, 'TRUE_TAG': {'Bool(true)'}, 'FALSE_TAG': {'Bool(false)'}, 'STRING_TAG': {'String'}, 'NUMBER_TAG': {'Number'},
               'CONTAINER_TAG': {'nested'}, 'otherwise': {'Err'}}
        for k, v in exp.items():
            ok = table.get(k) == v
            if not ok and table.get(k) and any(isinstance(x_, str) and x_.startswith('?') for x_ in table.get(k)) and (v <= {x_ for x_ in table.get(k) if not (isinstance(x_, str) and x_.startswith('?'))} or
                                                                                                                   not {x_ for x_ in table.get(k) if not (isinstance(x_, str) and x_.startswith('?'))}):
                run.undecided('R19.2', b.path, f'tag[{k}]', f'expected {sorted(v)}; some paths for this entry kind return a value built by combinators this rule does not read ({sorted(table.get(k))}): not decided', loc)
                continue
            if not ok and not table.get(k):
                run.undecided('R19.2', b.path, f'tag[{k}]', f'expected {sorted(v)}; no arm for this entry kind was recognised in this function (restructured?): not decided', loc)
                continue
            (run.proved if ok else run.violation)('R19.2', b.path, f'tag[{k}]', f'-> {sorted(v)[0]}' if ok else f'expected {sorted(v)}, found {sorted(table.get(k, []))}', loc)
        expn = {'Int64': {('Ok', 'from<i64>')}, 'UInt64': {('Ok', 'from<u64>')}, 'Float64': {('Ok', 'from_f64'), ('Err', 'non-finite')}}
        for nv, want in expn.items():
            got = nums.get(nv, set())
            ok = got == want
            rule = 'R19.4' if nv == 'Float64' else 'R19.1'
            if not ok and nv == 'Float64' and ('Ok', 'from_f64') in got and not any(called(callee_name_(t), 'Option::unwrap', 'Option::expect') for _, t in b.calls()
                                                                                      if any(True for _ in [0])) and ('Err', 'non-finite') not in got:
                run.undecided(rule, b.path, f'number[{nv}]', 'finite floats go through from_f64 and no unwrap/expect is applied, but the path taken by a non-finite float was not recognised', loc)
                continue
            unread_num = any(isinstance(x_, str) and x_.startswith('?') for x_ in table.get('NUMBER_TAG', ()))
            if not ok and got and got < want and unread_num:
                # some path of the number arm returns a value built by combinators this rule does not read (`from_f64(v).map(..).ok_or(..)?`): the
                # outcomes that were read are among the expected ones, the missing one may be that path
                run.undecided(rule, b.path, f'number[{nv}]', f'outcomes read for {nv}: {sorted(got)} (expected {sorted(want)}); another path of the number arm builds its result with combinators '
                              'this rule does not read: not decided', loc)
                continue
            if not ok and not got:
                # no outcome for this representation was recognised at all (the conversion is written with combinators / in a helper)
                unwraps = any(called(callee_name_(t), 'Option::unwrap', 'Option::expect') for _, t in b.calls())
                if nv == 'Float64' and unwraps and any(called(callee_name_(t), 'Number::from_f64') for _, t in b.calls()):
                    run.violation(rule, b.path, f'number[{nv}]', 'from_f64 is followed by unwrap/expect: a non-finite float panics instead of returning an error', loc)
                else:
                    run.undecided(rule, b.path, f'number[{nv}]', f'no outcome for {nv} was recognised on the paths of this function (expected {sorted(want)}): not decided', loc)
                continue
            (run.proved if ok else run.violation)(rule, b.path, f'number[{nv}]', 'exact integer of the same signedness' if ok and nv != 'Float64' else ('finite floats via from_f64, non-finite -> Err (no panic)' if ok else
                                                   f'{nv} outcomes are {sorted(got)}, expected {sorted(want)}'), loc)
    # ---- containers
    for fn, want_none in (('functions::containter_to_serde_json', None), ('functions::containter_to_serde_json_object', True)):
        b = f.one(fn)
        if b is None:
            run.undecided('R19.3', fn, 'body', 'converter not found (anchor lost)')
            continue
        from mir import natural_loops
        from sym import Explorer
        loops = natural_loops(b)
        ex = Explorer(b)
        heads = {g('SCALAR_CONTAINER_TAG'): 'S', g('ARRAY_CONTAINER_TAG'): 'A', g('OBJECT_CONTAINER_TAG'): 'O'}
        table = {}
        extra = []
        for s0 in [0] + sorted(loops):
            for p in ex.explore(start=s0, stop=set(loops)):
                if p.end[0] != 'return':
                    continue
                r = deref_all(p.ret)
                if is_call(r, 'FromResidual::from_residual'):
                    continue
                hk = None
                others = []
                # the header kinds this path is taken for: every test of the masked header narrows the set (a path whose tests contradict
                # each other is not a path of the program)
                poss = {'S', 'A', 'O', 'otherwise'}
                masked = lambda t_: t_[0] == 'bin' and t_[1] == 'BitAnd' and any(x[0] == 'const' and x[1] == 0xE0000000 for x in (t_[2], t_[3]))
                tested = False
                for c in p.conds:
                    t = c[0]
                    if masked(t):
                        tested = True
                        if c[1] == 'eq':
                            poss &= {heads.get(c[2], 'otherwise')}
                        elif c[1] == 'ne' and isinstance(c[2], tuple):
                            poss -= {heads[v_] for v_ in c[2] if v_ in heads}
                    elif t[0] == 'bin' and t[1] in ('Eq', 'Ne') and isinstance(c[2], bool) and (masked(t[2]) or masked(t[3])):
                        kv = const_of(t[3]) if masked(t[2]) else const_of(t[2])
                        if kv is not None:
                            tested = True
                            if (t[1] == 'Eq') == c[2]:
                                poss &= {heads.get(kv, 'otherwise')}
                            elif kv in heads:
                                poss -= {heads[kv]}
                    elif t[0] == 'discr' or is_call(t, 'Try::branch') or 'ovf' in show(t):
                        continue
                    else:
                        others.append(c)
                if not poss:
                    continue
                if tested:
                    hk = sorted(poss)
                if agg_variant(r) and r[1][2] == 'Ok':
                    v = deref_all(r[2][0])
                    res = v[1][2] if agg_variant(v) else 'value'
                    if res == 'Some' or res == 'None':
                        pass
                elif agg_variant(r) and r[1][2] == 'Err':
                    res = 'Err'
                else:
                    res = 'value'
                if s0 == 0 and hk is None and res != 'Err':
                    extra.append((res, [show(c[0])[:50] for c in others]))
                    continue
                if s0 != 0:
                    continue
                for hk_ in (hk or [None]):
                    table.setdefault(hk_, set()).add(res)
                if others and res in ('None',):
                    extra.append((res, [show(c[0])[:50] for c in others]))
        loc = f'{b.file}:{b.line}'
        # was the header kind read in the form this rule reads (mask & switch on the header word) at all?
        recognised = any(k in table for k in ('A', 'S', 'O'))
        if not recognised:
            run.undecided('R19.3' if want_none else 'R19.2', fn, 'object-only' if want_none else 'header-kinds',
                          'the header kind is not dispatched in this function in the form this rule reads (read through a helper or a struct?): not decided', loc)
        elif want_none:
            ok = table.get('A') == {'None'} and table.get('S') == {'None'} and 'None' not in table.get('O', set()) and table.get('otherwise') == {'Err'} and not extra
            (run.proved if ok else run.violation)('R19.3', fn, 'object-only', 'None exactly for array and scalar headers, Err for invalid headers' if ok else
                                                   f'the object-only converter returns {dict((k, sorted(v)) for k, v in table.items())} with extra conditions {extra}: it must return None exactly when the header '
                                                   'is an array or a scalar, and the members for every object (including the empty one)', loc)
        else:
            ok = table.get('otherwise') == {'Err'} and not extra
            (run.proved if ok else run.violation)('R19.2', fn, 'header-kinds', 'object / array / scalar arms, Err otherwise' if ok else f'header dispatch is {table} extra {extra}', loc)
        # both use scalar_to_serde_json for elements
        uses = 'functions::scalar_to_serde_json' in ctx.cg.reachable([b.path])
        (run.proved if uses else run.violation)('R19.3', fn, 'element-converter', 'members are converted by scalar_to_serde_json' if uses else 'members are not converted by the shared element converter', loc)
    from rules import walkers as _walkers
    _walkers.w_pair(ctx, run, 'R19.9/R05.14', only=lambda p_: 'serde' in p_)
    return report.finish(run, level='other', explanation=EXPLANATION, assumptions=["finite numbers (the property's precondition) for the tree conversions"])
