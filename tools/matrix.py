#!/usr/bin/env python3
"""Run the checks against a corpus of patches in parallel scratch worktrees (never in /repo).

  matrix.py seeds   [-j N] [filter...]   seeded/<id>/patch.diff + selftest/reverts + selftest/mutants  -> seeded/RESULTS.json
  matrix.py benign  [-j N] [filter...]   benign/<id>/patch.diff                                       -> benign/RESULTS.json

Each worker owns a worktree /tmp/mx/w<k> (VERIF_REPO), a cargo target dir (VERIF_TARGET_TAG) and an evidence dir
(VERIF_EVIDENCE_DIR), so /repo and /verif/evidence are not touched.  Everything under /tmp/mx is removed at the end."""
import json, os, subprocess, sys, glob, re, shutil, threading, queue
V = '/verif'
kind = sys.argv[1]
args = sys.argv[2:]
jobs = 10
if '-j' in args:
    i = args.index('-j'); jobs = int(args[i + 1]); del args[i:i + 2]
only = args
man = json.load(open(f'{V}/MANIFEST.json'))
pids = [c['property_id'] for c in man['checks']]
# MATRIX_PIDS=C05,C06 restricts the checks that are run (quick regression of a rule edit confined to those properties); the
# result then goes to MATRIX_OUT (default /tmp/matrix_partial_<kind>.json), never into the committed RESULTS.json
PARTIAL = os.environ.get('MATRIX_PIDS')
if PARTIAL:
    pids = [p for p in pids if p in PARTIAL.split(',')]
items = []
if kind == 'seeds':
    for d in sorted(glob.glob(f'{V}/seeded/C*-*')):
        items.append((os.path.basename(d), f'{d}/patch.diff', os.path.basename(d).split('-')[0]))
    for f in sorted(glob.glob(f'{V}/selftest/reverts/*.diff')) + sorted(glob.glob(f'{V}/selftest/mutants/*.diff')):
        items.append((os.path.basename(f)[:-5], f, None))
    out_path = f'{V}/seeded/RESULTS.json'
else:
    for d in sorted(glob.glob(f'{V}/benign/C*-*')):
        items.append((os.path.basename(d), f'{d}/patch.diff', os.path.basename(d).split('-')[0]))
    out_path = f'{V}/benign/RESULTS.json'
if PARTIAL:
    out_path = os.environ.get('MATRIX_OUT', f'/tmp/matrix_partial_{kind}.json')
res = json.load(open(out_path)) if (only and os.path.exists(out_path) and not PARTIAL) else {}
if only:
    items = [it for it in items if any(o in it[0] for o in only)]
q = queue.Queue()
for it in items:
    q.put(it)
lock = threading.Lock()
MX = '/tmp/mx'
os.makedirs(MX, exist_ok=True)


def worker(k):
    wt = f'{MX}/w{k}'
    subprocess.run(['git', '-C', '/repo', 'worktree', 'remove', '--force', wt], capture_output=True)
    subprocess.run(['git', '-C', '/repo', 'worktree', 'add', '-q', '--detach', wt, 'HEAD'], check=True, capture_output=True)
    env = dict(os.environ, VERIF_REPO=wt, VERIF_TARGET_TAG=f'-mx{k}', VERIF_EVIDENCE_DIR=f'{MX}/ev{k}')
    try:
        while True:
            try:
                name, patch, prop = q.get_nowait()
            except queue.Empty:
                return
            subprocess.run(['git', '-C', wt, 'checkout', '-q', '--', '.'])
            r = subprocess.run(['git', '-C', wt, 'apply', patch], capture_output=True, text=True)
            if r.returncode != 0:
                with lock:
                    res[name] = {'error': 'patch does not apply'}
                    print(name, 'PATCH DOES NOT APPLY', flush=True)
                continue
            fired = {}
            errors = {}
            for pid in pids:
                o = subprocess.run([f'{V}/check', pid], capture_output=True, text=True, cwd=V, env=env)
                if o.returncode == 1:
                    fired[pid] = sorted(set(re.findall(r'rule=(\S+)', o.stdout)))
                elif o.returncode != 0:
                    # the machinery failed on this tree: neither a detection nor a quiet run
                    errors[pid] = '<check error %d: %s>' % (o.returncode, o.stderr.strip()[-200:])
            with lock:
                if kind == 'seeds':
                    res[name] = {'property': prop, 'fired': fired, 'caught_by_own_property': bool(prop and prop in fired), 'caught': bool(fired)}
                    print(f"{name:42s} own={'Y' if prop and prop in fired else '-'} any={'Y' if fired else '-'}  {fired}" + (f'  CHECK-ERRORS {errors}' if errors else ''), flush=True)
                else:
                    res[name] = {'fired': fired}
                    print(f"{name:12s} {'ALARM ' + json.dumps(fired) if fired else 'quiet'}" + (f'  CHECK-ERRORS {errors}' if errors else ''), flush=True)
                if errors:
                    res[name]['check_errors'] = errors
                json.dump(dict(sorted(res.items())), open(out_path, 'w'), indent=1)
    finally:
        subprocess.run(['git', '-C', '/repo', 'worktree', 'remove', '--force', wt], capture_output=True)
        shutil.rmtree(f'{V}/.cache/target-default-mx{k}', ignore_errors=True)


ths = [threading.Thread(target=worker, args=(k,)) for k in range(min(jobs, len(items)))]
for t in ths:
    t.start()
for t in ths:
    t.join()
shutil.rmtree(MX, ignore_errors=True)
subprocess.run(['git', '-C', '/repo', 'worktree', 'prune'])
if kind == 'seeds':
    seeds = {k: v for k, v in res.items() if v.get('property')}
    print('seeds caught by own property:', sum(1 for v in seeds.values() if v.get('caught_by_own_property')), '/', len(seeds),
          ' by any:', sum(1 for v in seeds.values() if v.get('caught')), '/', len(seeds))
    print('reverts/mutants caught:', sum(1 for k, v in res.items() if not v.get('property') and v.get('caught')), '/', sum(1 for k, v in res.items() if not v.get('property') and 'error' not in v))
else:
    print('alarms:', sum(1 for v in res.values() if v.get('fired')), '/', len(res))
print('patches on which some check failed to run:', sum(1 for v in res.values() if v.get('check_errors')))
