"""C15 — selection modes and path predicates are mutually consistent."""
import report
from sym import Explorer, explore, show, subterms
from pat import called, canon, is_call, deref_all, agg_variant, const_of, strip_casts
from pathfacts import PathFacts, IntervalSet, INF
from mir import natural_loops, callee_name, reachable_from
from rules import buffers, editing
from rules.layout import cv

SEL = "jsonpath::selector::Selector::<'a>::"

EXPLANATION = (
    "Static analysis of jsonpath/selector.rs and the path entry points. R15.1: the eight entry points produce results only through "
    "Selector::{select, exists, predicate_match} -> find_positions and the three writers, and the selection mode is read nowhere but in "
    "select (so first/array/all/mixed and exists/predicate share one position computation). R15.2: the mode table of select, by path "
    "enumeration with the branch interval on the position count: predicate test first; All -> build_values; First -> truncate(1) then "
    "build_values; Array -> build_scalar_array; Mixed -> build_scalar_array exactly when the count is >= 2, else build_values. R15.3: offsets "
    "delimit items (R17.5) and build_scalar_array writes one entry word for every popped position (the back-patch loop lies on every path "
    "from a popped position to the next iteration). R15.4: exists/predicate_match/select test is_predicate() and derive the boolean from "
    "the same non-emptiness of the positions; build_predicate_result writes TRUE_TAG exactly when a position exists.")


def expanded_calls(f, b, sites=False, depth=0, seen=None, stop=()):
    """Callee names of a body, with the calls of private helper functions of this crate (functions::*, Selector::* that are
    not part of the selector's entry API) expanded in place."""
    seen = seen if seen is not None else set()
    out = []
    for _, t in b.calls():
        nm = callee_name(t)
        cb = f.bodies.get(nm)
        if cb is not None and cb.vis == 'private' and depth < 4 and nm not in seen and not called(nm, 'Selector::find_positions', *stop) \
                and (nm.startswith('functions::') or nm.startswith('jsonpath::selector::')):
            seen.add(nm)
            out.extend(expanded_calls(f, cb, sites, depth + 1, seen, stop))
        else:
            out.append(nm)
    return out if sites else list(dict.fromkeys(out))


def r15_6(ctx, run, rule='R15.6'):
    """What counts as a stand-alone predicate is decided by the parser (it builds Path::Predicate); JsonPath::is_predicate must
    not narrow that further than the evaluator does: every expression variant Selector::filter_expr evaluates (comparisons,
    &&/||, exists(..)) has to be reported as a predicate, otherwise select / path_match / path_exists treat it as an ordinary path."""
    f = ctx.facts
    fn = "jsonpath::path::JsonPath::<'a>::is_predicate"
    b = f.bodies.get(fn)
    if b is None:
        run.undecided(rule, fn, 'variants', 'function not found (anchor lost)')
        return
    loc = f'{b.file}:{b.line}'
    ad = f.adts.get('jsonpath::path::Expr', {})
    vs = [v['name'] for v in ad.get('variants', [])]
    ps, _ = explore(b)
    narrowed = []
    plain = 0
    for q in ps:
        if q.end[0] != 'return' or not (q.ret[0] == 'const' and q.ret[1] is True):
            continue
        inner = [c for c in q.conds if c[0][0] == 'discr' and any(s_[0] == 'downcast' and s_[2] == 'Predicate' for s_ in subterms(c[0]))]
        if inner:
            for c in inner:
                if c[1] == 'eq' and isinstance(c[2], int):
                    narrowed.append(vs[c[2]] if c[2] < len(vs) else str(c[2]))
                else:
                    narrowed.append('?')
        else:
            plain += 1
    if not narrowed and plain:
        run.proved(rule, fn, 'variants', 'every path whose single step is Path::Predicate is a predicate, whatever its expression', loc)
        return
    if not narrowed or '?' in narrowed or plain:
        run.undecided(rule, fn, 'variants', 'the paths on which is_predicate answers true were not recognised as tests of the Path / Expr variants: not decided', loc)
        return
    fb = f.bodies.get("jsonpath::selector::Selector::<'a>::filter_expr")
    if fb is None:
        run.undecided(rule, fn, 'variants', f'is_predicate accepts only expressions of variant {sorted(set(narrowed))} and Selector::filter_expr was not found to compare with: not decided', loc)
        return
    handled = set()
    from rules.buffers import is_err_return
    for q in explore(fb, max_paths=3000)[0]:
        if q.end[0] != 'return':
            continue
        top = [c for c in q.conds if c[0][0] == 'discr' and deref_all(c[0][1])[0] == 'init' and c[1] == 'eq' and isinstance(c[2], int)]
        if not top:
            continue
        direct_err = agg_variant(q.ret) and q.ret[1][2] == 'Err' and len(q.conds) <= 2
        if not direct_err:
            handled.add(vs[top[0][2]] if top[0][2] < len(vs) else str(top[0][2]))
    missing = sorted(handled - set(narrowed))
    if missing:
        run.violation(rule, fn, 'variants', f'is_predicate answers true only for expressions of variant {sorted(set(narrowed))}, but the evaluator (Selector::filter_expr) also evaluates {missing} as a boolean: '
                      f'a stand-alone `exists(..)` is then selected as an ordinary path instead of yielding its truth value', loc)
    else:
        run.proved(rule, fn, 'variants', f'is_predicate accepts {sorted(set(narrowed))}, which covers every variant the evaluator handles ({sorted(handled)})', loc)


def mode_read(ctx, run, rule='R15.1'):
    """The selection mode is consulted only by Selector::select: the position computation is shared by all modes."""
    f = ctx.facts
    # the mode is consulted only by select
    readers = []
    for p, b in f.bodies.items():
        if b.kind == 'Promoted' or not p.startswith('jsonpath::selector::'):
            continue
        hit = False
        for bl in b.blocks:
            for s in bl['stmts']:
                if s['k'] == 'assign':
                    for pl in places_of(s):
                        if any(e['k'] == 'field' and e.get('name') == 'mode' for e in pl.get('proj', [])):
                            hit = True
            t = bl['term']
            for pl in places_of_term(t):
                if any(e['k'] == 'field' and e.get('name') == 'mode' for e in pl.get('proj', [])):
                    hit = True
        if hit:
            readers.append(p)
    extra = [r for r in readers if not r.endswith('::select') and not r.endswith('::new')]
    if extra:
        for r in extra:
            b = f.bodies[r]
            run.violation(rule, r, 'mode-read', 'the selection mode is consulted outside Selector::select: the position computation shared by all modes, by exists and by '
                          'predicate_match now depends on the mode, so the modes no longer describe the same item list', f'{b.file}:{b.line}')
    else:
        run.proved(rule, SEL + 'select', 'mode-read', f'the mode field is read only in select ({len(readers)} reader(s))')


def check(ctx, run):
    f = ctx.facts
    run.rules_run = ['R15.1', 'R15.2', 'R15.3', 'R15.4', 'R15.5', 'R15.6']
    # ---- R15.1 funnel
    entry = ['functions::get_by_path', 'functions::get_by_path_first', 'functions::get_by_path_array', 'functions::path_exists', 'functions::path_match']
    allowed = ('Selector::new', 'Selector::select', 'Selector::exists', 'Selector::predicate_match', 'functions::is_jsonb', 'parser::parse_value', 'Value::to_vec',
               'Vec::as_slice', 'Deref::deref', 'Try::branch', 'FromResidual::from_residual')
    n = 0
    for e in entry:
        b = f.bodies.get(e)
        if b is None:
            run.undecided('R15.1', e, 'funnel', 'entry point not found (anchor lost)')
            continue
        n += 1
        calls = expanded_calls(f, b, stop=allowed)
        bad = sorted({canon(nm) for nm in calls if not called(nm, *allowed)})
        sel = sorted({canon(nm).split('::')[-1] for nm in calls if called(nm, 'Selector::select', 'Selector::exists', 'Selector::predicate_match')})
        ok = not bad and len(sel) == 1
        (run.proved if ok else run.violation)('R15.1', e, 'funnel', f'only Selector::{sel[0]} produces the result' if ok else f'calls outside the selector funnel: {bad}; selector methods used: {sel}', f'{b.file}:{b.line}')
    for m in ('select', 'exists', 'predicate_match'):
        b = f.bodies.get(SEL + m)
        if b is None:
            run.undecided('R15.1', SEL + m, 'funnel', 'method not found (anchor lost)')
            continue
        fp = [nm for nm in expanded_calls(f, b, sites=True) if called(nm, 'Selector::find_positions')]
        ok = len(fp) == 1
        if not fp:
            run.undecided('R15.1', SEL + m, 'positions', 'no call of find_positions was found in this method or its private helpers: where its positions come from is not decided', f'{b.file}:{b.line}')
        else:
            (run.proved if ok else run.violation)('R15.1', SEL + m, 'positions', 'positions come from one call of find_positions(root, None, paths)' if ok else f'{len(fp)} calls of find_positions', f'{b.file}:{b.line}')
    mode_read(ctx, run, 'R15.1')
    run.floor('R15.1', 'path entry points', n, 5)
    # ---- R15.2 mode table
    b = f.bodies.get(SEL + 'select')
    if b is not None:
        modes = [v['name'] for v in f.adts['jsonpath::selector::Mode']['variants']]
        ps, _ = explore(b)
        table = {}
        KNOWN_W = ('build_values', 'build_scalar_array', 'build_predicate_result')
        for p in ps:
            if p.end[0] != 'return' or is_call(deref_all(p.ret), 'FromResidual::from_residual'):
                continue
            writers = []
            limit = None
            for e in p.calls():
                nm = canon(e[1]).split('::')[-1]
                if called(e[1], 'Selector::build_values', 'Selector::build_scalar_array', 'Selector::build_predicate_result'):
                    writers.append(nm)
                elif nm in ('truncate', 'take') and len(e[2]) == 2 and const_of(e[2][1]) is not None:
                    limit = const_of(e[2][1])
                else:
                    c_ = e[5].get('callee', {}) if isinstance(e[5], dict) else {}
                    if c_.get('resolved_local') and nm not in ('find_positions', 'is_predicate', 'is_jsonb') and \
                            any(a.get('k') in ('copy', 'move') and 'Vec<u8>' in str(b.local_ty(a['place']['local']).get('s', '')) for a in e[5].get('args', [])):
                        writers.append('?' + nm)       # a crate-local function that receives the output buffer and is not a writer this rule knows by name
            pred = [c for c in p.conds if is_call(c[0], 'JsonPath::is_predicate')]
            md = [c for c in p.conds if c[0][0] == 'discr' and 'mode' in show(c[0])]
            if not writers:
                continue
            # `self.mode == Mode::X` tests on the same path must agree with the variant the match selects (the explorer does not relate them)
            if md and md[0][1] == 'eq':
                infeasible = False
                for c in p.conds:
                    t_ = c[0]
                    if t_[0] == 'call' and canon(t_[1]).split('::')[-1] in ('eq', 'ne') and len(t_[2]) == 2 and 'mode' in show(t_) and isinstance(c[2], bool):
                        k_ = [deref_all(a_) for a_ in t_[2]]
                        cst = [a_ for a_ in k_ if agg_variant(a_) and a_[1][1].endswith('Mode')] + [a_ for a_ in k_ if a_[0] == 'const' and isinstance(a_[1], int)]
                        if not cst:
                            continue
                        cv_ = cst[0]
                        vi = modes.index(cv_[1][2]) if agg_variant(cv_) and cv_[1][2] in modes else (cv_[1] if cv_[0] == 'const' else None)
                        if vi is None:
                            continue
                        same = (canon(t_[1]).split('::')[-1] == 'eq') == c[2]
                        if same != (md[0][2] == vi):
                            infeasible = True
                if infeasible:
                    continue
            if pred and pred[0][2] is True:
                key = 'predicate'
                rng = None
            elif md and md[0][1] == 'eq':
                key = modes[md[0][2]]
                # count interval for Mixed: whatever the path establishes about the number of positions
                cnt = None
                atoms = {strip_casts(x) for c in p.conds for x in subterms(c[0]) if is_call(strip_casts(x), 'VecDeque::len', 'Vec::len')}
                if atoms:
                    pf = PathFacts(p.conds, nonneg=lambda a: True)
                    try:
                        for atom in atoms:
                            r_ = pf.range_of_term(atom).intersect(IntervalSet([(0, INF)]))
                            cnt = r_ if cnt is None else cnt.intersect(r_)
                    except Exception:
                        cnt = None
                rng = cnt
            else:
                continue
            # mode must be tested only after the predicate test said "not a predicate"
            if key != 'predicate' and not (pred and pred[0][2] is False):
                table.setdefault(key, []).append((('<no predicate test first>',), rng, limit))
            else:
                table.setdefault(key, []).append((tuple(writers), rng, limit))
        loc = f'{b.file}:{b.line}'
        exp = {'predicate': ('build_predicate_result',), 'All': ('build_values',), 'First': ('build_values',), 'Array': ('build_scalar_array',)}
        for k, want in exp.items():
            rows = table.get(k, [])
            got = {w for w, r, l_ in rows}
            lims = {l_ for w, r, l_ in rows}
            if not rows or any(x.startswith('?') for w in got for x in w):
                run.undecided('R15.2', b.path, f'mode[{k}]', f'the writer run for mode {k} was not recognised by name ({sorted(got)}; renamed or restructured?): not decided', loc)
            elif got == {want} and (k != 'First' or lims == {1}) and (k == 'First' or lims <= {None}):
                run.proved('R15.2', b.path, f'mode[{k}]', ('keep 1 position then ' if k == 'First' else '') + want[0], loc)
            elif got == {want} and k == 'First' and lims == {None}:
                run.violation('R15.2', b.path, f'mode[{k}]', 'first mode writes the positions without limiting them to one: every selected item is returned', loc)
            elif got == {want} and k == 'First':
                run.violation('R15.2', b.path, 'mode[First]/count', f'first mode keeps {sorted(map(str, lims))} positions, not 1', loc)
            elif got == {want}:
                run.violation('R15.2', b.path, f'mode[{k}]', f'mode {k} limits the positions to {sorted(map(str, lims))} before writing them', loc)
            else:
                run.violation('R15.2', b.path, f'mode[{k}]', f'mode {k} runs {sorted(got)}, expected {want}', loc)
        mixed = table.get('Mixed', [])
        arr = IntervalSet([])
        val = IntervalSet([])
        unread_m = not mixed
        for w, r, l_ in mixed:
            if any(x.startswith('?') for x in w) or r is None:
                unread_m = True
                continue
            if w == ('build_scalar_array',):
                arr = arr.union(r)
            elif w == ('build_values',):
                val = val.union(r)
        ok = arr == IntervalSet([(2, INF)]) and val == IntervalSet([(0, 1)]) and all(w in (('build_scalar_array',), ('build_values',)) for w, r, l_ in mixed)
        if ok:
            run.proved('R15.2', b.path, 'mode[Mixed]', 'one array for >= 2 items, the items themselves for 0 or 1', loc)
        elif unread_m:
            run.undecided('R15.2', b.path, 'mode[Mixed]', 'how mixed mode chooses between one array and separate values was not read (writers renamed, or the count is tested in a form this rule does not read): not decided', loc)
        else:
            run.violation('R15.2', b.path, 'mode[Mixed]', f'mixed mode builds an array for counts {arr} and separate values for counts {val}; it must be [2,inf) and [0,1]', loc)
    else:
        run.undecided('R15.2', SEL + 'select', 'table', 'method not found (anchor lost)')
    # ---- R15.3 offsets and entry words
    buffers.r17_5(ctx, run, rule='R15.3')
    # positions written inside the output buffer by the selector writers are relative to the buffer length at the call (batch use)
    ba = buffers.BufferAnalysis(ctx)
    for e_ in ('functions::get_by_path', 'functions::get_by_path_first', 'functions::get_by_path_array', SEL + 'select'):
        ba.analyse_entry(e_)
    buffers.r17_2(ctx, run, ba, rule='R15.3/R17.2', floor=None)
    b = f.bodies.get(SEL + 'build_scalar_array')
    if b is not None:
        loops = natural_loops(b)
        heads = sorted(loops, key=lambda h: -len(loops[h]))
        ok = False
        why = 'expected an item loop containing an entry-word back-patch loop'
        bad = []
        nested = len(heads) >= 2 and set(loops[heads[1]]) < set(loops[heads[0]]) and any(
            called(callee_name(b.blocks[x]['term']), 'IndexMut::index_mut') for x in loops[heads[1]] if b.blocks[x]['term']['k'] == 'call')
        if nested:
            outer, inner = heads[0], heads[1]
            # blocks where a popped position is Some: successors of the switch on discr(pop_front)
            ex = Explorer(b)
            some_blocks = set()
            for p in ex.explore(start=outer, stop=set(loops)):
                for c in p.conds:
                    if c[0][0] == 'discr' and is_call(c[0][1], 'VecDeque::pop_front') and c[1] == 'eq' and c[2] == 1:
                        i = p.blocks.index(c[3]) if c[3] in p.blocks else None
                        if i is not None and i + 1 < len(p.blocks):
                            some_blocks.add(p.blocks[i + 1])
            bad = [s for s in some_blocks if outer in reachable_from(b, s, stop={inner})]
            has_patch = any(called(callee_name(b.blocks[x]['term']), 'IndexMut::index_mut') for x in loops[inner] if b.blocks[x]['term']['k'] == 'call')
            ok = bool(some_blocks) and not bad and has_patch
            if bad:
                why = 'a path from a popped position reaches the next iteration without passing the loop that writes its entry word: the reserved entry stays zero (null)'
        if ok:
            run.proved('R15.3', b.path, 'entry-word-per-item', 'every popped position passes through the entry back-patch loop before the next one', f'{b.file}:{b.line}')
        elif nested and bad:
            run.violation('R15.3', b.path, 'entry-word-per-item', why, f'{b.file}:{b.line}')
        else:
            run.undecided('R15.3', b.path, 'entry-word-per-item', 'the array writer is not an item loop over popped positions containing a byte-wise entry back-patch loop (the shape this rule reads): '
                          'whether every item gets its entry word is not decided here (R17.2/R17.5 still check the positions written)', f'{b.file}:{b.line}')
        # the jentry written carries the position's own type and length
        ex = Explorer(b)
        outer = heads[0] if heads else None
        kinds = {}
        for p in (ex.explore(start=outer, stop=set(loops)) if outer is not None else []):
            if p.end[0] != 'stop':
                continue
            for k, v in p.store.items():
                if k[0] == 'L' and b.name_of(k[1]) and v[0] == 'bin' and v[1] == 'BitOr' and str(b.local_ty(k[1]).get('s')) == 'u32':
                    var = [c for c in p.conds if c[0][0] == 'discr' and 'Some' in show(c[0]) and c[1] == 'eq']
                    kinds[var[-1][2] if var else '?'] = v
        okc = False
        wrong = None
        for vi, v in kinds.items():
            a, c = v[2], v[3]
            if const_of(a) == cv(f, 'CONTAINER_TAG') and 'Container' in show(c):
                okc = True
            elif const_of(a) is not None and 'Container' in show(c):
                wrong = f'a Container position gets the entry word {show(v)[:60]}: its type bits are not CONTAINER_TAG'
            elif const_of(a) is not None and 'Scalar' in show(c):
                wrong = f'a Scalar position gets the fixed type bits {const_of(a):#x} instead of the type recorded in the position'
            elif 'Scalar' in show(a) and 'Container' in show(c) or ('Container' in show(a) and 'Scalar' in show(c)):
                wrong = f'the entry word {show(v)[:60]} mixes the fields of two different positions'
        if not kinds:
            run.undecided('R15.3', b.path, 'entry-word-value', 'no entry word computed as `tag | length` in a local of the item loop was found: its value is not decided', f'{b.file}:{b.line}')
        elif wrong:
            run.violation('R15.3', b.path, 'entry-word-value', wrong, f'{b.file}:{b.line}')
        elif okc and len(kinds) >= 2:
            run.proved('R15.3', b.path, 'entry-word-value', 'CONTAINER_TAG | length for containers, type | length for scalars', f'{b.file}:{b.line}')
        else:
            run.undecided('R15.3', b.path, 'entry-word-value', f'entry words computed in the item loop: {[show(v)[:60] for v in kinds.values()]} — not the two `tag | length` forms this rule reads '
                          '(computed by a helper or in another pass?): their values are not decided here', f'{b.file}:{b.line}')
    # ---- R15.4 predicate consistency
    for m, on_pred, on_plain in (('exists', 'Ok(true)', 'nonempty'), ('predicate_match', 'nonempty', 'Err')):
        b = f.bodies.get(SEL + m)
        if b is None:
            continue
        ps, _ = explore(b)
        got = {}
        for p in ps:
            if p.end[0] != 'return' or is_call(deref_all(p.ret), 'FromResidual::from_residual'):
                continue
            pred = [c for c in p.conds if is_call(c[0], 'JsonPath::is_predicate')]
            if not pred:
                continue
            r = deref_all(p.ret)
            if agg_variant(r) and r[1][2] == 'Err':
                res = 'Err'
            elif agg_variant(r) and r[1][2] == 'Ok':
                v = r[2][0]
                if v[0] == 'const':
                    res = f'Ok({str(v[1]).lower()})'
                elif v[0] == 'un' and v[1] == 'Not' and is_call(v[2], 'VecDeque::is_empty'):
                    res = 'nonempty'
                else:
                    res = show(v)[:40]
            else:
                res = show(r)[:40]
            got[pred[0][2]] = res
        ok = got.get(True) == on_pred and got.get(False) == on_plain
        known_forms = {'Err', 'Ok(true)', 'Ok(false)', 'nonempty'}
        if not ok and (set(got) != {True, False} or any(v not in known_forms for v in got.values())):
            run.undecided('R15.4', b.path, 'predicate-split', f'outcomes by is_predicate() are not in a form this rule reads: {got}', f'{b.file}:{b.line}')
            continue
        (run.proved if ok else run.violation)('R15.4', b.path, 'predicate-split', f'predicate path -> {on_pred}, plain path -> {on_plain}' if ok else f'outcomes by is_predicate(): {got}', f'{b.file}:{b.line}')
    b = f.bodies.get(SEL + 'build_predicate_result')
    if b is not None:
        ps, _ = explore(b)
        got = {}
        for p in ps:
            if p.end[0] != 'return' or is_call(deref_all(p.ret), 'FromResidual::from_residual'):
                continue
            d = [c for c in p.conds if c[0][0] == 'discr' and is_call(c[0][1], 'VecDeque::pop_front')]
            ws = []
            for e in p.calls():
                if called(e[1], 'WriteBytesExt::write_u32') and len(e[2]) == 2:
                    ws.append(const_of(e[2][1]))
                elif called(e[1], 'Vec::extend_from_slice') and len(e[2]) == 2:
                    # the same word appended as `&x.to_be_bytes()`
                    for s_ in subterms(e[2][1]):
                        if s_[0] == 'call' and canon(s_[1]).endswith('to_be_bytes') and s_[2]:
                            ws.append(const_of(s_[2][0]))
            if d:
                got['some' if (d[0][1] == 'eq' and d[0][2] == 1) else 'none'] = ws
            else:
                # the same test written with is_some()/is_none()/is_empty()
                for c in p.conds:
                    t = c[0]
                    if isinstance(c[2], bool) and t[0] == 'call' and t[2]:
                        inner = deref_all(t[2][0])
                        if called(t[1], 'Option::is_some') and is_call(inner, 'VecDeque::pop_front'):
                            got['some' if c[2] else 'none'] = ws
                        elif called(t[1], 'Option::is_none') and is_call(inner, 'VecDeque::pop_front'):
                            got['none' if c[2] else 'some'] = ws
                        elif called(t[1], 'VecDeque::is_empty'):
                            got['none' if c[2] else 'some'] = ws
        ok = got.get('some') == [cv(f, 'SCALAR_CONTAINER_TAG'), cv(f, 'TRUE_TAG')] and got.get('none') == [cv(f, 'SCALAR_CONTAINER_TAG'), cv(f, 'FALSE_TAG')]
        if not ok and (set(got) != {'some', 'none'} or any(not v or None in v for v in got.values())):
            run.undecided('R15.4', b.path, 'boolean', f'the test "is there a position" was not recognised on the paths of this function (found {sorted(got)}): the words written are not decided', f'{b.file}:{b.line}')
        else:
            (run.proved if ok else run.violation)('R15.4', b.path, 'boolean', 'scalar header + TRUE_TAG iff a position exists, FALSE_TAG otherwise' if ok else f'words written: {got}', f'{b.file}:{b.line}')
    editing.r07_8(ctx, run, rule='R15.5/R07.8')
    r15_6(ctx, run)
    return report.finish(run, level='other', explanation=EXPLANATION, assumptions=["A1: valid documents"])


def places_of(s):
    out = [s['place']]
    rv = s['rv']
    for k in ('op', 'a', 'b'):
        if k in rv and isinstance(rv[k], dict) and rv[k].get('k') in ('copy', 'move'):
            out.append(rv[k]['place'])
    if 'place' in rv:
        out.append(rv['place'])
    for o in rv.get('ops', []):
        if o.get('k') in ('copy', 'move'):
            out.append(o['place'])
    return out


def places_of_term(t):
    out = []
    if t['k'] == 'switch' and t['discr'].get('k') in ('copy', 'move'):
        out.append(t['discr']['place'])
    if t['k'] == 'call':
        for a in t['args']:
            if a.get('k') in ('copy', 'move'):
                out.append(a['place'])
    return out
