#!/usr/bin/env python3
"""Print the prompt given to a sub-agent that produces BEHAVIOUR-PRESERVING changes near one property
(only the property text + its worktree).  Used to test the checks for false alarms."""
import json, sys
pid = sys.argv[1]
wt = sys.argv[2] if len(sys.argv) > 2 else f"/tmp/benign/{pid}"
for l in open('/verif/properties.jsonl'):
    p = json.loads(l)
    if p['id'] == pid:
        break
else:
    sys.exit("no such property")
mech = "\n".join(f"  - {m['name']} ({m['where']})" for m in p['anchors']['mechanism'])
print(f"""You are helping test a verification tool for FALSE ALARMS. You work ONLY inside the git worktree `{wt}` (a checkout of the Rust library b41sh/jsonb: a PostgreSQL-style binary JSONB encoding, JSON text parser, JSONPath parser/evaluator and byte-level JSONB functions). Do not touch `/repo` or `/verif`, and do not look into `/verif`. The sandbox is offline: always pass `--offline` to cargo. A warm `target/` directory is already in the worktree.

Here is a semantic property the library satisfies (or is meant to satisfy):

  id: {p['id']}
  title: {p['title']}
  statement: {p['statement']}
  quantified over: {p['quantifier']['text']}
  files involved: {', '.join(p['anchors']['files'])}
  mechanisms that make it hold:
{mech}
  observed at: {', '.join(p['anchors'].get('observe_at', []))}

YOUR TASK: produce THREE independent source changes ("R1", "R2", "R3") under `{wt}/src`, each touching the code these mechanisms live in, each of which a maintainer might realistically make, and each of which KEEPS THE PROPERTY TRUE FOR EVERY INPUT (it must not change any observable behaviour that the property constrains; ideally it changes no observable behaviour at all). The crate must still compile and the existing test suite must still pass. They are 20-80 line restructurings of the kind in which a slip is easy (a swapped argument, a bound shifted by one, one place of several transformed wrongly) - yours must contain NO such slip; three different kinds:

  R1 (extract or merge functions / change a private interface): pull a repeated block into a private helper, merge two sibling functions behind a parameter or enum, replace out-parameters or loose offset variables by a returned tuple or a small cursor struct, turn a free function into a method — keeping every caller's special case, every argument in its place and every step that only one of the merged copies had. Prefer blocks that decide something (which kind a document is, how an index is resolved, how an entry and its payload are paired, what is written into the output buffer).
  R2 (re-express an algorithm with other control flow or another idiom): index loop to iterator adaptors (`zip`, `take`, `skip`, `chunks_exact`, `position`, `any`/`all`, `filter_map`), recursion to a work list or back, nested `if`s to a `match` on a tuple, a `while` with a manual cursor to `split_at`/`split_first`/`get(..)`, `VecDeque::pop_front` plumbing to slices — with exactly the same bounds, the same first/last element, the same short-circuit point and the same order of effects.
  R3 (one mechanical transformation applied across several places, every place transformed correctly): `as` casts to `try_from`/`from` (or back) where the value provably fits, explicit comparisons to `matches!`/range patterns with exactly the same set, `Option`/`Result` plumbing to `?`/`ok_or`/`map_err` with the same error values, magic numbers gathered into named constants or a table with every row right, byte-wise copy loops to `copy_from_slice`/`to_be_bytes` at the same positions.
Each change should be 20-80 changed lines, touch a different function than the other two where possible, and must not change tests, Cargo.toml, public signatures or documented behaviour. Do NOT include anything that weakens a check, changes a constant's value, changes which inputs are accepted/rejected, or alters output bytes/text in any case — if you are not sure a rewrite is equivalent in every edge case (empty input, maximum lengths, negative/extreme integers, NaN/-0.0, nested/empty containers, invalid input), choose a different rewrite.

For each of R1, R2, R3:
 1. Start from a clean tree (`git -C {wt} checkout -- src && git -C {wt} status --short` shows nothing under src/).
 2. Make the change under `{wt}/src`.
 3. Check it compiles and the existing suite still passes: `cd {wt} && cargo test --offline --no-fail-fast 2>&1 | grep -E "^test result|FAILED"` must show 2 passed in the unit tests and 69 passed / 1 failed in `tests/it` — the single failing test `functions::test_to_serde_json` fails on the unchanged tree too and must be the ONLY failure.
 4. Write a differential sanity test `{wt}/tests/benign_{{R1|R2|R3}}.rs` using only the public API of the `jsonb` crate that exercises the changed code on a good spread of inputs including edge cases and asserts concrete expected results that you first observed on the UNCHANGED tree (so the test passes both without and with your change). Run it both ways.
 5. Save the change with `git -C {wt} diff -- src > {wt}/benign_R1.diff` (paths relative to the repo root) and write `{wt}/benign_R1.md`: property id, what was changed, and a careful argument why behaviour is unchanged (or why the property still holds for every input), listing the edge cases you considered.
 6. Restore the tree (`git -C {wt} checkout -- src`) before starting the next one; leave the `tests/benign_*.rs`, `benign_*.diff`, `benign_*.md` files in place (untracked). NEVER use `git stash` (the stash is shared by all worktrees of this repository and other agents work in sibling worktrees).

Finish with a short report listing, for R1-R3: files/functions changed, a one-line description, and the outcomes of the runs.""")
