#!/usr/bin/env python3
"""Regenerate the seeded-changes table of DESIGN.md from seeded/RESULTS.json."""
import json, re, os
V='/verif'
res=json.load(open(f'{V}/seeded/RESULTS.json'))
rows=['| change | breaks | caught by its own property (rules) | also reported by |','|---|---|---|---|']
for name in sorted(res):
    r=res[name]
    if 'error' in r:
        rows.append(f'| {name} | — | patch does not apply on the current tree | |'); continue
    prop=r.get('property')
    fired=r.get('fired',{})
    own=', '.join(fired.get(prop,[])) if prop else ''
    others='; '.join(f"{k}: {', '.join(v)}" for k,v in sorted(fired.items()) if k!=prop)
    what=''
    mp=f'{V}/seeded/{name}/notes.md'
    rows.append(f"| {name} | {prop or 'regression'} | {('**yes** — '+own) if own else ('—' if prop else '')} | {others} |")
seeds={k:v for k,v in res.items() if v.get('property')}
summary=f"\n{sum(1 for v in seeds.values() if v.get('caught_by_own_property'))} of {len(seeds)} seeded changes are reported by the check of the property they were written to break; {sum(1 for v in seeds.values() if v.get('caught'))} of {len(seeds)} by at least one check.  All reverted fixes are reported again.\n"
p=f'{V}/DESIGN.md'
s=open(p).read()
s=re.sub(r'<!-- SEED-TABLE-BEGIN -->.*?<!-- SEED-TABLE-END -->', '<!-- SEED-TABLE-BEGIN -->\n'+'\n'.join(rows)+'\n'+summary+'<!-- SEED-TABLE-END -->', s, flags=re.S)
open(p,'w').write(s)
print(summary)
