"""C04 / C14 rules about the document order: rank table, kind-pair dispatch, argument order, tie-breaks."""
from sym import Explorer, explore, show, lin, subterms
from pat import called, canon, is_call, deref_all, strip_casts, agg_variant, const_of
from mir import natural_loops
from rules.layout import cv
import prov

LEVELS = ['NULL_LEVEL', 'ARRAY_LEVEL', 'OBJECT_LEVEL', 'STRING_LEVEL', 'NUMBER_LEVEL', 'TRUE_LEVEL', 'FALSE_LEVEL', 'INVALID_LEVEL']


def ordering_of(t):
    """'Less'|'Equal'|'Greater' if t is Ok(Ordering::X) / Ordering::X"""
    t = deref_all(t)
    if agg_variant(t) and t[1][2] == 'Ok' and t[2]:
        t = t[2][0]
    if agg_variant(t) and t[1][1].endswith('cmp::Ordering'):
        return t[1][2]
    # a comparison of two constants (`ARRAY_LEVEL.cmp(&OBJECT_LEVEL)`) is the constant it evaluates to
    t = deref_all(t)
    if t[0] == 'call' and canon(t[1]).endswith('Ord::cmp') and len(t[2]) == 2:
        a, b = const_of(deref_all(t[2][0])), const_of(deref_all(t[2][1]))
        if isinstance(a, int) and isinstance(b, int) and not isinstance(a, bool) and not isinstance(b, bool):
            return 'Less' if a < b else ('Greater' if a > b else 'Equal')
    return None


def is_err(t):
    return agg_variant(t) and t[1][2] == 'Err'


REV = {'Less': 'Greater', 'Greater': 'Less', 'Equal': 'Equal'}


def r04_1(ctx, run, rule='R04.1'):
    f = ctx.facts
    vals = [cv(f, n) for n in LEVELS]
    if any(v is None for v in vals):
        run.undecided(rule, 'constants', 'levels', 'rank constants not found (anchor lost)')
        return
    ok = all(vals[i] > vals[i + 1] for i in range(len(vals) - 1))
    (run.proved if ok else run.violation)(rule, 'constants::*_LEVEL', 'rank-order', 'Null > Array > Object > String > Number > true > false > invalid' if ok else
                                           f'the rank constants {dict(zip(LEVELS, vals))} are not strictly decreasing in the documented order')
    b = f.one('functions::jentry_compare_level')
    if b is None:
        run.undecided(rule, 'functions::jentry_compare_level', 'table', 'function not found (anchor lost)')
        return
    ps, _ = explore(b)
    table = {}
    for p in ps:
        if p.end[0] != 'return':
            continue
        c = [x for x in p.conds if 'type_code' in show(x[0])]
        lv = const_of(p.ret)
        if c and c[0][1] == 'eq':
            table[c[0][2]] = lv
        elif c:
            table['otherwise'] = lv
    g = lambda n: cv(f, n)
    exp = {g('NULL_TAG'): g('NULL_LEVEL'), g('STRING_TAG'): g('STRING_LEVEL'), g('NUMBER_TAG'): g('NUMBER_LEVEL'), g('TRUE_TAG'): g('TRUE_LEVEL'),
           g('FALSE_TAG'): g('FALSE_LEVEL'), 'otherwise': g('INVALID_LEVEL')}
    names = {g(n): n for n in ('NULL_TAG', 'STRING_TAG', 'NUMBER_TAG', 'TRUE_TAG', 'FALSE_TAG', 'CONTAINER_TAG')}
    for k, v in exp.items():
        got = table.get(k)
        d = f'level[{names.get(k, k)}]'
        (run.proved if got == v else run.violation)(rule, b.path, d, f'= {v}' if got == v else f'entry kind {names.get(k, k)} is ranked {got}, its rank constant is {v}', f'{b.file}:{b.line}')
    cl = table.get(g('CONTAINER_TAG'))
    ok = cl in (g('ARRAY_LEVEL'), g('OBJECT_LEVEL'))
    (run.proved if ok else run.violation)(rule, b.path, 'level[CONTAINER_TAG]', 'containers rank between null and string (array vs object is decided by compare_container)' if ok else
                                           f'nested containers are ranked {cl}, not between NULL_LEVEL and STRING_LEVEL', f'{b.file}:{b.line}')


def header_pair(p, f, body):
    """(left kind, right kind) tested on a path of compare/compare_container: kinds 'S','A','O' or None(otherwise)."""
    tags = {cv(f, 'SCALAR_CONTAINER_TAG'): 'S', cv(f, 'ARRAY_CONTAINER_TAG'): 'A', cv(f, 'OBJECT_CONTAINER_TAG'): 'O'}
    out = {}
    for c in p.conds:
        t = c[0]
        if t[0] == 'bin' and t[1] == 'BitAnd' and any(x[0] == 'const' and x[1] == 0xE0000000 for x in (t[2], t[3])):
            side = term_side(t, body)
            if c[1] == 'eq':
                out.setdefault(side, set()).add(tags.get(c[2], c[2]))
    return out


def outcome(p):
    r = p.ret
    o = ordering_of(r)
    if o:
        return o
    if is_err(r):
        return 'Err'
    rr = deref_all(r)
    if rr[0] == 'call':
        n = canon(rr[1]).split('::')[-1]
        if n in ('compare_scalar', 'compare_array', 'compare_object', 'compare_container', 'compare'):
            return n
        if n == 'from_residual':
            return '?err'
    return show(r)[:40]


def term_side(t, body):
    """'L' / 'R' / '?' : which operand of the (symmetric) comparator `body` the value derives from, by parameter
    provenance (prov.sides: first half of the parameters = left operand, second half = right operand)."""
    sd = prov.sides(body) or {}
    l = r = False
    for s in subterms(t):
        if s[0] in ('init', 'hav') and len(s) > 1 and isinstance(s[1], int):
            v = sd.get(s[1])
            if v in ('L', 'LR'):
                l = True
            if v in ('R', 'LR'):
                r = True
    return 'L' if l and not r else 'R' if r and not l else '?'


def arg_sides(call_t, body):
    """for a comparator call: 'L'/'R'/'?' per argument"""
    return [term_side(a, body) for a in call_t[2]]


def r04_2(ctx, run, rule='R04.2'):
    f = ctx.facts
    for fn, expect in (('functions::compare', {
            ('S', 'S'): {'compare_scalar'}, ('A', 'A'): {'compare_array'}, ('O', 'O'): {'compare_object'},
            ('A', 'O'): {'Greater'}, ('O', 'A'): {'Less'},
            ('S', 'A'): {'Greater', 'Less'}, ('S', 'O'): {'Greater', 'Less'}, ('A', 'S'): {'Greater', 'Less'}, ('O', 'S'): {'Greater', 'Less'}}),
            ('functions::compare_container', {('A', 'A'): {'compare_array'}, ('O', 'O'): {'compare_object'}, ('A', 'O'): {'Greater'}, ('O', 'A'): {'Less'}})):
        b = f.one(fn)
        if b is None:
            run.undecided(rule, fn, 'dispatch', 'function not found (anchor lost)')
            continue
        ps, capped = explore(b, max_paths=6000)
        table = {}
        nullsplit = {}
        for p in ps:
            if p.end[0] != 'return':
                continue
            # only the binary part of compare (both arguments sniffed as JSONB)
            sn = [c for c in p.conds if is_call(c[0], 'functions::is_jsonb')]
            if sn and not all(c[2] is True for c in sn):
                continue
            hp = header_pair(p, f, b)
            if 'L' not in hp or 'R' not in hp:
                if hp and outcome(p) == 'Err':
                    table.setdefault('otherwise', set()).add('Err')
                continue
            o = outcome(p)
            if o == '?err':
                continue
            for lk in hp['L']:
                for rk in hp['R']:
                    table.setdefault((lk, rk), set()).add(o)
                    if (lk == 'S') != (rk == 'S') and o in ('Greater', 'Less'):
                        # which side's entry is tested for NULL?
                        from pat import as_eq
                        isnull = False
                        for c in p.conds:
                            q_ = as_eq(c)
                            if q_ is not None and 'type_code' in show(q_[0]) and q_[1] == 0 and q_[2]:
                                isnull = True
                        nullsplit.setdefault((lk, rk), {})[isnull] = o
            # argument order of the delegating calls
            rr = deref_all(p.ret)
            if rr[0] == 'call' and canon(rr[1]).split('::')[-1] in ('compare_scalar', 'compare_array', 'compare_object', 'compare_container'):
                sides = arg_sides(rr, b)
                want = ['L', 'L', 'R', 'R'] if len(rr[2]) == 4 else ['L', 'R']
                okk = all(s == w or s == '?' for s, w in zip(sides, want)) and sides.count('?') <= 1
                d = f'args[{canon(rr[1]).split("::")[-1]}]'
                (run.proved if okk else run.violation)(rule, fn, d, 'left operands first, right operands second' if okk else
                                                        f'the comparator is called with operands in the order {sides}, not (left, left, right, right): the result is the reverse order', f'{b.file}:{b.line}')
        loc = f'{b.file}:{b.line}'
        if not any(isinstance(k, tuple) for k in table):
            run.undecided(rule, fn, 'dispatch', 'no path of this function tests the container kind of both operands: the kind-pair dispatch is not written here '
                          '(moved to a helper?), so its table is not decided', loc)
            continue
        for k, v in expect.items():
            got = table.get(k)
            d = f'pair[{k[0]},{k[1]}]'
            if got == v:
                run.proved(rule, fn, d, f'-> {sorted(v)}', loc)
            elif got == {'compare_container'} and k[0] in 'AO' and k[1] in 'AO' and fn.endswith('::compare'):
                run.proved(rule, fn, d, '-> compare_container (whose own table is checked below)', loc)
            elif got and any(x not in ('Less', 'Greater', 'Equal', 'Err', 'compare_scalar', 'compare_array', 'compare_object', 'compare_container', 'compare') for x in got):
                run.undecided(rule, fn, d, f'the kind pair ({k[0]},{k[1]}) is decided by {sorted(got)}, which this rule does not follow (expected {sorted(v)})', loc)
            else:
                run.violation(rule, fn, d, f'the kind pair ({k[0]},{k[1]}) must give {sorted(v)}, found {sorted(got) if got else "no arm"}', loc)
        # scalar vs container: Null outranks containers, every other scalar is below them; and the two directions mirror each other
        if fn.endswith('::compare'):
            for (lk, rk), m in sorted(nullsplit.items()):
                d = f'null-split[{lk},{rk}]'
                if lk == 'S':
                    ok = m.get(True) == 'Greater' and m.get(False) == 'Less'
                else:
                    ok = m.get(True) == 'Less' and m.get(False) == 'Greater'
                (run.proved if ok else run.violation)(rule, fn, d, 'null scalar ranks above the container, any other scalar below' if ok else
                                                       f'scalar-vs-container outcome is {m} (key: scalar is null?), which contradicts Null > Array > Object > other scalars', loc)
        # antisymmetry of constant outcomes
        for k, v in table.items():
            if k == 'otherwise' or not isinstance(k, tuple):
                continue
            mirror = table.get((k[1], k[0]))
            consts = {x for x in v if x in REV}
            if consts and mirror is not None:
                mc = {x for x in mirror if x in REV}
                if {REV[x] for x in consts} != mc:
                    run.violation(rule, fn, f'antisymmetry[{k[0]},{k[1]}]', f'({k[0]},{k[1]}) gives {sorted(consts)} but ({k[1]},{k[0]}) gives {sorted(mc)}', loc)


def r04_2b(ctx, run, rule='R04.2'):
    """compare_scalar: rank comparison first, then same-kind arms with operands in (left, right) order."""
    f = ctx.facts
    b = f.one('functions::compare_scalar')
    if b is None:
        run.undecided(rule, 'functions::compare_scalar', 'arms', 'function not found (anchor lost)')
        return
    g = lambda n: cv(f, n)
    names = {g(n): n for n in ('NULL_TAG', 'STRING_TAG', 'NUMBER_TAG', 'TRUE_TAG', 'FALSE_TAG', 'CONTAINER_TAG')}
    ps, _ = explore(b)
    loc = f'{b.file}:{b.line}'
    arms = {}
    for p in ps:
        if p.end[0] != 'return':
            continue
        lv = [c for c in p.conds if c[0][0] == 'bin' and c[0][1] == 'Ne' and all(is_call(x, 'functions::jentry_compare_level') for x in (c[0][2], c[0][3]))]
        if lv and lv[0][2] is True:
            r = deref_all(p.ret)
            inner = r[2][0] if agg_variant(r) and r[1][2] == 'Ok' else r
            inner = deref_all(inner)
            ok = inner[0] == 'call' and canon(inner[1]).endswith('Ord::cmp') and arg_sides(inner, b)[:2] == ['L', 'R']
            (run.proved if ok else run.violation)(rule, b.path, 'rank-compare', 'left_level.cmp(&right_level)' if ok else f'different kinds are ordered by {show(inner)[:80]}, not left rank vs right rank', loc)
            continue
        tcs = [c for c in p.conds if 'type_code' in show(c[0]) and c[1] == 'eq']
        if len(tcs) >= 2:
            key = (names.get(tcs[0][2], tcs[0][2]), names.get(tcs[1][2], tcs[1][2]))
            arms.setdefault(key, []).append(p)
    exp = {('NULL_TAG', 'NULL_TAG'): 'Equal', ('TRUE_TAG', 'TRUE_TAG'): 'Equal', ('FALSE_TAG', 'FALSE_TAG'): 'Equal',
           ('CONTAINER_TAG', 'CONTAINER_TAG'): 'compare_container', ('STRING_TAG', 'STRING_TAG'): 'cmp', ('NUMBER_TAG', 'NUMBER_TAG'): 'cmp'}
    for k, want in exp.items():
        got = arms.get(k)
        d = f'arm[{k[0]}]'
        if not got:
            run.undecided(rule, b.path, d, 'no arm comparing two entries of this kind was recognised (anchor lost): not decided', loc)
            continue
        ok = False
        why = ''
        for p in got:
            r = deref_all(p.ret)
            if is_call(r, 'FromResidual::from_residual'):
                continue
            o = ordering_of(r)
            if want == 'Equal':
                ok = o == 'Equal'
                why = f'returns {o or show(r)[:40]}'
            elif want == 'compare_container':
                ok = False
                if r[0] == 'call' and canon(r[1]).endswith('compare_container'):
                    # (left, right), or (left_header, left, right_header, right) when the caller reads the headers
                    sides = arg_sides(r, b)
                    wanted = ['L', 'L', 'R', 'R'] if len(sides) == 4 else ['L', 'R'] if len(sides) == 2 else None
                    if wanted is None or sides.count('?') > 1:
                        ok = None
                    else:
                        ok = all(s_ == w_ or s_ == '?' for s_, w_ in zip(sides, wanted))
                why = show(r)[:60]
            else:
                inner = r[2][0] if agg_variant(r) and r[1][2] == 'Ok' else r
                inner = deref_all(inner)
                ok = inner[0] == 'call' and canon(inner[1]).endswith('Ord::cmp') and arg_sides(inner, b)[:2] == ['L', 'R']
                if ok and k[0] == 'NUMBER_TAG':
                    ok = all(any(is_call(s, 'Number::decode') for s in subterms(a)) for a in inner[2][:2])
                why = show(inner)[:80]
        if ok is None:
            run.undecided(rule, b.path, d, f'two {k[0]} entries are handed to {why}, whose parameter list this rule does not know: operand order not decided', loc)
            continue
        (run.proved if ok else run.violation)(rule, b.path, d, {'Equal': 'Equal', 'compare_container': 'compare_container(left operands, right operands)', 'cmp': 'left.cmp(right) on decoded values'}[want] if ok else
                                               f'two {k[0]} entries are compared by {why}', loc)


def is_length_term(a, body, f):
    """the value is a container header masked with CONTAINER_HEADER_LEN_MASK (directly, or a local defined so)"""
    from mir import Expr, walk
    mask = cv(f, 'CONTAINER_HEADER_LEN_MASK')
    for s in subterms(a):
        if s[0] == 'bin' and s[1] == 'BitAnd' and any(x[0] == 'const' and x[1] == mask for x in (s[2], s[3])):
            return True
        if s[0] in ('init', 'hav') and isinstance(s[1], int):
            e = Expr(body, expand_named=True).local(s[1])
            for w in walk(e):
                if w[0] == 'bin' and w[1] == 'BitAnd' and any(x[0] == 'const' and x[1] == mask for x in (w[3], w[4])):
                    return True
    return False


def r04_6(ctx, run, rule='R04.6'):
    """Element loops: a non-Equal element result is returned as is; the fall-through is left_length.cmp(right_length)."""
    f = ctx.facts
    for fn in ('functions::compare_array', 'functions::compare_object'):
        b = f.one(fn)
        if b is None:
            run.undecided(rule, fn, 'tie-break', 'function not found (anchor lost)')
            continue
        loops = natural_loops(b)
        ex = Explorer(b, max_paths=4000)
        tb = 0
        el = 0
        for s0 in sorted(loops):
            for p in ex.explore(start=s0, stop=set(loops)):
                if p.end[0] != 'return':
                    continue
                r = deref_all(p.ret)
                if is_call(r, 'FromResidual::from_residual'):
                    continue
                inner = r[2][0] if agg_variant(r) and r[1][2] == 'Ok' and r[2] else None
                if inner is None:
                    continue
                inner = deref_all(inner)
                if inner[0] == 'call' and canon(inner[1]).endswith('Ord::cmp'):
                    tb += 1
                    sides = arg_sides(inner, b)[:2]
                    lens = all(is_length_term(a, b, f) for a in inner[2][:2])
                    ok = sides == ['L', 'R'] and lens
                    if ok:
                        run.proved(rule, fn, 'tie-break', 'left_length.cmp(&right_length) after a common prefix of equal elements', f'{b.file}:{b.line}')
                    elif sides == ['R', 'L'] or (sides[:1] == sides[1:2] and sides and sides[0] in ('L', 'R')):
                        run.violation(rule, fn, 'tie-break', f'after equal common prefixes the result is {show(inner)[:80]}: the operands are not (left, right) in this order', f'{b.file}:{b.line}')
                    elif sides == ['L', 'R']:
                        run.undecided(rule, fn, 'tie-break', f'after equal common prefixes the result is {show(inner)[:80]}: left against right, but the operands were not recognised as the two '
                                      'element counts (carried in a struct or computed by a helper?): not decided', f'{b.file}:{b.line}')
                    else:
                        run.undecided(rule, fn, 'tie-break', f'after equal common prefixes the result is {show(inner)[:80]}: the sides of its operands could not be traced to the two documents', f'{b.file}:{b.line}')
                else:
                    # an element comparison result handed back: must be the value compared with Equal on this path
                    ne = [c for c in p.conds if c[0][0] == 'call' and canon(c[0][1]).endswith(('PartialEq::ne', 'PartialEq::eq'))]
                    elem_evidence = bool(ne) or any(s_[0] == 'call' and (canon(s_[1]).endswith(('Ord::cmp', 'PartialOrd::partial_cmp')) or 'compare' in canon(s_[1]).split('::')[-1])
                                                    for c in p.conds for s_ in subterms(c[0]))
                    if not elem_evidence and agg_variant(inner) and inner[1][1].endswith('cmp::Ordering'):
                        # a constant order on a path that tested no element result: the tie-break after the loop, spelled out by cases
                        tb += 1
                        want = None
                        for c in p.conds:
                            t = c[0]
                            if t[0] == 'bin' and t[1] in ('Lt', 'Gt', 'Le', 'Ge', 'Eq', 'Ne') and isinstance(c[2], bool):
                                sd = arg_sides(('call', 'x', (t[2], t[3])), b)[:2]
                                if sd in (['L', 'R'], ['R', 'L']) and all(is_length_term(a, b, f) for a in (t[2], t[3])):
                                    op = t[1]
                                    if sd == ['R', 'L']:
                                        op = {'Lt': 'Gt', 'Gt': 'Lt', 'Le': 'Ge', 'Ge': 'Le'}.get(op, op)
                                    rel = {('Lt', True): 'Less', ('Gt', True): 'Greater', ('Eq', True): 'Equal', ('Ne', False): 'Equal'}.get((op, c[2]))
                                    if rel:
                                        want = rel
                        if want is None:
                            run.undecided(rule, fn, 'tie-break', f'after equal common prefixes a constant {inner[1][2]} is returned under length tests this rule does not evaluate: not decided', f'{b.file}:{b.line}')
                        elif want == inner[1][2]:
                            run.proved(rule, fn, 'tie-break', f'{inner[1][2]} exactly when the left count is {want.lower()} (by comparison of the two counts)', f'{b.file}:{b.line}')
                        else:
                            run.violation(rule, fn, 'tie-break', f'after equal common prefixes {inner[1][2]} is returned on a path where the left count is {want.lower()} than / to the right count', f'{b.file}:{b.line}')
                        continue
                    el += 1
                    ok = any(deref_all(c[0][2][0]) == inner or inner in [deref_all(x) for x in c[0][2]] for c in ne) or is_call(inner, 'Try::branch') or inner[0] in ('field', 'downcast')
                    if ok:
                        run.proved(rule, fn, 'element-result', 'the first non-Equal element/key/value order is returned unchanged', f'{b.file}:{b.line}')
                    elif is_call(inner, 'Ordering::reverse') or (agg_variant(inner) and inner[1][1].endswith('cmp::Ordering')):
                        run.violation(rule, fn, 'element-result', f'a non-Equal element result is returned as {show(inner)[:80]}', f'{b.file}:{b.line}')
                    else:
                        run.undecided(rule, fn, 'element-result', f'the value returned from inside the element loop ({show(inner)[:80]}) was not recognised as the element comparison result tested on '
                                      'this path: not decided', f'{b.file}:{b.line}')
        run.floor(rule, f'tie-break returns in {fn.split("::")[-1]}', tb, 1)


# ------------------------------------------------------------------ R04.8 each side's cursor is moved by that side's own entries

def report_is_baseline(path):
    import report as _report
    return _report.is_baseline_fn(path)


def r04_8(ctx, run, rule='R04.8'):
    """In the symmetric walkers compare_array / compare_object (parameters = left half, right half) a value that belongs to one operand —
    an offset variable, a cursor struct — is updated only with quantities of the same operand: `right_offset += left_entry.length`, or
    `right_cursor.advance(&left_entry)`, reads the right document at offsets measured on the left one.  Decided by parameter provenance
    computed *without* the update under test (a flow-insensitive provenance would let the update itself mix the sides)."""
    f = ctx.facts
    n = 0
    # the two walkers, and every private helper of the comparison cone whose parameter list is mirrored (first half / second half have the
    # same types): an extracted `compare_entry(left, left_off, &mut left_val, right, right_off, &mut right_val)`
    fns = ['functions::compare_array', 'functions::compare_object']
    for x_ in sorted(ctx.cg.reachable(['functions::compare'])):
        bx = f.bodies.get(x_)
        if bx is None or bx.kind == 'Promoted' or '::{closure' in x_ or not x_.startswith('functions::') or x_ in fns or x_ == 'functions::compare' or report_is_baseline(x_):
            continue
        if bx.argc >= 4 and bx.argc % 2 == 0:
            h_ = bx.argc // 2
            if [str(bx.local_ty(k).get('s')) for k in range(1, h_ + 1)] == [str(bx.local_ty(k).get('s')) for k in range(h_ + 1, bx.argc + 1)]:
                fns.append(x_)
    for fn in fns:
        b = f.one(fn) if fn in ('functions::compare_array', 'functions::compare_object') else f.bodies.get(fn)
        if b is None:
            run.undecided(rule, fn, 'side-hygiene', 'function not found (anchor lost)')
            continue
        if b.argc % 2:
            run.undecided(rule, fn, 'side-hygiene', 'the function no longer takes a left half and a right half of parameters: sides are not defined', f'{b.file}:{b.line}')
            continue
        half = b.argc // 2
        edges, mutref = prov.prov(b, skip='edges')

        def side_of(P, locs):
            s_ = set()
            for l in locs:
                s_ |= P.get(l, set())
            hl = any(a <= half for a in s_)
            hr = any(a > half for a in s_)
            return 'LR' if hl and hr else 'L' if hl else 'R' if hr else None
        bad = []
        for i, e in enumerate(edges):
            if e[0] == 'mut':
                # a call that receives `&mut X` (or a method on it) together with other arguments: X may be updated from them
                x, others = e[1], e[2]
            elif e[0] == '*':
                # a store through a reference (`*right_val_offset += ..`): the value behind a parameter of one side
                dst, src = e[1], e[2]
                if not (1 <= dst <= b.argc):
                    continue
                full = set(src)
                for _ in range(4):
                    more = set()
                    for t_ in list(full):
                        if b.name_of(t_) is None and t_ > b.argc:
                            for e2 in edges:
                                if e2[0] not in ('mut', '*') and e2[0] == t_:
                                    more |= e2[1]
                    if more <= full:
                        break
                    full |= more
                others = {t_ for t_ in full if t_ != dst and (b.name_of(t_) is not None or t_ <= b.argc)}
                if not others:
                    continue
                x = dst
            else:
                dst, src = e
                if b.name_of(dst) is None:
                    continue          # a compiler temporary: judged where it reaches a named value
                # look through the temporaries of `x += y` / `x = x + y` (checked add, tuple field, cast)
                full = set(src)
                for _ in range(4):
                    more = set()
                    for t_ in list(full):
                        if b.name_of(t_) is None and t_ > b.argc:
                            for e2 in edges:
                                if e2[0] not in ('mut', '*') and e2[0] == t_:
                                    more |= e2[1]
                    if more <= full:
                        break
                    full |= more
                if dst not in full:
                    continue          # not an update of a value by itself and something else
                others = {t_ for t_ in full if t_ != dst and (b.name_of(t_) is not None or t_ <= b.argc)}
                if not others:
                    continue
                x = dst
            if not others:
                continue
            P = prov.prov(b, skip=i)
            targets = mutref.get(x) or {x}
            sx = side_of(P, targets)
            so = side_of(P, others)
            if sx in ('L', 'R') and so in ('L', 'R'):
                n += 1
                if sx != so:
                    nm = b.name_of(next(iter(targets))) or f'_{next(iter(targets))}'
                    on = sorted(b.name_of(o) or f'_{o}' for o in others)
                    bad.append((nm, sx, so, on))
        loc = f'{b.file}:{b.line}'
        if bad:
            nm, sx, so, on = bad[0]
            run.violation(rule, fn, 'side-hygiene', f'`{nm}`, which belongs to the {"left" if sx == "L" else "right"} operand, is updated from {on}, which belong(s) to the '
                          f'{"left" if so == "L" else "right"} operand: the {"left" if sx == "L" else "right"} document is then read at offsets measured on the other one', loc)
        else:
            run.proved(rule, fn, 'side-hygiene', 'every update of a value that belongs to one operand uses quantities of the same operand', loc)
    run.count('side_updates', n)
