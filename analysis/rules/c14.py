"""C14 — the comparable key sorts bytewise exactly as compare orders documents (structural clauses; several known findings)."""
import report
from sym import Explorer, explore, show, subterms, lin
from pat import called, canon, is_call, deref_all, agg_variant, const_of, strip_casts
from mir import natural_loops, callee_name
from rules import editing, ordering, walkers, intarith, recursion, buffers, dispatch, numcodec
from rules.layout import cv

CONE = ['functions::convert_to_comparable', 'functions::scalar_convert_to_comparable', 'functions::array_convert_to_comparable', 'functions::object_convert_to_comparable']
EXPLANATION = (
    "Static analysis of convert_to_comparable and its three helpers. R14.1: the numeric image must be injective on numbers that compare unequal: a "
    "64-bit integer converted to f64 (as_f64) on the way into the key is reported (KNOWN: 2^53 and 2^53+1 share a key), as is to_bits of a float that "
    "may be -0.0 (KNOWN: -0.0 and 0 compare Equal but differ in the key). R14.2: rank bytes written are compare's own ranks (jentry_compare_level, "
    "ARRAY_LEVEL, OBJECT_LEVEL; R04.1). R14.3: a variable-length payload appended to the key must be followed by a terminator before the next "
    "element's marker (KNOWN: raw string bytes are followed directly by the next depth byte). R14.4: depth + 1 on u8 (KNOWN: nesting deeper than 255 "
    "overflows). R14.5: the order-preserving image of the f64 bits is structurally v = s ^ (((s >> 63) as u64) >> 1), b[0] ^= 0x80 on the big-endian bytes. "
    "R14.6: every element (scalars, keys, values, nested containers) is emitted through scalar_convert_to_comparable, so each carries its depth and rank "
    "bytes; the array/object helpers append nothing themselves. R14.7: walker discipline of the helpers. R14.8: the argument is dispatched on its "
    "representation (R11.1). R14.9: the order compare puts on numbers is the order of their values (R18.4: exact mixed comparisons), which is what the float image of the key follows. NOT decided: the order embedding itself.")


def check(ctx, run):
    f = ctx.facts
    run.rules_run = ['R14.1', 'R14.2', 'R14.3', 'R14.4', 'R14.5', 'R14.6', 'R14.7', 'R14.8', 'R14.9']
    g = lambda n: cv(f, n)
    b = f.bodies.get(CONE[1])
    if b is None:
        run.undecided('R14.2', CONE[1], 'body', 'function not found (anchor lost)')
        return report.finish(run, level='other', explanation=EXPLANATION)
    paths, loops = editing.region_paths(b)
    loc = f'{b.file}:{b.line}'
    lossy = to_bits = False
    sign_cast = None
    formula_unread = False
    float_select = False
    const_image = []
    formula_ok = None
    rank_ok = True
    rank_unread = None
    string_raw = False
    n_paths = 0
    for q in paths:
        if q.end[0] != 'return':
            continue
        n_paths += 1
        pushes = [e for e in q.calls() if called(e[1], 'Vec::push', 'Vec::extend_from_slice') and e[2] and deref_all(e[2][0])[0] == 'init']
        tc = [c for c in q.conds if 'type_code' in show(c[0])]
        is_container = any(c[1] == 'eq' and c[2] == g('CONTAINER_TAG') for c in tc)
        # first byte pushed is the depth
        if pushes:
            first = pushes[0][2][1]
            if not (first[0] == 'init' and b.name_of(first[1]) is not None and b.local_ty(first[1]).get('s') == 'u8'):
                rank_ok = False
        if len(pushes) >= 2:
            second = deref_all(pushes[1][2][1])
            if is_container:
                okc = const_of(second) in (g('ARRAY_LEVEL'), g('OBJECT_LEVEL'))
                hk = [c for c in q.conds if c[0][0] == 'bin' and c[0][1] == 'BitAnd' and c[1] == 'eq']
                if hk:
                    want = g('ARRAY_LEVEL') if hk[0][2] == g('ARRAY_CONTAINER_TAG') else g('OBJECT_LEVEL')
                    okc = const_of(second) == want
                rank_ok = rank_ok and okc
            else:
                # the rank byte: jentry_compare_level(entry), or the rank constant of the entry kind established on this path
                lv = {g('NULL_TAG'): g('NULL_LEVEL'), g('STRING_TAG'): g('STRING_LEVEL'), g('NUMBER_TAG'): g('NUMBER_LEVEL'),
                      g('TRUE_TAG'): g('TRUE_LEVEL'), g('FALSE_TAG'): g('FALSE_LEVEL')}
                kinds_eq = [c[2] for c in tc if c[1] == 'eq']
                const_ok = const_of(second) is not None and kinds_eq and lv.get(kinds_eq[-1]) == const_of(second)
                if is_call(second, 'functions::jentry_compare_level') or bool(const_ok):
                    pass
                elif second[0] == 'call' and const_of(second) is None and any(s_[0] in ('init', 'hav', 'field') for a_ in second[2] for s_ in subterms(a_)):
                    rank_unread = canon(second[1]).split('::')[-1]      # the rank comes from a helper this rule does not know by name
                else:
                    rank_ok = False
        for e in pushes[2:]:
            v = deref_all(e[2][1])
            if is_call(v, 'Index::index'):
                string_raw = True
            if any(is_call(s, 'Number::as_f64') for s in subterms(v)):
                lossy = True
            if any(is_call(s, 'f64::to_bits') for s in subterms(v)):
                to_bits = True
                # the image must be the image of *this* number: a constant image on a path is right only when the path pins the number
                # to that constant by an equality (`if n == 0.0 { 0.0 }`); a constant image under an inequality / range test gives
                # every number of that range one key although compare tells them apart
                for tb in [s for s in subterms(v) if is_call(s, 'f64::to_bits') and s[2]]:
                    a_ = deref_all(tb[2][0])
                    # the float whose bits are taken, written as casts of the decoded integer payload instead of as_f64(): the same lossy
                    # image (same finding), and a change of signedness on the way (`(v as i64) as f64` for a UInt64) wraps the upper half
                    for c_ in [s_ for s_ in subterms(a_) if s_[0] == 'cast' and s_[1] == 'IntToFloat']:
                        inner = c_[2]
                        while inner[0] in ('ref', 'deref'):
                            inner = inner[1]
                        def payload_variant(t_):
                            return t_[1][2] if t_[0] == 'field' and t_[1][0] == 'downcast' and t_[1][2] in ('Int64', 'UInt64') else None
                        if payload_variant(inner):
                            lossy = True
                        elif inner[0] == 'cast' and inner[1] == 'IntToInt' and payload_variant(deref_all(inner[2])):
                            lossy = True
                            pv = payload_variant(deref_all(inner[2]))
                            if (pv, inner[3]) in (('UInt64', 'i64'), ('Int64', 'u64')) or inner[3] in ('i32', 'u32', 'i16', 'u16', 'i8', 'u8'):
                                sign_cast = (pv, inner[3])
                    if a_[0] != 'const':
                        continue
                    num_conds = [c for c in q.conds if any(is_call(s_, 'Number::as_f64', 'Number::decode') for s_ in subterms(c[0])) and c[0][0] == 'bin']
                    pinned = any(c[0][1] == 'Eq' and c[2] is True and any(x_[0] == 'const' for x_ in (c[0][2], c[0][3])) for c in num_conds) or \
                        any(c[0][1] == 'Ne' and c[2] is False and any(x_[0] == 'const' for x_ in (c[0][2], c[0][3])) for c in num_conds)
                    ranged = [c for c in num_conds if c[0][1] in ('Lt', 'Le', 'Gt', 'Ge')]
                    if pinned:
                        const_image.append('pinned')
                    elif ranged:
                        const_image.append('range: ' + show(ranged[0][0])[:120])
                    else:
                        const_image.append('unknown')
                # formula: to_be_bytes(s ^ (((s >> 63) as u64) >> 1) as i64) with byte 0 xor 0x80 (the xor is an index-assign: check constant 63, 1)
                xs = [s for s in subterms(v) if s[0] == 'bin' and s[1] == 'BitXor']
                ok = False
                for x in xs:
                    l, r = x[2], x[3]
                    shr = [s for s in subterms(r) if s[0] == 'bin' and s[1] == 'Shr']
                    consts = sorted(const_of(s[3]) for s in shr if const_of(s[3]) is not None)
                    same = any(is_call(s, 'f64::to_bits') for s in subterms(l)) and any(is_call(s, 'f64::to_bits') for s in subterms(r))
                    u64cast = any(s[0] == 'cast' and s[3] == 'u64' for s in subterms(r))
                    if consts == [1, 63] and same and u64cast:
                        ok = True
                if not any(s_[0] == 'bin' and s_[1] == 'Shr' for x in xs for s_ in subterms(x)):
                    # the image is not written as an xor with a shifted sign mask at all (`if bits & SIGN != 0 { !bits } else { bits | SIGN }`,
                    # a helper, a table): another formulation, which this rule does not evaluate
                    formula_unread = True
                    # ... except for one thing it can say: which of two transforms applies must be decided by the sign *bit*; a float comparison
                    # with zero (`if n < 0.0`) sends -0.0 (and NaNs with the sign set) to the transform of the positive numbers
                    if any(c[0][0] == 'bin' and c[0][1] in ('Lt', 'Le', 'Gt', 'Ge') and any(x_[0] == 'const' and len(x_) > 2 and x_[2] == 'f64' for x_ in (c[0][2], c[0][3]))
                           and any(is_call(s_, 'Number::as_f64') or (s_[0] == 'field' and s_[1][0] == 'downcast' and s_[1][2] == 'Float64') for s_ in subterms(c[0]))
                           for c in q.conds):
                        float_select = True
                    continue
                formula_ok = ok if formula_ok is None else (formula_ok and ok)
    # the sign-bit flip b[0] ^= 0x80
    flip = False
    for bb, i, s in b.all_stmts():
        if s['k'] == 'assign' and s['rv']['k'] == 'bin' and s['rv']['op'] == 'BitXor':
            for o in (s['rv']['a'], s['rv']['b']):
                if o['k'] == 'const' and o.get('val') == 0x80:
                    flip = True
    if rank_ok and rank_unread:
        run.undecided('R14.2', b.path, 'rank-bytes', f'the rank byte of a scalar is computed by {rank_unread}(), which this rule does not know by name (R04.1 checks that compare and the key '
                      'use the same rank function when it can identify it): not decided', loc)
    else:
        (run.proved if rank_ok else run.violation)('R14.2', b.path, 'rank-bytes', 'depth byte, then jentry_compare_level / ARRAY_LEVEL / OBJECT_LEVEL by header kind' if rank_ok else
                                                    'the bytes that prefix an element are not (depth, rank as used by compare)', loc)
    if formula_unread and float_select:
        run.violation('R14.5', b.path, 'float-image', 'the transform applied to the f64 bits is chosen by comparing the float with a constant, not by its sign bit: -0.0 (sign bit set, not < 0.0) '
                      'gets the transform of the non-negative numbers and sorts below every negative number', loc)
    elif formula_unread and formula_ok is not False:
        run.undecided('R14.5', b.path, 'float-image', 'the image of the f64 bits is not written as  s ^ (((s >> 63) as u64) >> 1)  with a sign-byte flip but in another form '
                      '(a conditional on the sign bit, a helper): whether it is monotone is not decided by this rule', loc)
    elif formula_ok and flip:
        run.proved('R14.5', b.path, 'float-image', 'v = s ^ (((s >> 63) as u64) >> 1), sign byte ^ 0x80: monotone map of the f64 bits', loc)
    elif formula_ok is None:
        run.undecided('R14.5', b.path, 'float-image', 'no bytes derived from f64::to_bits are pushed in this function (the float image is computed elsewhere): its formula is not decided', loc)
    else:
        run.violation('R14.5', b.path, 'float-image', 'the order-preserving transform of the f64 bits is not  s ^ (((s >> 63) as u64) >> 1)  with the top byte xor 0x80: '
                      'negative numbers of different magnitude would sort in the wrong order', loc)
    if sign_cast:
        run.violation('R14.1', b.path, 'image[int-cast]', f'a Number::{sign_cast[0]} payload is cast to {sign_cast[1]} before it is widened to the float whose bits form the key: '
                      'values outside the target type wrap, so their keys sort among numbers of the other sign / magnitude although compare orders them by value', loc)
    if lossy:
        run.violation('R14.1', b.path, 'image[as_f64]', 'every number is mapped through as_f64 into the key: 64-bit integers beyond 2^53 lose their low bits, so numbers that compare unequal share a key', loc)
    else:
        run.proved('R14.1', b.path, 'image[as_f64]', 'no lossy conversion on the way into the key', loc)
    rng = [x for x in const_image if x.startswith('range')]
    if rng:
        run.violation('R14.1', b.path, 'image[constant]', f'on a path taken for a whole range of numbers ({rng[0][7:]}) the key image is that of a constant, not of the number: numbers that compare '
                      'unequal share one key', loc)
    elif 'unknown' in const_image:
        run.undecided('R14.1', b.path, 'image[constant]', 'a constant image is written on some path and the condition that selects it was not read: not decided', loc)
    if to_bits:
        run.violation('R14.1', b.path, 'image[to_bits]', 'the key is built from f64::to_bits: -0.0 and +0.0 (and 0 as an integer) compare Equal but get different key bytes', loc)
    if string_raw:
        run.violation('R14.3', b.path, 'delimiter[string]', 'a string payload is appended raw with no terminator or escaping: its bytes are compared against the following element\'s depth marker '
                      '(["a","b"] vs ["a\\u0000z"] order differently from compare)', loc)
    else:
        run.proved('R14.3', b.path, 'delimiter[string]', 'variable-length payloads are delimited', loc)
    run.floor('R14.2', 'return paths of scalar_convert_to_comparable', n_paths, 7)
    # ---- R14.4 depth arithmetic on u8
    intarith.overflow_sites(ctx, run, 'R14.4', CONE, want_types=('u8',), floor=1, label='depth marker arithmetic')
    # ---- R14.6 who appends
    for fn in CONE[2:]:
        bb_ = f.bodies.get(fn)
        if bb_ is None:
            run.undecided('R14.6', fn, 'appends', 'function not found (anchor lost)')
            continue
        def on_bytes(t_):
            # the receiver is a byte buffer (the key under construction), not some other local vector
            a0 = (t_.get('args') or [None])[0]
            if not a0 or a0.get('k') not in ('copy', 'move'):
                return True
            return 'Vec<u8>' in str(bb_.local_ty(a0['place']['local']).get('s', ''))
        direct = [canon(callee_name(t)) for _, t in bb_.calls() if called(callee_name(t), 'Vec::push', 'Vec::extend_from_slice', 'WriteBytesExt::write_u32') and on_bytes(t)]
        via = [t for _, t in bb_.calls() if called(callee_name(t), 'functions::scalar_convert_to_comparable')]
        want = 1 if fn.endswith('array_convert_to_comparable') else 2
        ok = not direct and len(via) == want
        (run.proved if ok else run.violation)('R14.6', fn, 'appends', f'emits its {"elements" if want == 1 else "keys and values"} only through scalar_convert_to_comparable (depth + rank prefix on each)' if ok else
                                               f'appends to the key directly ({direct}) or does not route every {"element" if want == 1 else "key and value"} through scalar_convert_to_comparable '
                                               f'({len(via)} call site(s), expected {want}): an element without its depth/rank prefix is compared against its neighbour\'s payload', f'{bb_.file}:{bb_.line}')
    # the depth passed down is depth + 1, siblings keep the same depth
    ok = True
    for q in paths:
        for e in q.calls():
            if called(e[1], 'functions::array_convert_to_comparable', 'functions::object_convert_to_comparable'):
                l = lin(e[2][0])
                if not (l[1] == 1 and len(l[0]) == 1):
                    ok = False
    (run.proved if ok else run.violation)('R14.6', b.path, 'depth-step', 'nested containers are emitted one level deeper' if ok else 'nested containers are not emitted at depth + 1', loc)
    only = lambda p: 'convert_to_comparable' in p
    walkers.w_advance(ctx, run, 'R14.7/R05.2', only=only, floor=2)
    dispatch.r11_1(ctx, run, rule='R14.8/R11.1', only={'functions::convert_to_comparable'})
    ordering.r04_1(ctx, run, rule='R14.2/R04.1')
    # the key orders values of different kinds by their rank bytes: compare must order each pair of kinds the same way (R04.2)
    ordering.r04_2(ctx, run, rule='R14.2/R04.2')
    # compare reads each operand at offsets measured on that operand (R04.8): the other half of "the key sorts as compare orders"
    ordering.r04_8(ctx, run, rule='R14.10/R04.8')
    numcodec.r18_4(ctx, run, rule='R14.9/R18.4')
    return report.finish(run, level='other', explanation=EXPLANATION, assumptions=["A1: valid documents"])
