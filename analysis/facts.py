"""Loading and indexing of the MIR fact file produced by driver/ (mirfacts)."""
import json, os

class Body:
    __slots__ = ('raw', 'path', 'kind', 'vis', 'file', 'line', 'argc', 'locals', 'blocks', 'names',
                 '_succ', '_pred', '_dom', '_defs', '_cache')

    def __init__(self, raw):
        self.raw = raw
        self.path = raw['path']
        self.kind = raw['kind']
        self.vis = raw['vis']
        self.file = raw['file']
        self.line = raw['line']
        self.argc = raw['argc']
        self.locals = raw['locals']
        self.blocks = raw['blocks']
        self.names = {l['id']: l.get('name') for l in raw['locals']}
        self._succ = None
        self._pred = None
        self._dom = None
        self._defs = None
        self._cache = {}

    def local_ty(self, i):
        return self.locals[i]['ty']

    def name_of(self, i):
        return self.names.get(i)

    # ---- CFG (cleanup blocks / unwind edges are not part of it) ----
    def succ(self):
        if self._succ is None:
            s = {}
            for b in self.blocks:
                s[b['id']] = term_targets(b['term'])
            self._succ = s
        return self._succ

    def pred(self):
        if self._pred is None:
            p = {b['id']: [] for b in self.blocks}
            for a, ts in self.succ().items():
                for t in ts:
                    if a not in p[t]:
                        p[t].append(a)
            self._pred = p
        return self._pred

    def block(self, i):
        return self.blocks[i]

    def calls(self):
        """Yield (bb_id, term) for every call terminator in non-cleanup blocks."""
        for b in self.blocks:
            if b.get('cleanup'):
                continue
            t = b['term']
            if t['k'] == 'call':
                yield b['id'], t

    def all_stmts(self):
        for b in self.blocks:
            if b.get('cleanup'):
                continue
            for i, s in enumerate(b['stmts']):
                yield b['id'], i, s

    def reachable(self):
        key = 'reach'
        if key not in self._cache:
            seen = {0}
            st = [0]
            s = self.succ()
            while st:
                x = st.pop()
                for y in s[x]:
                    if y not in seen:
                        seen.add(y)
                        st.append(y)
            self._cache[key] = seen
        return self._cache[key]


def term_targets(t):
    k = t['k']
    if k == 'goto':
        return [t['target']]
    if k == 'switch':
        r = []
        for _, b in t['targets']:
            if b not in r:
                r.append(b)
        if t['otherwise'] not in r:
            r.append(t['otherwise'])
        return r
    if k in ('call', 'drop', 'assert'):
        return [t['target']] if t.get('target') is not None else []
    return []


class Bodies(dict):
    """Function bodies by path.  A lookup by a path that is not present falls back to the unique crate-local body with the same
    item path below the module segments: a private function moved to another module of the crate is still found (a renamed one
    is not: the rules then report the anchor as lost)."""

    def _resolve(self, key):
        if not isinstance(key, str) or '{closure' in key or 'promoted' in key:
            return None
        from pat import local_tail
        t = local_tail(key)
        if t is None:
            return None
        idx = self.__dict__.get('_tails')
        if idx is None or self.__dict__.get('_n') != len(self):
            idx = {}
            for k in dict.keys(self):
                if '{closure' in k:
                    continue
                kt = local_tail(k)
                if kt is not None:
                    idx.setdefault(kt, []).append(k)
            self.__dict__['_tails'] = idx
            self.__dict__['_n'] = len(self)
        c = idx.get(t, [])
        return c[0] if len(c) == 1 else None

    def get(self, key, default=None):
        if dict.__contains__(self, key):
            return dict.__getitem__(self, key)
        k = self._resolve(key)
        return dict.__getitem__(self, k) if k is not None else default

    def __getitem__(self, key):
        if dict.__contains__(self, key):
            return dict.__getitem__(self, key)
        k = self._resolve(key)
        if k is None:
            raise KeyError(key)
        return dict.__getitem__(self, k)

    def __contains__(self, key):
        return dict.__contains__(self, key) or self._resolve(key) is not None


class Facts:
    def __init__(self, path):
        with open(path) as f:
            d = json.load(f)
        self.raw = d
        self.stamp = d['stamp']
        self.consts = {c['path']: c for c in d['consts']}
        self.adts = {a['path']: a for a in d['adts']}
        self.aliases = {a['path']: a for a in d['aliases']}
        self.fns = {f['path']: f for f in d['fns']}
        self.bodies = Bodies()
        for b in d['bodies']:
            self.bodies[b['path']] = Body(b)

    def body(self, path):
        return self.bodies.get(path)

    def find_bodies(self, suffix):
        """Bodies whose path ends with `suffix` at a path-segment boundary."""
        r = []
        for p, b in self.bodies.items():
            if p == suffix or p.endswith('::' + suffix):
                r.append(b)
        return r

    def one(self, suffix):
        r = [b for b in self.find_bodies(suffix) if b.kind != 'Promoted']
        if len(r) != 1:
            return None
        return r[0]

    def const_val(self, path):
        c = self.consts.get(path)
        return None if c is None else c.get('val')

    def local_fn_bodies(self):
        return [b for b in self.bodies.values() if b.kind in ('Fn', 'AssocFn', 'Closure')]
