use jsonb::*;
use jsonb::jsonpath::*;
use jsonb::keypath::*;
use std::cmp::Ordering;
fn main() {
    // D1
    println!("D1 {:?}", from_slice(&[0x40,0,0,1, 0x20,0,0,2, 0,0,0,0, 0x50,1]).is_err());
    // D2
    println!("D2a {:?}", Number::decode(&[]).is_err());
    println!("D2b {:?}", from_slice(&[0x20,0,0,0,0x20,0,0,2,0x60,1]).is_err());
    // D3
    println!("D3 {:?}", from_slice(&[0x20,0,0,0,0x10,0,0,2,0xff,0xfe]));
    // D4
    println!("D4 {:?}", from_slice(b"12340123"));
    let mut b=vec![]; concat(b"12340123", b"[1]", &mut b).unwrap(); println!("D4b {}", to_string(&b));
    // D5
    println!("D5 {:?} {:?}", parse_json_path(b"$.\"abc").is_err(), parse_key_paths(b"{\"abc").is_err());
    println!("D5b {:?} {:?}", parse_json_path(b"$.a?(@ == \"\")"), parse_key_paths(b"{\"\"}"));
    // D6
    let v = parse_value(b"{\"a\":1}").unwrap().to_vec();
    let mut d=vec![]; let mut o=vec![];
    println!("D6 {:?}", get_by_path(&v, parse_json_path(b"$?(@.a + 1)").unwrap(), &mut d, &mut o));
    println!("D6b {:?}", get_by_path(&v, parse_json_path(b"$.a + 1").unwrap(), &mut d, &mut o));
    // D7
    let a = parse_value(b"[1,2,3]").unwrap().to_vec();
    println!("D7 {:?} {:?}", get_by_path(&a, parse_json_path(b"$[last + 2147483647]").unwrap(), &mut d, &mut o), d.len());
    println!("D7b {:?}", get_by_path(&a, parse_json_path(b"$[last + -2147483648 to last+2147483647]").unwrap(), &mut d, &mut o));
    println!("   {}", to_string(&d)); d.clear(); o.clear();
    // D8
    let mut b=vec![]; println!("D8 {:?}", delete_by_index(&a, i32::MIN, &mut b)); println!("  {}", to_string(&b));
    let mut b=vec![]; println!("D8 {:?}", array_insert(&a, i32::MIN, &a, &mut b)); println!("  {}", to_string(&b));
    let kp = [KeyPath::Index(i32::MIN)];
    let mut b=vec![]; println!("D8 {:?}", delete_by_keypath(&a, kp.iter(), &mut b)); println!("  {}", to_string(&b));
    let mut b=vec![]; println!("D8 {:?}", delete_by_keypath(b"[1,2,3]", kp.iter(), &mut b)); println!("  {}", to_string(&b));
    let mut b=vec![]; println!("D8 {:?}", delete_by_index(b"[1,2,3]", -1, &mut b)); println!("  {}", to_string(&b));
    // D10
    let p53 = 1i64<<53;
    println!("D10 {:?} {:?} {:?}", Number::Int64(p53+1).cmp(&Number::Float64(p53 as f64)), Number::Int64(p53).cmp(&Number::Float64(p53 as f64)), Number::Float64(p53 as f64).cmp(&Number::UInt64((p53+1) as u64)));
    println!("    {:?} {:?} {:?} {:?}", Number::Int64(5).cmp(&Number::Float64(5.5)), Number::Int64(-5).cmp(&Number::Float64(-5.5)), Number::UInt64(u64::MAX).cmp(&Number::Float64(1.8446744073709552e19)), Number::Int64(0).cmp(&Number::Float64(-0.0)));
    println!("    {:?} {:?}", Number::Int64(i64::MIN).cmp(&Number::Float64(-9223372036854775808.0)), Number::Int64(3).cmp(&Number::Float64(f64::NAN)));
    assert_eq!(Number::Float64(f64::NAN).cmp(&Number::Float64(f64::NAN)), Ordering::Equal);
    // D11
    let s = Value::String("a\u{1}b\u{1f}\n".into()).to_vec();
    println!("D11 {}", to_string(&s));
    println!("    {:?}", parse_value(to_string(&s).as_bytes()));
    // D12
    let l = Value::Array(vec![Value::Number(Number::UInt64(1))]).to_vec();
    let r = Value::Array(vec![Value::Number(Number::Int64(1))]).to_vec();
    let f = Value::Array(vec![Value::Number(Number::Float64(1.0))]).to_vec();
    println!("D12 {} {} {}", contains(&l,&r), contains(&l,&f), contains(&Value::Number(Number::UInt64(1)).to_vec(), &Value::Number(Number::Float64(1.0)).to_vec()));
    let lo = parse_value(b"{\"a\":1,\"b\":2}").unwrap().to_vec();
    println!("    {} {}", contains(&lo, b"{\"a\":1.0}"), contains(&lo, &parse_value(b"{\"a\":1.0}").unwrap().to_vec()));
    // D13
    let one = Value::Number(Number::UInt64(1)).to_vec(); let two = Value::Number(Number::UInt64(2)).to_vec();
    let mut b=vec![]; build_object(vec![("b",&one[..]),("a",&one[..]),("a",&two[..])], &mut b).unwrap();
    println!("D13 {} canonical={}", to_string(&b), from_slice(&b).unwrap().to_vec()==b);
    // D14
    let obj = parse_value(b"{\"a\":1}").unwrap().to_vec();
    let mut b=vec![]; println!("D14 {:?}", object_insert(&obj,"b",b"123456789",false,&mut b)); println!("  {}", to_string(&b));
    println!("  {:?} {:?}", array_overlap(&a, b"[3]"), array_overlap(b"[3]", &a));
    let mut b=vec![]; array_intersection(&a,b"[3,4]",&mut b).unwrap(); println!("  {}", to_string(&b));
    let mut b=vec![]; array_except(&a,b"[3,4]",&mut b).unwrap(); println!("  {}", to_string(&b));
    let mut b=vec![]; array_insert(&a,1,b"\"x\"",&mut b).unwrap(); println!("  {}", to_string(&b));
    // D16
    d.clear(); o.clear();
    get_by_path(&v, parse_json_path(b"$.a == 1").unwrap(), &mut d, &mut o).unwrap(); println!("D16 {:?} {:?}", d, o);
    // D17
    for p in ["$.a?(@ == 1.5)", "$.a?(@ == 1e3)", "$.a?(@ == -1.5)", "$.a?(@ == 12)", "$.a?(@ == -12)", "$.a?(@ == 0.5)"] {
        let r = parse_json_path(p.as_bytes());
        match r { Ok(jp) => { let s = format!("{}", jp); println!("D17 {} -> {} reparse_eq={}", p, s, parse_json_path(s.as_bytes()).map(|x| x==jp).unwrap_or(false)); } Err(e) => println!("D17 {} ERR {:?}", p, e) }
    }
}
