#!/usr/bin/env python3
"""Prepare one held-out round: scratch worktrees /tmp/r<N>s/Cxx (seeding) and /tmp/r<N>b/Cxx (behaviour-preserving) at /repo HEAD,
each with a TASK.md that contains only the property text and the worktree path.  usage: round_setup.py <N> [<previous N to take warm target dirs from>]"""
import subprocess, sys, os, shutil
n = sys.argv[1]
prev = sys.argv[2] if len(sys.argv) > 2 else None
sh = lambda c: subprocess.run(c, shell=True, check=False)
os.makedirs(f'/tmp/r{n}s', exist_ok=True)
os.makedirs(f'/tmp/r{n}b', exist_ok=True)
for i in range(1, 21):
    pid = 'C%02d' % i
    for kind in 's', 'b':
        wt = f'/tmp/r{n}{kind}/{pid}'
        if not os.path.isdir(wt):
            sh(f'git -C /repo worktree add -q --detach {wt} HEAD')
        old = f'/tmp/r{prev}{kind}/{pid}' if prev else None
        if old and os.path.isdir(old + '/target') and not os.path.isdir(wt + '/target'):
            shutil.move(old + '/target', wt + '/target')
        elif not os.path.isdir(wt + '/target') and os.path.isdir('/repo/target'):
            sh(f'cp -r /repo/target {wt}/target')
        if old and os.path.isdir(old):
            sh(f'git -C /repo worktree remove --force {old}')
    t = subprocess.run(['python3', '/verif/tools/seed_prompt.py', pid, f'/tmp/r{n}s/{pid}'], capture_output=True, text=True).stdout
    t = t.replace('produce TWO independent, realistic source changes ("A" and "B")', 'produce THREE independent, realistic source changes ("A", "B" and "C")')
    t = t.replace('A and B must touch different mechanisms/functions', 'A, B and C must touch different mechanisms/functions, and should be of three different kinds: one a wrong value or comparison inside otherwise unchanged code (a constant, a bound, an operator, an argument), one a small "improvement" a maintainer might genuinely propose (a fast path, a simplification, a deduplication, a clean-up) that is subtly wrong, and one in a place a reviewer would not look first (a helper shared with other features, the sibling implementation for the other input representation, an error or rarely taken path)')
    t = t.replace('For each of A and B:', 'For each of A, B and C:').replace('{A|B}', '{A|B|C}').replace('listing, for A and B:', 'listing, for A, B and C:').replace(
        'If after honest effort you can only produce one valid change, deliver one and say so.', 'If after honest effort you can only produce one or two valid changes, deliver those and say so.')
    open(f'/tmp/r{n}s/{pid}/TASK.md', 'w').write(t)
    t = subprocess.run(['python3', '/verif/tools/benign_prompt.py', pid, f'/tmp/r{n}b/{pid}'], capture_output=True, text=True).stdout
    open(f'/tmp/r{n}b/{pid}/TASK.md', 'w').write(t)
sh('git -C /repo worktree prune')
print('ok')
