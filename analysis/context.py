"""Shared, lazily built analysis context for the rule modules."""
import os, re
from callgraph import CallGraph
from extract import REPO


class Context:
    def __init__(self, facts, tier, srchash):
        self.facts = facts
        self.tier = tier
        self.srchash = srchash
        self._cg = None
        self._readme = None
        self.repo = REPO

    @property
    def cg(self):
        if self._cg is None:
            self._cg = CallGraph(self.facts)
        return self._cg

    @property
    def readme(self):
        if self._readme is None:
            with open(os.path.join(self.repo, 'README.md'), encoding='utf-8') as f:
                self._readme = f.read()
        return self._readme

    def thorough(self):
        return self.tier == 'thorough'
