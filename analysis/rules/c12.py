"""C12 — containment follows the @> rules, using the same equality as compare (structural clauses)."""
import report
from sym import Explorer, explore, show, subterms
from pat import called, canon, is_call, deref_all, agg_variant, const_of, strip_casts
from mir import natural_loops, callee_name
from rules import editing, dispatch, numcodec
from rules.layout import cv

EXPLANATION = (
    "Static analysis of contains / contains_value / contains_jsonb / array_contains / scalar_eq. R12.1: numbers have several encodings, so scalar "
    "equality for containment must go through Number::decode and Number's ==: the byte implementation compares payload bytes only inside scalar_eq, "
    "whose NUMBER_TAG path decodes both sides and compares them as numbers (and Number's == is R18.4-exact). R12.2: twin case analysis — both "
    "implementations test the array-contains-scalar special case first, reject differing kinds, compare object sizes before members; in the tree twin "
    "every recursive call is made only for operands of equal variant or a non-scalar right operand (so the top-level array/scalar exception cannot "
    "leak into members); in the byte twin the candidate filter for nested containers depends on the entry kind only (no size pruning: containment "
    "ignores multiplicity and encoding width). R12.3: contains dispatches each argument on its own representation (R11.1). NOT decided: reflexivity, "
    "transitivity, the @> semantics as a whole.")


def guarded_by_edges(b, call_bb):
    """Is the recursive call in block call_bb reachable only through `is_scalar(arg2) == false` or `eq_variant(arg1, arg2) == true`
    edges (dominance across loop regions)?"""
    from mir import Expr
    from rules.dispatch import reachable_without
    ex = Expr(b)
    t = b.blocks[call_bb]['term']

    def local_of(o):
        x = ex.operand(o)
        while x[0] in ('ref', 'deref'):
            x = x[1]
        return x[1] if x[0] in ('var', 'arg') else None
    a1, a2 = local_of(t['args'][0]), local_of(t['args'][1])
    edges = []
    for bb, tt in b.calls():
        nm = callee_name(tt)
        want = None
        if called(nm, 'Value::is_scalar') and local_of(tt['args'][0]) == a2 and a2 is not None:
            want = False
        elif called(nm, 'Value::eq_variant') and len(tt['args']) == 2 and {local_of(tt['args'][0]), local_of(tt['args'][1])} == {a1, a2} and None not in (a1, a2):
            want = True
        if want is None:
            continue
        d = tt['dest']['local']
        for blk in b.blocks:
            sw = blk['term']
            if sw['k'] == 'switch' and sw['discr'].get('k') in ('copy', 'move') and sw['discr']['place']['local'] == d and not sw['discr']['place'].get('proj'):
                zero = [x for v, x in sw['targets'] if v == 0]
                tgt = sw['otherwise'] if want else (zero[0] if zero else None)
                if tgt is not None:
                    edges.append((blk['id'], tgt))
            # `!is_scalar` compiled as Not then switch
    if not edges:
        return False
    return call_bb not in reachable_without(b, edges)


def tree_twin_counts(ctx, run, rule='R12.2'):
    """tree twin: for two arrays no answer derives from comparing their lengths (containment ignores multiplicity)"""
    f = ctx.facts
    b = f.bodies.get('functions::contains_value')
    if b is None:
        return
    vs = [v['name'] for v in f.adts.get('value::Value', {}).get('variants', [])]
    if 'Array' not in vs:
        return
    ai = vs.index('Array')
    paths, loops = editing.region_paths(b)
    bad = None
    n = 0
    for q in paths:
        if q.end[0] != 'return' or q.ret is None or q.ret[0] != 'const':
            continue
        arr = [c for c in q.conds if c[0][0] == 'discr' and c[1] == 'eq' and c[2] == ai]
        if len(arr) < 1:
            continue
        n += 1
        for c in q.conds:
            t_ = c[0]
            if t_[0] == 'bin' and t_[1] in ('Lt', 'Le', 'Gt', 'Ge', 'Ne', 'Eq') and isinstance(c[2], bool):
                sides = [any(s_[0] == 'call' and canon(s_[1]).split('::')[-1] == 'len' and 'Vec' in s_[1] for s_ in subterms(x)) for x in (t_[2], t_[3])]
                if all(sides):
                    bad = (show(t_)[:80], c[2], q.ret[1])
    loc = f'{b.file}:{b.line}'
    if bad:
        run.violation(rule, b.path, 'array-counts', f'for two arrays the result {bad[2]} is returned after comparing their lengths ({bad[0]} = {bad[1]}): array containment ignores multiplicity, '
                      'and the byte walker has no such test, so JSON text and its encoding disagree', loc)
    elif n:
        run.proved(rule, b.path, 'array-counts', 'no result for two arrays depends on comparing their lengths', loc)


def kind_predicates(ctx, run, rule='R12.2'):
    """The tree implementation decides its cases with Value::is_array / is_object / is_scalar.  Each is evaluated for every variant of
    Value: is_array holds exactly for Array, is_object exactly for Object, is_scalar for exactly the other variants (null included)."""
    from enumeval import enum_pred
    f = ctx.facts
    adt = f.adts.get('value::Value')
    tw = f.one('functions::contains_value')
    if adt is None or tw is None:
        run.undecided(rule, 'functions::contains_value', 'kind-predicates', 'Value or contains_value not found (anchor lost)')
        return
    vs = [v['name'] for v in adt['variants']]
    want = {'is_array': lambda v: v == 'Array', 'is_object': lambda v: v == 'Object', 'is_scalar': lambda v: v not in ('Array', 'Object')}
    used = set()
    for x in ctx.cg.reachable([tw.path]):
        if x.startswith('functions::contains_value') and x in f.bodies:
            for bb, t in f.bodies[x].calls():
                nm = callee_name(t)
                last = canon(nm).split('::')[-1]
                if last in want and 'Value' in nm:
                    used.add((last, nm))
    for last, nm in sorted(used):
        cands = [p_ for p_ in f.bodies if p_ == nm or canon(p_) == canon(nm)]
        if len(cands) != 1:
            run.undecided(rule, nm, f'kind-predicate[{last}]', 'the body of this predicate was not found: not decided')
            continue
        b = f.bodies[cands[0]]
        loc = f'{b.file}:{b.line}'
        got = [enum_pred(f, cands[0], i) for i in range(len(vs))]
        if any(not isinstance(g_, bool) for g_ in got):
            run.undecided(rule, b.path, f'kind-predicate[{last}]', 'the predicate is not a function of the variant alone in a form this rule evaluates: not decided', loc)
            continue
        wrong = [vs[i] for i in range(len(vs)) if got[i] != want[last](vs[i])]
        if wrong:
            run.violation(rule, b.path, f'kind-predicate[{last}]', f'{last}() answers {[got[vs.index(w)] for w in wrong]} for Value::{", Value::".join(wrong)}: the tree implementation of contains '
                          f'then takes the wrong case for such a value (the byte implementation reads the entry kind and does not)', loc)
        else:
            run.proved(rule, b.path, f'kind-predicate[{last}]', f'evaluated for all {len(vs)} variants of Value: true exactly for {[v for v in vs if want[last](v)]}', loc)
    run.floor(rule, 'kind predicates used by contains_value', len(used), 2)


def _own_guard(conds, x, y):
    """a condition of the path that makes the recursive test contains(x, y) legitimate: eq_variant(x, y) holds, or y is not a scalar"""
    for c in conds:
        t = c[0]
        if is_call(t, 'Value::eq_variant') and c[2] is True and {repr(deref_all(t[2][0])), repr(deref_all(t[2][1]))} == {repr(x), repr(y)}:
            return True
        if is_call(t, 'Value::is_scalar') and c[2] is False and deref_all(t[2][0]) == y:
            return True
        if is_call(t, 'Value::is_array', 'Value::is_object') and c[2] is True and deref_all(t[2][0]) == y:
            return True
        if t[0] == 'discr' and deref_all(t[1]) == y and c[1] == 'eq' and c[2] in (4, 5):      # matched as Value::Array / Value::Object
            return True
    return False


def _upvar_index(t):
    t = deref_all(t)
    if t[0] == 'field' and deref_all(t[1])[0] == 'init' and deref_all(t[1])[1] == 1:
        ix = t[3] if len(t) > 3 else t[2]
        return ix if isinstance(ix, int) else None
    return None


def outer_guard(f, path, x, y, depth=0):
    """The recursive test contains(x, y) sits in a closure or a private helper and is not guarded there: is it guarded where the closure
    is built / the helper is called, for the values x and y stand for?  True / False / None (not traceable)."""
    if depth > 3:
        return None
    b = f.bodies.get(path)
    if b is None:
        return None
    from rules.editing import region_paths
    if '::{closure' in path:
        parent = path.rsplit('::{closure', 1)[0]
        pb = f.bodies.get(parent)
        if pb is None:
            return None
        iy = _upvar_index(y)
        if iy is None:
            return False if (deref_all(y)[0] in ('init', 'field', 'deref')) else None     # y is an item handed in by the adaptor: nothing upstream speaks about it
        ix = _upvar_index(x)
        verdicts = []
        for q in region_paths(pb)[0]:
            for e in q.calls():
                for a in e[2]:
                    for s_ in subterms(a):
                        if s_[0] == 'agg' and isinstance(s_[1], tuple) and s_[1][0] == 'closure' and s_[1][1] == path and iy < len(s_[2]):
                            py = deref_all(s_[2][iy])
                            px = deref_all(s_[2][ix]) if ix is not None and ix < len(s_[2]) else None
                            g = _own_guard(q.conds[:e[6]], px, py)
                            if not g:
                                g = outer_guard(f, parent, px if px is not None else py, py, depth + 1)
                            verdicts.append(g)
        if not verdicts:
            return None
        return True if all(v is True for v in verdicts) else (False if any(v is False for v in verdicts) else None)
    # a private helper: look at every call site
    if b.vis == 'pub':
        return None
    dx, dy = deref_all(x), deref_all(y)
    if not (dy[0] == 'init' and isinstance(dy[1], int) and dy[1] <= b.argc):
        return None
    verdicts = []
    for cp, cb in f.bodies.items():
        if cb.kind == 'Promoted' or not any(callee_name(t_) == path or canon(callee_name(t_)) == canon(path) for _, t_ in cb.calls()):
            continue
        for q in region_paths(cb)[0]:
            for e in q.calls():
                if not (e[1] == path or canon(e[1]) == canon(path)) or dy[1] - 1 >= len(e[2]):
                    continue
                ay = deref_all(e[2][dy[1] - 1])
                ax = deref_all(e[2][dx[1] - 1]) if dx[0] == 'init' and isinstance(dx[1], int) and dx[1] - 1 < len(e[2]) else None
                g = _own_guard(q.conds[:e[6]], ax, ay)
                if not g:
                    g = outer_guard(f, cp, ax if ax is not None else ay, ay, depth + 1)
                verdicts.append(g)
    if not verdicts:
        return None
    return True if all(v is True for v in verdicts) else (False if any(v is False for v in verdicts) else None)


def tree_twin_guards(ctx, run, rule='R12.2'):
    f = ctx.facts
    # ---- R12.2 tree twin: recursion guards
    b = f.bodies.get('functions::contains_value')
    if b is None:
        run.undecided(rule, 'functions::contains_value', 'recursion-guards', 'function not found (anchor lost)')
    else:
        paths, loops = editing.region_paths(b)
        n = 0
        bad = []
        unsure = []
        for q in paths:
            for e in q.calls():
                if not called(e[1], 'functions::contains_value'):
                    continue
                n += 1
                x, y = deref_all(e[2][0]), deref_all(e[2][1])
                conds = q.conds[:e[6]]
                ok = False
                for c in conds:
                    t = c[0]
                    if is_call(t, 'Value::eq_variant') and c[2] is True and deref_all(t[2][0]) == x and deref_all(t[2][1]) == y:
                        ok = True
                    if is_call(t, 'Value::is_scalar') and c[2] is False and deref_all(t[2][0]) == y:
                        ok = True
                if not ok:
                    ok = guarded_by_edges(b, e[3])
                if not ok:
                    tt = e[5]
                    bad.append(f"{tt.get('file')}:{tt.get('line')}")
        # the recursive tests written inside closures of the function (all / any adaptors) or in a private helper it calls
        cone = [x_ for x_ in ctx.cg.reachable([b.path]) if x_ in f.bodies and x_ != b.path and f.bodies[x_].kind != 'Promoted' and
                (x_.startswith(b.path + '::{closure') or (x_.startswith('functions::') and f.bodies[x_].vis != 'pub'))]
        for cp in sorted(cone):
            cb = f.bodies[cp]
            if not any(called(callee_name(t_), 'functions::contains_value') for _, t_ in cb.calls()):
                continue
            for q in editing.region_paths(cb)[0]:
                for e in q.calls():
                    if not called(e[1], 'functions::contains_value') or len(e[2]) < 2:
                        continue
                    n += 1
                    x, y = deref_all(e[2][0]), deref_all(e[2][1])
                    if _own_guard(q.conds[:e[6]], x, y):
                        continue
                    g = outer_guard(f, cp, x, y)
                    tt = e[5]
                    if g is False:
                        bad.append(f"{tt.get('file')}:{tt.get('line')}")
                    elif g is None:
                        unsure.append(f"{tt.get('file')}:{tt.get('line')}")
        if unsure and not bad:
            run.undecided(rule, b.path, 'recursion-guards', f'a recursive containment test inside a closure or helper (at {sorted(set(unsure))[:2]}) is not guarded there, and what guards it where the closure is built / '
                          'the helper is called could not be traced: not decided', f'{b.file}:{b.line}')
        elif bad:
            run.violation(rule, b.path, 'recursion-guards', f'a recursive containment test (at {sorted(set(bad))}) is made without first establishing that both operands have the same kind '
                          'or that the right operand is a container: the top-level "array contains a bare scalar" exception then applies to nested members too', f'{b.file}:{b.line}')
        else:
            run.proved(rule, b.path, 'recursion-guards', f'{n} recursive call path(s): each under eq_variant(l, r) or !r.is_scalar()', f'{b.file}:{b.line}')
        run.floor(rule, 'recursive calls in contains_value', n, 2)
        # the special case comes first and is exactly array ⊇ scalar
        first = None
        for q in paths:
            if q.blocks and q.blocks[0] == 0 and q.end[0] == 'return':
                cs = [c for c in q.conds if c[0][0] == 'call']
                if cs and is_call(cs[0][0], 'Value::is_array') and cs[0][2] is True and len(cs) > 1 and is_call(cs[1][0], 'Value::is_scalar') and cs[1][2] is True:
                    first = q
        if first is not None:
            run.proved(rule, b.path, 'special-case', 'left.is_array() && right.is_scalar() is tested first', f'{b.file}:{b.line}')
        elif not any(called(callee_name(t_), 'Value::is_array') for _, t_ in b.calls()):
            run.undecided(rule, b.path, 'special-case', 'this function does not test left.is_array() && right.is_scalar() through the helper methods (a match on the pair of values?): '
                          'whether the array-contains-scalar case is handled first, and only at the top level, is not decided', f'{b.file}:{b.line}')
        else:
            run.violation(rule, b.path, 'special-case', 'the array-contains-scalar special case is not the first test', f'{b.file}:{b.line}')


def check(ctx, run):
    f = ctx.facts
    run.rules_run = ['R12.1', 'R12.2', 'R12.3', 'R12.4', 'R05.14']
    g = lambda n: cv(f, n)
    # ---- R12.1
    slice_eq_users = []
    if 'functions::contains_jsonb' not in f.bodies:
        run.undecided('R12.1', 'functions::contains_jsonb', 'body', 'function not found (anchor lost)')
    # the scalar-equality helper: by name, or (renamed / moved) the function of the cone that decodes two numbers and answers a bool
    seq_name = 'functions::scalar_eq' if 'functions::scalar_eq' in f.bodies else None
    if seq_name is None:
        for x in sorted(ctx.cg.reachable(['functions::contains_jsonb'])):
            bx = f.bodies.get(x)
            if bx is None or bx.kind == 'Promoted' or '{closure' in x:
                continue
            if str(bx.local_ty(0).get('s')) == 'bool' and sum(1 for _, t_ in bx.calls() if called(callee_name(t_), 'Number::decode')) >= 2:
                seq_name = x
                break
    else:
        seq_name = f.bodies['functions::scalar_eq'].path
    walker = sorted(x for x in ctx.cg.reachable(['functions::contains_jsonb']) if x in f.bodies and (x.startswith('functions::') or x.startswith('jentry::'))
                    and not (seq_name and x.startswith(seq_name)) and not x.endswith('::read_u32'))
    for fn in walker:
        b = f.bodies.get(fn)
        if b is None or b.kind == 'Promoted':
            continue
        for bb, t in b.calls():
            nm = callee_name(t)
            full = t['callee'].get('full', '')
            if canon(nm).endswith(('PartialEq::eq', 'PartialEq::ne', 'SlicePartialEq::equal', 'Ord::cmp')) and ('[u8]' in full):
                slice_eq_users.append((fn, t))
    # a raw comparison next to an inlined number comparison (the helper's case analysis spelled out in the walker: decode both, compare as
    # numbers, bytes only when a decode fails or the kind is not NUMBER_TAG) is judged path by path
    inline = {}
    for fn, t in slice_eq_users:
        b_ = f.bodies[fn]
        if not any(called(callee_name(t_), 'Number::decode') for _, t_ in b_.calls()):
            continue
        paths_, _lp = editing.region_paths(b_)
        verdicts = []
        for q in paths_:
            for e in q.calls():
                if not (canon(e[1]).endswith(('PartialEq::eq', 'PartialEq::ne', 'SlicePartialEq::equal')) and '[u8]' in str(e[5]['callee'].get('full', '')) and e[5].get('line') == t.get('line')):
                    continue
                cs = q.conds[:e[6]]
                not_num = any((c[0][0] == 'bin' and c[0][1] in ('Eq', 'Ne') and any(const_of(x) == g('NUMBER_TAG') for x in (c[0][2], c[0][3])) and (c[0][1] == 'Eq') != bool(c[2])) or
                              (c[1] == 'ne' and isinstance(c[2], tuple) and g('NUMBER_TAG') in c[2] and 'type_code' in show(c[0])) or
                              (c[1] == 'eq' and c[2] != g('NUMBER_TAG') and 'type_code' in show(c[0]) and c[0][0] != 'bin') for c in cs)
                dec_failed = any(c[0][0] == 'discr' and any(is_call(s_, 'Number::decode') for s_ in subterms(c[0])) and not (c[1] == 'eq' and c[2] == 0 and is_call(c[0][1], 'Number::decode')) for c in cs)
                opt_local = any(c[0][0] == 'discr' and deref_all(c[0][1])[0] in ('init', 'hav', 'loc') for c in cs)
                verdicts.append('ok' if (not_num or dec_failed) else ('unsure' if opt_local else 'bad'))
        if verdicts:
            inline[(fn, t.get('line'))] = 'bad' if 'bad' in verdicts else ('unsure' if 'unsure' in verdicts else 'ok')
    judged = [v for v in inline.values()]
    if slice_eq_users and inline and len(inline) == len({(fn, t.get('line')) for fn, t in slice_eq_users}) and 'bad' not in judged:
        fn, t = slice_eq_users[0]
        if 'unsure' in judged:
            run.undecided('R12.1', fn, 'raw-compare', 'the walker compares payload bytes itself next to an inlined number comparison; on some path the condition that selects the byte comparison '
                          '(an Option / Result held in a local) was not traced back to "not a number, or a decode failed": not decided', f"{t.get('file')}:{t.get('line')}")
        else:
            run.proved('R12.1', fn, 'raw-compare', 'payload bytes are compared directly only where the kind is not NUMBER_TAG or a decode failed', f"{t.get('file')}:{t.get('line')}")
    elif slice_eq_users:
        fn, t = slice_eq_users[0]
        run.violation('R12.1', fn, 'raw-compare', 'payload bytes are compared directly in the containment walker: equal numbers in different encodings (1, 1.0, Int64(1)) do not match, '
                      'unlike compare and the text path', f"{t.get('file')}:{t.get('line')}")
    else:
        run.proved('R12.1', 'functions::contains_jsonb', 'raw-compare', 'the walker compares scalar payloads only through scalar_eq')
    b = f.bodies.get(seq_name) if seq_name else None
    if b is None:
        run.undecided('R12.1', 'functions::scalar_eq', 'numbers', 'the scalar equality helper was not found under this name (renamed or moved into a method?): how the walker compares '
                      'number payloads is not decided here (a direct comparison of payload bytes in the walker is still reported by the raw-compare clause)')
    else:
        ps, _ = explore(b)
        num_ok = False
        raw_for_num = False
        unjust_false = []
        undecoded_raw = []
        for p in ps:
            if p.end[0] != 'return':
                continue
            tc = [c for c in p.conds if c[0][0] == 'bin' and c[0][1] == 'Eq' and any(const_of(x) == g('NUMBER_TAG') for x in (c[0][2], c[0][3]))]
            is_num = any(c[2] is True for c in tc) or any(c[1] == 'eq' and c[2] == g('NUMBER_TAG') and c[0][0] != 'bin' and 'type_code' in show(c[0]) for c in p.conds)
            r = deref_all(p.ret)
            dec = sum(1 for e in p.calls() if called(e[1], 'Number::decode'))
            if is_num and dec == 2 and r[0] == 'call' and canon(r[1]).endswith('PartialEq::eq') and 'Number' in (r[1]):
                num_ok = True
            both_ok = [c for c in p.conds if c[0][0] == 'discr' and is_call(c[0][1], 'Number::decode') and c[1] == 'eq' and c[2] == 0]
            if is_num and len(both_ok) == 2 and not (r[0] == 'call' and 'Number' in r[1]):
                raw_for_num = True
            # a NUMBER_TAG pair answered `false` although neither decode failed and the numbers were never compared (e.g. because the
            # payload widths are equal and the bytes differ): Int64(7) / UInt64(7), 2^32 / 2^32 as a float have equal widths
            dec_failed = any(c[0][0] == 'discr' and is_call(c[0][1], 'Number::decode') and not (c[1] == 'eq' and c[2] == 0) for c in p.conds)
            if is_num and not dec_failed and len(both_ok) < 2 and r[0] == 'const' and r[1] is False:
                unjust_false.append('; '.join(f'{show(c[0])[:60]} {c[1]} {c[2]}' for c in p.conds if c not in tc)[:200])
            if is_num and not dec_failed and len(both_ok) < 2 and r[0] == 'call' and 'Number' not in r[1] and canon(r[1]).split('::')[-1] in ('eq', 'ne', 'cmp', 'partial_cmp') \
                    and not any(is_call(s_, 'Number::decode') for s_ in subterms(r)):
                undecoded_raw.append('; '.join(f'{show(c[0])[:60]} {c[1]} {c[2]}' for c in p.conds if c not in tc)[:200])
        if undecoded_raw and num_ok and not raw_for_num:
            run.violation('R12.1', b.path, 'numbers[undecoded-raw]', f'a pair of NUMBER_TAG payloads is answered by comparing the payload bytes on a path where no decode failed ({undecoded_raw[0]}): '
                          'equal numbers in different encodings of the same width (Int64(7) / UInt64(7), 4294967296 / 4294967296.0) stop matching', f'{b.file}:{b.line}')
        if unjust_false and num_ok and not raw_for_num:
            run.violation('R12.1', b.path, 'numbers[undecoded-false]', f'a pair of NUMBER_TAG payloads is answered false on a path that never compares the decoded numbers ({unjust_false[0]}): '
                          'equal numbers in different encodings of the same width (Int64(7) / UInt64(7), 4294967296 / 4294967296.0) stop matching', f'{b.file}:{b.line}')
        ok = num_ok and not raw_for_num
        (run.proved if ok else run.violation)('R12.1', b.path, 'numbers', 'NUMBER_TAG payloads are decoded and compared with Number ==' if ok else
                                               'two decodable numbers are not compared as numbers in scalar_eq', f'{b.file}:{b.line}')
        import re as _re
        users = sorted({_re.sub(r'(::\{closure#\d+\})+$', '', c) for c, tg in ctx.cg.edges.items() if b.path in tg})
        need = {'functions::contains_jsonb'} | ({'functions::array_contains'} if 'functions::array_contains' in f.bodies else set())
        ok = need <= set(users)
        if not ok and 'functions::contains_jsonb' in users and 'functions::array_contains' not in f.bodies:
            ok = True
        missing_ = sorted(need - set(users))
        inlined_ = [m_ for m_ in missing_ if m_ in f.bodies and sum(1 for _, t_ in f.bodies[m_].calls() if called(callee_name(t_), 'Number::decode')) >= 1
                    and any('Number' in callee_name(t_) and canon(callee_name(t_)).endswith(('PartialEq::eq', 'PartialEq::ne', 'Ord::cmp', 'PartialOrd::partial_cmp')) for _, t_ in f.bodies[m_].calls())]
        if not ok and missing_ and inlined_ == missing_:
            run.undecided('R12.1', 'functions::scalar_eq', 'used-by', f'{missing_} no longer call(s) scalar_eq but decode and compare numbers themselves: judged by the raw-compare clause, not here')
        else:
            (run.proved if ok else run.violation)('R12.1', 'functions::scalar_eq', 'used-by', f'used by {users}' if ok else f'scalar_eq is only used by {users}: some scalar comparison of the walker bypasses it')
    numcodec.r18_4(ctx, run, rule='R12.1/R18.4')
    tree_twin_guards(ctx, run, 'R12.2')
    # byte twin: candidate filter depends on the entry kind only
    # (any closure of contains_jsonb whose result tests an entry kind against CONTAINER_TAG is a candidate filter)
    filters = []
    for pth, cb in sorted(f.bodies.items()):
        if not pth.startswith('functions::contains_jsonb::{closure') or cb.kind == 'Promoted' or cb.local_ty(0).get('s') != 'bool':
            continue
        ps, _ = explore(cb)
        rets = [p for p in ps if p.end[0] == 'return']
        mentions = any(any(const_of(x) == g('CONTAINER_TAG') for x in (s_[2], s_[3])) for p in rets for t_ in ([p.ret] + [c[0] for c in p.conds])
                       for s_ in subterms(t_) if s_[0] == 'bin' and s_[1] in ('Eq', 'Ne'))
        if mentions:
            filters.append((cb, rets))
    if not filters:
        run.undecided('R12.2', 'functions::contains_jsonb', 'candidate-filter', 'no closure of contains_jsonb that selects container elements by their entry kind was found: '
                      'how candidates for a nested container are chosen is not decided')
    for cb, rets in filters:
        ok = len(rets) == 1 and not rets[0].conds
        if ok:
            r = rets[0].ret
            ok = r[0] == 'bin' and r[1] == 'Eq' and any(const_of(x) == g('CONTAINER_TAG') for x in (r[2], r[3]))
        (run.proved if ok else run.violation)('R12.2', cb.path, 'candidate-filter', 'candidates for a nested container are all container elements of the left array' if ok else
                                               'the candidate filter for nested containers tests more than the entry kind (e.g. sizes): containment ignores multiplicity and number '
                                               'encoding width, so a longer right container can still be contained', f'{cb.file}:{cb.line}')
    b = f.bodies.get('functions::contains_jsonb')
    if b is not None:
        paths, loops = editing.region_paths(b)
        # kinds differ -> false ; array/scalar special case first ; object sizes
        first_special = any(q.blocks and q.blocks[0] == 0 and any(called(e[1], 'functions::array_contains') for e in q.calls()) and
                            sum(1 for c in q.conds if c[0][0] == 'bin' and c[0][1] == 'Eq' and c[2] is True) >= 2 for q in paths)
        if first_special:
            run.proved('R12.2', b.path, 'special-case', 'array ⊇ scalar handled first through array_contains', f'{b.file}:{b.line}')
        elif 'functions::array_contains' not in f.bodies:
            run.undecided('R12.2', b.path, 'special-case', 'the helper array_contains was not found under this name: whether the array-contains-scalar special case is handled first is not decided', f'{b.file}:{b.line}')
        else:
            run.violation('R12.2', b.path, 'special-case', 'the array-contains-scalar special case is missing from the byte implementation', f'{b.file}:{b.line}')
        kinds_differ = any(q.end[0] == 'return' and agg_variant(q.ret) and q.ret[1][2] == 'Ok' and q.ret[2][0][0] == 'const' and q.ret[2][0][1] is False and
                           any(c[0][0] == 'bin' and c[0][1] == 'Ne' and c[2] is True for c in q.conds) for q in paths)
        if kinds_differ:
            run.proved('R12.2', b.path, 'kinds-differ', 'different kinds -> false', f'{b.file}:{b.line}')
        elif not any(c[0][0] == 'bin' and c[0][1] in ('Ne', 'Eq') for q in paths for c in q.conds):
            run.undecided('R12.2', b.path, 'kinds-differ', 'no comparison of the two header kinds was found in this function (done in a helper or a struct method?): not decided', f'{b.file}:{b.line}')
        else:
            run.violation('R12.2', b.path, 'kinds-differ', 'differing kinds are not rejected', f'{b.file}:{b.line}')
    # arrays: containment ignores multiplicity, so no answer may be derived from comparing the two element counts
    if b is not None:
        def is_count(t_):
            t_ = strip_casts(deref_all(t_))
            return t_[0] == 'bin' and t_[1] == 'BitAnd' and any(const_of(x) == g('CONTAINER_HEADER_LEN_MASK') for x in (t_[2], t_[3]))
        bad = None
        nret = 0
        for q in paths:
            if q.end[0] != 'return':
                continue
            kinds_ = [c[2] for c in q.conds if c[0][0] == 'bin' and c[0][1] == 'BitAnd' and c[1] == 'eq' and any(const_of(x) == 0xE0000000 for x in (c[0][2], c[0][3]))]
            # the array/array arm: a header kind was matched as ARRAY and none as OBJECT / SCALAR (the other operand's kind is
            # tied to it by the kinds-differ test)
            if g('ARRAY_CONTAINER_TAG') not in kinds_ or g('OBJECT_CONTAINER_TAG') in kinds_ or g('SCALAR_CONTAINER_TAG') in kinds_:
                continue
            nret += 1
            for c in q.conds:
                t_ = c[0]
                if t_[0] == 'bin' and t_[1] in ('Lt', 'Le', 'Gt', 'Ge', 'Ne', 'Eq') and is_count(t_[2]) and is_count(t_[3]) and isinstance(c[2], bool):
                    r_ = deref_all(q.ret)
                    if agg_variant(r_) and r_[1][2] == 'Ok' and r_[2] and r_[2][0][0] == 'const':
                        bad = (show(t_)[:80], c[2], r_[2][0][1])
        if bad:
            run.violation('R12.2', b.path, 'array-counts', f'for two arrays the result {bad[2]} is returned after comparing the element counts ({bad[0]} = {bad[1]}): array containment ignores multiplicity '
                          '([1] contains [1,1]), so the counts say nothing; the tree implementation has no such test', f'{b.file}:{b.line}')
        elif nret:
            run.proved('R12.2', b.path, 'array-counts', 'no result for two arrays depends on comparing their element counts', f'{b.file}:{b.line}')
    # object members are looked up under exactly the same key: no case folding in the walker
    if b is not None:
        bad = []
        n_look = 0
        for pth in sorted(x for x in f.bodies if x == b.path or x.startswith(b.path + '::{closure')):
            for bb_, t_ in f.bodies[pth].calls():
                if called(callee_name(t_), 'functions::get_jentry_by_name') and t_['args']:
                    n_look += 1
                    a_ = t_['args'][-1]
                    if not (a_['k'] == 'const' and a_.get('val') in (False, 0)):
                        bad.append(f"{t_.get('file')}:{t_.get('line')}")
        if bad:
            run.violation('R12.2', b.path, 'same-key', f'the member lookup at {bad} is not called with ignore_case = false: an object is then reported to contain a member whose key differs in letter case, '
                          'which the tree implementation (exact map lookup) does not', f'{b.file}:{b.line}')
        elif n_look:
            run.proved('R12.2', b.path, 'same-key', f'{n_look} member lookup(s), all case-sensitive', f'{b.file}:{b.line}')
    tree_twin_counts(ctx, run, 'R12.2')
    kind_predicates(ctx, run, 'R12.2')
    dispatch.r11_1(ctx, run, rule='R12.3/R11.1', only={'functions::contains'})
    dispatch.r11_7(ctx, run, rule='R12.3/R11.7', only={'functions::contains'})
    import boundaries
    _bf = lambda p_: p_ in ('functions::contains_jsonb', 'functions::contains_value')
    boundaries.check(ctx, run, 'R12.4', [p_ for p_ in sorted(boundaries.load_baseline() or {}) if _bf(p_)], 'containment answers false')
    from rules import walkers as _walkers
    _walkers.w_pair(ctx, run, 'R12.9/R05.14', only=lambda p_: 'contains' in p_)
    from rules import editing as _editing
    _editing.r06_17(ctx, run, rule='R12.10/R06.17', only=lambda p_: 'contains' in p_)
    return report.finish(run, level='other', explanation=EXPLANATION, assumptions=["A1: valid documents"])
