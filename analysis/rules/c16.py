"""C16 — key-path syntax parses to its meaning, prints back faithfully and never panics (structural clauses)."""
import report
from rules import textparser
from rules import parsers, safety

ROOTS = ['keypath::parse_key_paths']
EXPLANATION = (
    "Static analysis of keypath.rs and the scanners it shares with the JSONPath grammar. R16.1: panic inventory of the key-path cone (same provers "
    "as R09.5: inductive cursor invariants, check_escaped lemma). R16.2: every Ok of parse_key_paths requires the rest to be empty. R16.3: key_path "
    "tries signed integer, then quoted string, then plain name, and no alternative is shadowed. R16.4: KeyPath prints indices and names with "
    "Display and quoted names as \"{}\", KeyPaths prints { , }, which are the grammar's own characters. R16.5: complete combinators only. R16.6: escape "
    "widths of the shared scanners agree with the decoding pass. R16.7: the plain-name scanner stops at the list delimiters and at both signs. R16.8: the index alternative puts no constraint on the character after the integer. NOT decided: completeness, spacing variants in general, escape decoding results.")


def check(ctx, run):
    run.rules_run = ['R16.1', 'R16.2', 'R16.3', 'R16.4', 'R16.5', 'R16.6', 'R16.7', 'R16.8']
    safety.panic_inventory(ctx, run, 'R16.1', ROOTS, floor=20, only=lambda p: p.startswith('jsonpath::parser::') or p.startswith('util::') or p.startswith('keypath::'))
    parsers.whole_input(ctx, run, 'R16.2', 'keypath::parse_key_paths', 'InvalidKeyPath')
    tabs = parsers.r09_8(ctx, run, 'R16.3', ('keypath::',), 2)
    for fn, members, e in tabs:
        if fn == 'keypath::key_path':
            kinds = [parsers.leading(m)[0] for m in members]
            want = [('num', 'i32'), ('fn', 'string'), ('fn', 'raw_string')]
            ok = kinds == want
            (run.proved if ok else run.violation)('R16.3', fn, 'order', 'index, then quoted name, then plain name' if ok else f'alternatives are tried in the order {kinds}, not {want}')
    parsers.r16_4(ctx, run)
    parsers.r16_7(ctx, run)
    parsers.r16_8(ctx, run, tabs)
    parsers.r09_4(ctx, run, 'R16.5', ROOTS)
    parsers.r_widths(ctx, run, 'R16.6')
    textparser.r02_12(ctx, run, rule='R16.6/R02.12')
    safety.forbidden_calls(ctx, run, 'R16.9', ROOTS, ('String::from_utf8_lossy', 'from_utf8_lossy', 'String::from_utf16_lossy', 'char::from_u32_unchecked'),
                           'the parser', 'ill-formed input is silently repaired (U+FFFD substituted) instead of being rejected with an error',
                           only=lambda p_: p_.startswith(('util::', 'parser::', 'jsonpath::parser::', 'keypath::')))
    textparser.r02_3(ctx, run, rule='R16.6/R02.3')
    textparser.r02_10(ctx, run, rule='R16.6/R02.10')
    import boundaries
    _bf = lambda p_: p_.startswith(('jsonpath::parser::', 'util::', 'keypath::'))
    boundaries.check(ctx, run, 'R16.10', [p_ for p_ in sorted(boundaries.load_baseline() or {}) if _bf(p_)], 'the key-path scanner rejects input')
    parsers.empty_literal(ctx, run, 'R16.9/R09.7')
    return report.finish(run, level='other', explanation=EXPLANATION, assumptions=["nom 7 contracts as for C09", "A3"])
