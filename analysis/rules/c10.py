"""C10 — decoding untrusted bytes never panics and never yields ill-formed strings."""
import report
from rules import safety, recursion
from sym import explore, show
from pat import called, canon, is_call, deref_all, agg_variant
from mir import callee_name

ROOTS = ['de::from_slice', 'de::parse_jsonb']

EXPLANATION = (
    "Static analysis of the cone of from_slice / parse_jsonb (decoder, Number::decode, JEntry::decode_jentry and, through the "
    "text fallback, the JSON parser and its escape decoder). R10.1: every panic site of the cone (MIR Assert terminators for "
    "bounds / unsigned subtraction / division, unwrap/expect, Index::index with positions and ranges, explicit panics) is "
    "enumerated from MIR and must be discharged on every CFG path by the path's own branch conditions (interval + difference-"
    "constraint facts, success of slice::get / `?` plumbing, element-count accounting of queues (P-count) with callee summaries) "
    "or be listed in the reviewed assumption table; anything else is a violation naming the site. R10.2: every "
    "from_utf8_unchecked in the cone must be a reviewed site. R10.3: on every path of from_slice the binary decoder is only "
    "entered after is_jsonb(buf) held or the text parser rejected buf. R10.4: the decoder touches its input only through "
    "checked readers. R10.5: recursion on nesting depth (known finding). NOT decided: that every proper prefix is rejected.")

ASSUME = ["A2/A3 as in DESIGN.md §8", "reviewed assumption table assume.json (one reason per site)",
          "std contracts: slice::get is Some iff in range; io::Write for Vec<u8> is infallible; byteorder read_u32 returns Err on short input"]


def r10_3(ctx, run, rule='R10.3'):
    f = ctx.facts
    b = f.one('de::from_slice')
    if b is None:
        run.undecided(rule, 'de::from_slice', 'body', 'function not found (anchor lost)')
        return
    ps, _ = explore(b)
    n = 0
    for p in ps:
        for e in p.calls():
            if called(e[1], 'Decoder::decode'):
                n += 1
                conds = p.conds[:e[6]]
                sniffed = False
                rejected = False
                for c in conds:
                    t = c[0]
                    if is_call(t, 'functions::is_jsonb') and deref_all(t[2][0])[0] == 'init':
                        if c[2] is True:
                            sniffed = True
                    if t[0] == 'discr' and is_call(t[1], 'parser::parse_value') and c[1] == 'eq' and c[2] == 1:
                        rejected = True
                    if t[0] == 'discr' and is_call(t[1], 'parser::parse_value') and c[1] == 'ne' and 0 in c[2]:
                        rejected = True
                loc = f"{e[5].get('file')}:{e[5].get('line')}"
                if sniffed or rejected:
                    run.proved(rule, b.path, 'decoder-entry', 'reached only with a JSONB first byte' if sniffed else 'reached only after the text parser rejected the input', loc)
                else:
                    run.violation(rule, b.path, 'decoder-entry', 'a path reaches the binary decoder although the first byte is not a JSONB prefix and the text parser was not tried first: '
                                  'JSON text such as 12340123 is misread as binary', loc)
    run.floor(rule, 'paths entering the decoder in from_slice', n, 1)


ALLOWED_BUF_CONSUMERS = ('ReadBytesExt::read_u32', 'slice::get', 'slice::len', 'Index::index', 'len')


def r10_4(ctx, run, rule='R10.4'):
    """All uses of the decoder's input go through checked readers."""
    f = ctx.facts
    n = 0
    for p, b in sorted(f.bodies.items()):
        if not p.startswith("de::Decoder::<'a>::") or b.kind == 'Promoted':
            continue
        ps, _ = explore(b)
        seen = set()
        for q in ps:
            for e in q.calls():
                for a in e[2]:
                    x = deref_all(a)
                    if x[0] == 'field' and x[2] == 'buf':
                        key = canon(e[1])
                        if key in seen:
                            continue
                        seen.add(key)
                        n += 1
                        loc = f"{e[5].get('file')}:{e[5].get('line')}"
                        last = key.split('::')[-1]
                        if called(e[1], *ALLOWED_BUF_CONSUMERS):
                            run.proved(rule, p, f'use[{last}]', 'checked reader')
                        elif 'unchecked' in last or last in ('from_raw_parts', 'as_ptr', 'as_mut_ptr', 'transmute', 'offset', 'add', 'read', 'read_unaligned') and 'ReadBytesExt' not in key:
                            run.violation(rule, p, f'use[{key}]', 'the decoder input is consumed by an unchecked primitive (no bounds / validity check): untrusted bytes can be read out of range',
                                          loc)
                        elif e[1] in f.bodies:
                            run.proved(rule, p, f'use[{last}]', 'handed to a function of this crate, which is part of the analysed cone (R10.1)', nontrivial=False)
                        elif called(e[1], 'slice::split_at', 'slice::split_first', 'slice::split_last', 'slice::first', 'slice::last', 'slice::iter', 'slice::is_empty',
                                    'slice::starts_with', 'slice::to_vec', 'slice::chunks', 'slice::chunks_exact', 'slice::split_at_checked', 'slice::first_chunk',
                                    'slice::split_first_chunk', 'slice::copy_from_slice', 'ReadBytesExt::read_u8', 'ReadBytesExt::read_u16', 'ReadBytesExt::read_u64',
                                    'Read::read_exact', 'Deref::deref', 'AsRef::as_ref', 'Clone::clone'):
                            run.proved(rule, p, f'use[{last}]', 'safe std reader; its panic conditions, if any, are sites of R10.1')
                        else:
                            run.undecided(rule, p, f'use[{key}]', 'the decoder input is consumed by a callee this rule has no classification for (neither a known checked reader nor a known unchecked primitive)', loc)
    run.floor(rule, 'uses of the decoder input', n, 5)


def check(ctx, run):
    run.rules_run = ['R10.1', 'R10.2', 'R10.3', 'R10.4', 'R10.5', 'R10.6', 'R10.7', 'R10.8']
    _, cone = safety.panic_inventory(ctx, run, 'R10.1', ROOTS, floor=40)
    safety.unchecked_utf8(ctx, run, 'R10.2', cone, floor=1)
    r10_3(ctx, run)
    r10_4(ctx, run)
    recursion.rrec(ctx, run, 'R10.5', ROOTS, {'document'}, 'recursion on the nesting depth of untrusted input', floor=2)
    from rules import textparser
    textparser.r02_13(ctx, run, rule='R10.7/R02.15')
    import boundaries
    _bf = lambda p_: p_.startswith(('de::', 'number::Number::decode', 'parser::'))
    boundaries.check(ctx, run, 'R10.6', [p_ for p_ in sorted(boundaries.load_baseline() or {}) if _bf(p_)], 'the decoder rejects input')
    from rules import layout as _layout
    _layout.r01_2(ctx, run, rule='R10.8/R01.2')
    from rules import units as _units
    _units.check(ctx, run, 'R10.9/R05.15', only=lambda p_: p_.startswith('de::'))
    from rules import dispatch as _dispatch
    _dispatch.sniff_table(ctx, run, 'R10.10')
    return report.finish(run, level='other', explanation=EXPLANATION, assumptions=ASSUME)
