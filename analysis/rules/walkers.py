"""Walker discipline (R05.1-R05.3) for every loop / iterator body that reads JSONB entry words.

An *entry read* is `JEntry::decode_jentry(read_u32(B, j))` (possibly through .ok()? / match).  On every CFG path
from a loop head back to the head (or, for iterator structs, from `next` entry to a `Some` return):
  W-ADVANCE  a cursor that is advanced by an entry's `length` must be advanced by the length of an entry that was
             read on this very path from the buffer the cursor indexes, each such entry at most once; and the
             entry cursor advances by 4 per entry read through it.
  W-PAIR     if an entry was read through cursor j and the path continues the walk (reaches the head again), then
             both j (by 4) and the payload cursor (by that entry's length) are advanced — no path advances one
             without the other.
  W-INIT     the cursors' initial values have the documented affine form: first entry word at base+4 (base if the
             slice was pre-cut by 4), first payload at base + 4 + 4n (array) / base + 4 + 8n (object).
"""
from sym import Explorer, explore, show, lin, lin_sub, subterms
from pat import called, canon, is_call, deref_all, strip_casts, unwrap_ok, agg_variant
from mir import natural_loops
from panics import base_of


def entry_reads(path):
    """[(E term, buffer term, offset term, event)] for decode_jentry(read_u32(B, off)) on a path."""
    out = []
    for e in path.calls():
        if called(e[1], 'JEntry::decode_jentry') and e[2]:
            src, chain = unwrap_ok(e[2][0])
            src = deref_all(src)
            if src[0] == 'call' and called(src[1], 'functions::read_u32', 'iterator::read_u32') and len(src[2]) == 2:
                out.append((e[4], base_of(src[2][0]), src[2][1], e))
    return out


def cursor_deltas(body, path, start_is_entry=False):
    """{cursor key: (name, start term, end term)} for integer locals / `self` fields assigned on the path."""
    out = {}
    for k, v in path.store.items():
        if k[0] == 'L':
            l = k[1]
            ty = body.local_ty(l)
            if ty.get('k') != 'int' or ty.get('s') != 'usize':
                continue
            name = body.name_of(l)
            if name is None:
                continue
            start = None
            for s in subterms(v):
                if s[0] in ('hav', 'init') and s[1] == l:
                    start = s
                    break
            if start is None:
                continue
            out[('L', l)] = (name, start, v)
        elif k[0] == 'S' and k[1][0] == 'M' and k[2][0] == 'field':
            base = k[1][1]
            if base[0] == 'deref' and base[1][0] == 'init':
                fname = k[2][1]
                start = ('field', base, fname, k[2][2])
                if isinstance(v, tuple) and any(s == start for s in subterms(v)):
                    out[('F', base[1][1], fname)] = (fname, start, v)
    return out


def length_atoms(l):
    """atoms of a linear form that are `<entry>.length` (as usize): returns {entry term: coef}"""
    out = {}
    rest = {}
    for a, c in l[0].items():
        a0 = strip_casts(a)
        if a0[0] == 'field' and a0[2] == 'length':
            out[deref_all(a0[1])] = out.get(deref_all(a0[1]), 0) + c
        else:
            rest[a] = c
    return out, rest


def buffers_of_cursor(body, paths, ckey, start):
    """Buffers a cursor is used with: as the offset of read_u32(B, ·) or as a slice bound of B."""
    bufs = set()
    for p in paths:
        for e in p.calls():
            if called(e[1], 'functions::read_u32', 'iterator::read_u32') and len(e[2]) == 2:
                if any(s == start for s in subterms(e[2][1])):
                    bufs.add(('entry', base_of(e[2][0])))
            elif called(e[1], 'Index::index') and len(e[2]) == 2:
                if any(s == start for s in subterms(e[2][1])):
                    bufs.add(('payload', base_of(e[2][0])))
            elif called(e[1], 'functions::extract_by_jentry') and len(e[2]) == 4:
                if any(s == start for s in subterms(e[2][2])):
                    bufs.add(('payload', base_of(e[2][3])))
            elif called(e[1], 'functions::escape_scalar_string') and len(e[2]) == 4:
                if any(s == start for s in subterms(e[2][1])) or any(s == start for s in subterms(e[2][2])):
                    bufs.add(('payload', base_of(e[2][0])))
    return bufs


def queue_buffers(paths):
    """{queue term: buffer} for queues that are only ever filled with entries decoded from one buffer."""
    out = {}
    bad = set()
    for p in paths:
        reads = {E: B for (E, B, off, e) in entry_reads(p)}
        for e in p.calls():
            if called(e[1], 'VecDeque::push_back', 'Vec::push') and len(e[2]) == 2:
                q = deref_all(e[2][0])
                v = e[2][1]
                Bs = {reads[E] for E in reads if E == v or any(sx == E for sx in subterms(v))}
                if len(Bs) == 1:
                    B = next(iter(Bs))
                    if q in out and out[q] != B:
                        bad.add(q)
                    out[q] = B
    for q in bad:
        out.pop(q, None)
    return out


def queued_entries(path, qbuf):
    """Entry terms obtained by popping a queue of entries: {E: (buffer or None, None)}"""
    out = {}
    for e in path.calls():
        if called(e[1], 'VecDeque::pop_front', 'Vec::pop', 'VecDeque::pop_back') and e[2]:
            q = deref_all(e[2][0])
            B = qbuf.get(q)
            res = e[4]
            # the popped value as seen by later code: unwrap(res) / (res as Some).0, possibly a tuple whose .0 is the entry
            for form in (('call_unwrap', res),):
                pass
            out[('call', 'std::option::Option::<T>::unwrap', (res,), None)] = (B, None)
            out[('__pop__', res)] = (B, None)
    return PopMap(out)


class PopMap(dict):
    """Entry lookup that recognises any term built on a pop_front result (unwrap / as Some / tuple field)."""

    def _pop_of(self, E):
        for s in subterms(E):
            if s[0] == 'call' and called(s[1], 'VecDeque::pop_front', 'Vec::pop', 'VecDeque::pop_back'):
                k = ('__pop__', s)
                if dict.__contains__(self, k):
                    return dict.__getitem__(self, k)
        return None

    def __contains__(self, E):
        return dict.__contains__(self, E) or self._pop_of(E) is not None

    def __getitem__(self, E):
        if dict.__contains__(self, E):
            return dict.__getitem__(self, E)
        r = self._pop_of(E)
        if r is None:
            raise KeyError(E)
        return r


def pushed_terms(path):
    out = []
    for e in path.calls():
        if called(e[1], 'VecDeque::push_back', 'Vec::push') and len(e[2]) == 2:
            out.append(e[2][1])
    return out


class WalkerReport:
    def __init__(self):
        self.loops = 0
        self.iter_paths = 0
        self.entries = 0


def check_function(run, rule, body, rep):
    loops = natural_loops(body)
    ex = Explorer(body, max_paths=3000)
    all_paths = []
    regions = {}
    for s in [0] + sorted(loops):
        ps = ex.explore(start=s, stop=set(loops))
        regions[s] = ps
        all_paths.extend(ps)
    is_iter = body.path.endswith('::next') and 'iterator::' in body.path
    found = False
    qbuf = queue_buffers(all_paths)
    for h, ps in regions.items():
        if h == 0 and not is_iter:
            continue
        iter_paths = []
        for p in ps:
            if is_iter:
                if p.end[0] == 'return' and agg_variant(p.ret) and p.ret[1][2] == 'Some':
                    iter_paths.append(p)
            elif p.end[0] in ('backedge', 'stop') and p.end[1] == h:
                iter_paths.append(p)
        if not iter_paths:
            continue
        loop_has_reads = any(entry_reads(p) for p in ps)
        if not loop_has_reads:
            continue
        found = True
        rep.loops += 1
        loc = f"{body.file}:{body.blocks[h]['term'].get('line') or body.line}"
        problems = []
        unknown = []
        for p in iter_paths:
            rep.iter_paths += 1
            reads = entry_reads(p)
            rep.entries += len(reads)
            deltas = cursor_deltas(body, p)
            by_entry = {E: (B, off) for (E, B, off, e) in reads}
            queued = queued_entries(p, qbuf)
            direct = by_entry
            by_entry = queued
            for k_, v_ in direct.items():
                dict.__setitem__(by_entry, k_, v_)
            pushed = pushed_terms(p)
            used = {}
            entry_cursor_adv = {}
            for ck, (name, start, end) in deltas.items():
                d = lin_sub(lin(end), lin(start))
                lens, rest = length_atoms(d)
                bufs = buffers_of_cursor(body, all_paths, ck, start)
                pay_bufs = {b for k, b in bufs if k == 'payload'}
                ent_bufs = {b for k, b in bufs if k == 'entry'}
                for E, c in lens.items():
                    if c != 1:
                        problems.append(f'cursor `{name}` advances by {c} × the length of one entry')
                    if E not in by_entry:
                        # an entry taken out of a collection this rule does not track (filled by a helper, iterated with adaptors):
                        # which buffer it was read from is unknown
                        if any(s_[0] == 'call' and canon(s_[1]).split('::')[-1] in ('next', 'pop_front', 'pop', 'get', 'index', 'remove', 'next_back') for s_ in subterms(E)):
                            unknown.append(f'cursor `{name}` advances by the length of an entry taken from a collection whose contents are not tracked ({show(E)[:60]})')
                        else:
                            problems.append(f'cursor `{name}` advances by the length of an entry that was not read on this path ({show(E)[:60]})')
                        continue
                    B, off = by_entry[E]
                    # the cursor must index the same buffer the entry was read from (when we know which buffer it indexes)
                    known = pay_bufs or set()
                    if known and B is not None and B not in known:
                        problems.append(f'cursor `{name}` indexes {", ".join(show(x)[:30] for x in known)} but is advanced by the length of an entry read from {show(B)[:30]}')
                    used.setdefault(E, []).append(name)
                if not lens and not rest and d[1] and ent_bufs:
                    entry_cursor_adv[start] = d[1]
            # entry cursors: each read through cursor j on a continuing path requires j += 4 (times the reads through it)
            for (E, B, off, e) in reads:
                offl = lin(off)
                base_atoms = [a for a in offl[0] if a[0] in ('hav', 'init', 'field')]
                for ck, (name, start, end) in deltas.items():
                    if start in offl[0]:
                        d = lin_sub(lin(end), lin(start))
                        lens, rest = length_atoms(d)
                        if not lens and not rest:
                            # the cursor may be a byte offset (coefficient 1) or an element index scaled in the read (`4 * i`);
                            # reads whose offsets differ only by a constant walk the same entry array
                            coef = offl[0][start]

                            def rest_of(o):
                                lo = lin(o)
                                return tuple(sorted((repr(a), c) for a, c in lo[0].items() if a != start))
                            mine = rest_of(off)
                            nreads = len({off2 for (E2, B2, off2, e2) in reads if start in lin(off2)[0] and lin(off2)[0][start] == coef and rest_of(off2) == mine})
                            if coef * d[1] != 4 * nreads:
                                problems.append(f'entry cursor `{name}` advances by {d[1]}' + (f' (scaled by {coef} in the read)' if coef != 1 else '') +
                                                f' after {nreads} entry read(s) (expected {4 * nreads} bytes)')
                # W-PAIR: an entry read on a continuing path must have its length consumed by exactly one payload cursor,
                # unless no cursor of this walk is length-advanced at all (pure entry scans)
            if any(length_atoms(lin_sub(lin(end), lin(start)))[0] for (name, start, end) in deltas.values()) or True:
                any_len_cursor = any(length_atoms(lin_sub(lin(end), lin(start)))[0] for (name, start, end) in deltas.values())
                for (E, B, off, e) in reads:
                    # was an entry cursor advanced past this entry?
                    offl = lin(off)
                    moved = False
                    for ck, (name, start, end) in deltas.items():
                        if start in offl[0]:
                            moved = lin_sub(lin(end), lin(start))[1] != 0
                    n_used = len(used.get(E, []))
                    is_queued = any(E == x or any(sx == E for sx in subterms(x)) for x in pushed)
                    if moved and n_used == 0 and not is_queued:
                        problems.append(f'the entry cursor moves past an entry of {show(B)[:30]} but neither is a payload cursor advanced by that entry\'s length on this path nor is the entry kept for later')
                    if n_used > 1:
                        # value and key cursors of the same buffer may both legitimately skip key lengths (val_offset starts after the keys)
                        pass
        key = 'walk'
        if problems:
            uniq = []
            for x in problems:
                if x not in uniq:
                    uniq.append(x)
            run.violation(rule, body.path, f'loop@{loop_ordinal(loops, h)}', '; '.join(uniq[:3]), loc)
        elif unknown:
            run.undecided(rule, body.path, f'loop@{loop_ordinal(loops, h)}', '; '.join(sorted(set(unknown))[:2]), loc)
        else:
            run.proved(rule, body.path, f'loop@{loop_ordinal(loops, h)}', f'{len(iter_paths)} iteration path(s): entry and payload cursors advance in step with the entries read', loc)
    return found


def loop_ordinal(loops, h):
    return sorted(loops).index(h) if h in loops else 'next'


def has_payload_cursor(body, all_paths, regions, B):
    """Does this function keep a length-advanced cursor for buffer B at all?"""
    for p in all_paths:
        for ck, (name, start, end) in cursor_deltas(body, p).items():
            lens, rest = length_atoms(lin_sub(lin(end), lin(start)))
            if lens:
                bufs = buffers_of_cursor(body, all_paths, ck, start)
                if not bufs or any(b == B for k, b in bufs):
                    return True
    return False


def walker_functions(ctx, prefixes=('functions::', 'iterator::', '<iterator::')):
    out = []
    for p, b in sorted(ctx.facts.bodies.items()):
        if b.kind == 'Promoted':
            continue
        if any(p.startswith(x) for x in prefixes):
            out.append(b)
    return out


def w_advance(ctx, run, rule='R05.2', only=None, floor=None):
    rep = WalkerReport()
    n = 0
    for b in walker_functions(ctx):
        if only is not None and not only(b.path):
            continue
        if check_function(run, rule, b, rep):
            n += 1
    run.count('walker_functions', n)
    run.count('walker_loops', rep.loops)
    run.count('walker_iteration_paths', rep.iter_paths)
    run.count('entry_reads_on_paths', rep.entries)
    if floor is not None:
        run.floor(rule, 'entry-reading loops / iterator bodies', rep.loops, floor)
    return rep


# ------------------------------------------------------------------ W-INIT

def count_atom(a):
    """Is the atom `(header & CONTAINER_HEADER_LEN_MASK) as usize` (an element count read from a header)?"""
    a = strip_casts(a)
    return a[0] == 'bin' and a[1] == 'BitAnd' and any(x[0] == 'const' and x[1] == 0x1FFFFFFF for x in (a[2], a[3]))


def step_fn_roles(ctx):
    """For local functions with `&mut usize` cursor parameters that read entry words: {fn: {param idx: 'entry'|'payload'}}"""
    f = ctx.facts
    out = {}
    for p, b in f.bodies.items():
        if b.kind == 'Promoted' or not (p.startswith('functions::') or p.startswith('iterator::')):
            continue
        cur = [i for i in range(1, b.argc + 1) if b.local_ty(i).get('k') == 'ref' and b.local_ty(i).get('mut') and b.local_ty(i)['inner'].get('s') == 'usize']
        if not cur:
            continue
        ex = Explorer(b, max_paths=2000)
        paths = ex.explore()
        roles = {}
        for q in paths:
            for (E, B, off, e) in entry_reads(q):
                for s in subterms(off):
                    if s[0] == 'deref' and s[1][0] == 'init' and s[1][1] in cur:
                        roles[s[1][1]] = 'entry'
            for e in q.calls():
                if called(e[1], 'Index::index', 'functions::escape_scalar_string', 'functions::extract_by_jentry'):
                    for a in e[2][1:]:
                        for s in subterms(a):
                            if s[0] == 'deref' and s[1][0] == 'init' and s[1][1] in cur and roles.get(s[1][1]) != 'entry':
                                roles[s[1][1]] = 'payload'
        if roles:
            out[p] = roles
    return out


def w_init(ctx, run, rule='R05.1', only=None, floor=None):
    f = ctx.facts
    steps = step_fn_roles(ctx)
    n = 0
    for b in walker_functions(ctx):
        if only is not None and not only(b.path):
            continue
        loops = natural_loops(b)
        if not loops:
            continue
        ex = Explorer(b, max_paths=3000)
        regions = {s: ex.explore(start=s, stop=set(loops)) for s in [0] + sorted(loops)}
        all_paths = [p for ps in regions.values() for p in ps]
        # roles of named usize locals
        entry_bufs = {}     # local -> set(buffers) read through it
        payload_bufs = {}   # local -> set(buffers) sliced with it
        advanced_in = {}    # local -> set(loop heads) in which it is advanced
        for h, ps in regions.items():
            for q in ps:
                def locals_in(t):
                    return {s[1] for s in subterms(t) if s[0] in ('hav', 'init') and b.name_of(s[1]) and b.local_ty(s[1]).get('s') == 'usize'}
                for e in q.calls():
                    if called(e[1], 'functions::read_u32', 'iterator::read_u32') and len(e[2]) == 2:
                        for l in locals_in(e[2][1]):
                            entry_bufs.setdefault(l, set()).add(base_of(e[2][0]))
                    elif called(e[1], 'Index::index') and len(e[2]) == 2:
                        for l in locals_in(e[2][1]):
                            payload_bufs.setdefault(l, set()).add(base_of(e[2][0]))
                    elif called(e[1], 'functions::extract_by_jentry') and len(e[2]) == 4:
                        for l in locals_in(e[2][2]):
                            payload_bufs.setdefault(l, set()).add(base_of(e[2][3]))
                    elif called(e[1], 'functions::escape_scalar_string') and len(e[2]) == 4:
                        for l in locals_in(e[2][1]):
                            payload_bufs.setdefault(l, set()).add(base_of(e[2][0]))
                    else:
                        c = e[5]['callee']
                        tgt = c.get('resolved') if c.get('resolved_local') else None
                        if tgt in steps:
                            buf = None
                            for i, a in enumerate(e[2]):
                                ty = f.bodies[tgt].local_ty(i + 1)
                                if ty.get('k') == 'ref' and ty.get('inner', {}).get('s') == '[u8]':
                                    buf = base_of(a)
                            for i, a in enumerate(e[2]):
                                role = steps[tgt].get(i + 1)
                                if role is None:
                                    continue
                                a0 = a
                                if a0[0] == 'ref' and a0[1][0] == 'loc' and a0[1][1][0] == 'L':
                                    l = a0[1][1][1]
                                    (entry_bufs if role == 'entry' else payload_bufs).setdefault(l, set()).add(buf)
                                    if h != 0:
                                        advanced_in.setdefault(l, set()).add(h)
                if h != 0 and q.end[0] in ('backedge', 'stop') and q.end[1] == h:
                    reads = {E: B for (E, B, off, e) in entry_reads(q)}
                    for ck, (name, start, end) in cursor_deltas(b, q).items():
                        dl = lin_sub(lin(end), lin(start))
                        if ck[0] == 'L' and dl != ({}, 0):
                            advanced_in.setdefault(ck[1], set()).add(h)
                            lens, rest = length_atoms(dl)
                            for E in lens:
                                if E in reads:
                                    payload_bufs.setdefault(ck[1], set()).add(reads[E])
        if not entry_bufs:
            continue
        # initial values: value of the cursor when a loop that advances it is first reached from the function entry
        inits = {}
        for q in regions[0]:
            if q.end[0] != 'stop':
                continue
            for l in set(entry_bufs) | set(payload_bufs):
                v = q.store.get(('L', l))
                if v is None or any(s[0] in ('hav',) for s in subterms(v)):
                    continue
                inits.setdefault(l, set()).add(v)
        for v_local, vbufs in sorted(payload_bufs.items()):
            if v_local in entry_bufs and not any(count_atom(a) for iv in inits.get(v_local, []) for a in lin(iv)[0]):
                continue   # a cursor reused first as entry cursor (object_each's `offset`)
            for j_local, jbufs in sorted(entry_bufs.items()):
                if j_local == v_local or not (vbufs & jbufs):
                    continue
                # only cursors that walk together (advanced in a common loop) are paired
                if not (advanced_in.get(v_local, set()) & advanced_in.get(j_local, set())):
                    common = False
                    for h in advanced_in.get(j_local, set()):
                        for q in regions.get(h, []):
                            if any(s[0] in ('hav', 'init') and s[1] == v_local for e in q.calls() for a in e[2] for s in subterms(a)):
                                common = True
                    if not common:
                        continue
                for vi in inits.get(v_local, []):
                    for ji in inits.get(j_local, []):
                        d = lin_sub(lin(vi), lin(ji))
                        counts = {a: c for a, c in d[0].items() if count_atom(a)}
                        others = {a: c for a, c in d[0].items() if not count_atom(a)}
                        if not counts:
                            continue
                        n += 1
                        # top-level loops in which the entry cursor is advanced
                        hs = advanced_in.get(j_local, set())
                        top = [h for h in hs if not any(h != h2 and h in loops[h2] for h2 in hs)]
                        phases = len(top)
                        kind = container_kind(ctx, b, regions, hs)
                        if kind is None:
                            run.undecided(rule, b.path, f'init[{b.name_of(v_local)} - {b.name_of(j_local)}]', 'the container kind walked here is not established by a dominating header-tag test in this function or at all its call sites')
                            continue
                        want = 8 if kind == 'object' else 4
                        desc = f'init[{b.name_of(v_local)} - {b.name_of(j_local)}]'
                        loc = f'{b.file}:{b.line}'
                        if any(count_atom(a) for a in lin(ji)[0]):
                            # the entry cursor itself starts inside the entry area (e.g. at the value entries of an object, 4 × count):
                            # the relation between the two start values is then not the plain "payload area follows the entry words"
                            run.undecided(rule, b.path, desc, f'the entry cursor starts at {show(ji)[:60]}, inside the entry area; the start of the payload cursor relative to it '
                                          '(which depends on the payload skipped before) is not decided by this rule', loc)
                            continue
                        if len(counts) == 1 and not others and d[1] == 0 and list(counts.values())[0] == want:
                            run.proved(rule, b.path, desc, f'= {want} × element count: the payload area starts right after the {"2n" if want == 8 else "n"} entry words', loc)
                        else:
                            run.violation(rule, b.path, desc,
                                          f'the payload cursor starts {show_lin(d)} bytes after the entry cursor; the layout puts it {want} × count bytes after '
                                          f'({"an object has 2n" if want == 8 else "an array has n"} entry words of 4 bytes)', loc)
    # iterator constructors
    table = {
        'iterator::iterate_array': {'jentry_offset': (0, 4), 'val_offset': (4, 4)},
        'iterator::iteate_object_keys': {'jentry_offset': (0, 4), 'key_offset': (8, 4)},
        'iterator::iterate_object_entries': {'jentry_offset': (0, 4), 'key_offset': (8, 4), 'val_offset': (8, 4)},
    }
    for fn, fields in table.items():
        if only is not None and not only(fn):
            continue
        b = f.bodies.get(fn)
        if b is None:
            run.undecided(rule, fn, 'init', 'iterator constructor not found (anchor lost)')
            continue
        ps = [q for q in Explorer(b).explore() if q.end[0] == 'return']
        for q in ps:
            r = q.ret
            if not (agg_variant(r)):
                run.violation(rule, fn, 'init', f'constructor does not return a struct literal: {show(r)[:80]}', f'{b.file}:{b.line}')
                continue
            adt = f.adts.get(r[1][1])
            names = [fl['name'] for fl in adt['variants'][0]['fields']] if adt else []
            for fname, (c, k) in fields.items():
                if fname not in names:
                    run.undecided(rule, fn, f'init[{fname}]', 'field not found (anchor lost)', f'{b.file}:{b.line}')
                    continue
                n += 1
                val = r[2][names.index(fname)]
                l = lin(val)
                counts = {a: cc for a, cc in l[0].items() if count_atom(a)}
                others = {a: cc for a, cc in l[0].items() if not count_atom(a)}
                ok = (not others) and l[1] == k and ((c == 0 and not counts) or (len(counts) == 1 and list(counts.values())[0] == c))
                if ok:
                    run.proved(rule, fn, f'init[{fname}]', f'= {k}' + (f' + {c} × count' if c else ''), f'{b.file}:{b.line}')
                else:
                    run.violation(rule, fn, f'init[{fname}]', f'starts at {show_lin(l)}, the layout requires {k}' + (f' + {c} × count' if c else ''), f'{b.file}:{b.line}')
    if floor is not None:
        run.floor(rule, 'cursor initialisations checked against the layout', n, floor)
    return n


ARRAY_TAG, OBJECT_TAG, TYPE_MASK = 0x80000000, 0x40000000, 0xE0000000


def kind_from_conds(conds):
    kinds = set()
    for c in conds:
        t = c[0]
        if t[0] == 'bin' and t[1] == 'BitAnd' and any(x[0] == 'const' and x[1] == TYPE_MASK for x in (t[2], t[3])) and c[1] == 'eq':
            if c[2] == ARRAY_TAG:
                kinds.add('array')
            elif c[2] == OBJECT_TAG:
                kinds.add('object')
    return kinds


_kind_cache = {}


def container_kind(ctx, b, regions, heads, depth=0):
    """'array' | 'object' | None: the header kind established on every path that reaches the walker loops."""
    kinds = set()
    unknown = False
    for q in regions.get(0, []):
        if q.end[0] == 'stop' and q.end[1] in heads:
            k = kind_from_conds(q.conds)
            if len(k) == 1:
                kinds |= k
            elif len(k) == 0:
                unknown = True
            else:
                # both tags tested on the path (two documents): fine if they agree
                kinds |= k
    if kinds and not unknown and len(kinds) == 1:
        return next(iter(kinds))
    if depth > 2:
        return None
    # infer from the call sites
    key = b.path
    if key in _kind_cache:
        return _kind_cache[key]
    _kind_cache[key] = None
    f = ctx.facts
    cg = ctx.cg
    ks = set()
    sites = 0
    for caller, tgts in cg.edges.items():
        if b.path not in tgts or caller == b.path:
            continue
        cb = f.bodies[caller]
        cl = natural_loops(cb)
        ex = Explorer(cb, max_paths=3000)
        for s0 in [0] + sorted(cl):
            for q in ex.explore(start=s0, stop=set(cl)):
                for e in q.calls():
                    c = e[5]['callee']
                    r = c.get('resolved') if c.get('resolved_local') else (c.get('written') if c.get('local') else None)
                    if r != b.path:
                        continue
                    sites += 1
                    k = kind_from_conds(q.conds[:e[6]])
                    if len(k) == 1:
                        ks |= k
                    elif s0 != 0 or len(k) == 0:
                        # inside a loop region the earlier tag test is not on this path: ask the caller's own kind
                        kk = container_kind(ctx, cb, {0: ex.explore(start=0, stop=set(cl))}, {s0}, depth + 1) if s0 != 0 else None
                        if kk:
                            ks.add(kk)
                        else:
                            ks.add('?')
                    else:
                        ks |= k
    res = next(iter(ks)) if len(ks) == 1 and '?' not in ks else None
    _kind_cache[key] = res
    return res


def show_lin(l):
    parts = []
    for a, c in l[0].items():
        parts.append((f'{c} × ' if c != 1 else '') + ('count' if count_atom(a) else show(a)[:40]))
    if l[1] or not parts:
        parts.append(str(l[1]))
    return ' + '.join(parts)


# ------------------------------------------------------------------ W-PAIR: a container header travels with the bytes it was read from

def _pair_family(f):
    """{function: [(header param, slice param, offset param | None)]} for crate functions that take a container header word next to the
    bytes it describes (`header: u32, value: &[u8]`; `left_header` with `left`; `arr_header` with `arr`)."""
    from rules.parsers import _param_names
    fam = {}
    for p, b in f.bodies.items():
        if b.kind == 'Promoted' or '::{closure' in p:
            continue
        names = _param_names(b)
        hs = [k for k in range(1, b.argc + 1) if b.local_ty(k).get('s') == 'u32' and (names.get(k) or '').endswith('header')]
        ss = [k for k in range(1, b.argc + 1) if '[u8]' in str(b.local_ty(k).get('s')) and b.local_ty(k).get('k') == 'ref']
        offs = [k for k in range(1, b.argc + 1) if b.local_ty(k).get('s') == 'usize' and (names.get(k) or '') in ('offset', 'value_offset')]
        out = []
        for h in hs:
            pre = names[h][:-len('header')].rstrip('_')
            cand = [s for s in ss if (names.get(s) or '') == pre] if pre else []
            if not cand and len(ss) == 1 and len(hs) == 1:
                cand = ss
            if not cand and not pre and len(hs) == 1 and ss:
                cand = ss[:1]
            if cand:
                out.append((h, cand[0], offs[0] if len(offs) == 1 and len(hs) == 1 else None))
        if out:
            fam[p] = out
    return fam


def _slice_root(t):
    """(root term, offset term | 0 | None) of a byte-slice value: S, &S[o..], &S[o..e]; offset None = not read"""
    t = deref_all(t)
    if is_call(t, 'Index::index', 'index::index') and len(t[2]) == 2:
        r = deref_all(t[2][1])
        if agg_variant(r) and r[1][1].split('::')[-1] in ('RangeFrom', 'Range') and r[2]:
            root, o = _slice_root(t[2][0])
            if o == 0:
                return root, strip_casts(r[2][0])
            return root, None
        if agg_variant(r) and r[1][1].split('::')[-1] in ('RangeTo', 'RangeToInclusive', 'RangeFull'):
            return _slice_root(t[2][0])
        return deref_all(t[2][0]), None
    return t, 0


def _header_source(t):
    """(S, o) when the header word is read_u32(S, o) (through `?`, ok(), unwrap_or_default()); None otherwise"""
    t = deref_all(strip_casts(t))
    for _ in range(6):
        x, _chain = unwrap_ok(t)
        x = deref_all(x)
        if is_call(x, 'Result::unwrap_or_default', 'Result::unwrap_or', 'Result::unwrap', 'Result::expect', 'Option::unwrap', 'Option::expect') and x[2]:
            t = x[2][0]
            continue
        t = x
        break
    if is_call(t, 'functions::read_u32') and len(t[2]) == 2:
        return deref_all(t[2][0]), strip_casts(t[2][1])
    return None


def w_pair(ctx, run, rule='R05.14', only=None, floor=None):
    """Every call that hands a header word together with the bytes it describes (iterate_array(value, header), strip_nulls_array(header,
    value), compare_array(left_header, left, ..), get_jentry_by_name(value, offset, header, ..)) must pass a header that was read from
    those very bytes: read_u32(V, 0) for the slice V (or V = S[4..] / S[o..] and read_u32(S, o)), or the caller's own (header, bytes)
    parameter pair.  A header of one container with the bytes of another walks the wrong number of entries at the wrong offsets."""
    f = ctx.facts
    fam = _pair_family(f)
    n_ok = 0
    for p, b in sorted(f.bodies.items()):
        if b.kind == 'Promoted' or (only is not None and not only(p)):
            continue
        callees = {t['callee'].get('resolved') or t['callee'].get('full', '') for _, t in b.calls()}
        if not any(called(c, *fam) for c in callees if c):
            continue
        from rules.editing import region_paths
        paths, loops = region_paths(b)
        entry_store = {}
        for q in Explorer(b, max_paths=4000).explore(start=0, stop=set(loops)):
            for k, v in q.store.items():
                entry_store.setdefault(k, []).append(v)
        own = fam.get(p.split('::{closure')[0]) if '::{closure' not in p else None

        def resolve_header(h, depth=0):
            """-> ('read', S, o) | ('param', slice param term, offset) | None"""
            src = _header_source(h)
            if src is not None:
                return ('read',) + src
            t = deref_all(strip_casts(h))
            if t[0] == 'loc' and len(t) > 2:
                t = deref_all(t[2])
            if t[0] == 'init' and own:
                for (hk, sk, ok_) in own:
                    if t[1] == hk:
                        return ('param', ('init', sk, b.name_of(sk)), ('init', ok_, b.name_of(ok_)) if ok_ else 0)
            if t[0] in ('init', 'hav') and depth < 2 and isinstance(t[1], int) and t[1] > b.argc:
                vals = entry_store.get(t[1]) or entry_store.get(('L', t[1])) or []
                rs = {repr(resolve_header(v, depth + 1)) for v in vals if isinstance(v, tuple)}
                if len(rs) == 1 and vals:
                    return resolve_header(vals[0], depth + 1)
            return None

        seen = set()
        good = bad = 0
        unk = []
        for q in paths:
            for e in q.calls():
                tg = [g_ for g_ in fam if called(e[1], g_)]
                if len(tg) != 1:
                    continue
                for (hk, sk, ok_) in fam[tg[0]]:
                    if max(hk, sk) - 1 >= len(e[2]):
                        continue
                    ha, sa = e[2][hk - 1], e[2][sk - 1]
                    key = (tg[0], hk, show(ha), show(sa))
                    if key in seen:
                        continue
                    seen.add(key)
                    short = tg[0].split('::')[-1]
                    r = resolve_header(ha)
                    vroot, voff = _slice_root(sa)
                    if r is None:
                        unk.append(f'{short}: header {show(ha)[:40]}')
                        continue
                    S = deref_all(r[1])

                    def settle(t, depth=0):
                        """a local carried into a loop region stands for whatever it held at the loop entry"""
                        if t[0] in ('init', 'hav') and isinstance(t[1], int) and t[1] > b.argc and depth < 3:
                            vals = [v for v in (entry_store.get(t[1]) or []) if isinstance(v, tuple)]
                            roots = {repr(_slice_root(v)[0]) for v in vals}
                            if vals and len(roots) == 1:
                                return settle(_slice_root(vals[0])[0], depth + 1)
                            return None
                        return t
                    S, vroot = settle(S), settle(vroot)
                    if S is None or vroot is None:
                        unk.append(f'{short}: header / bytes held in a local whose origin this rule does not read')
                        continue
                    same_root = (S[:2] == vroot[:2]) if S[0] == 'init' and vroot[0] == 'init' else (S == vroot)
                    if same_root:
                        good += 1          # same bytes; which offset of them the callee starts at is its W-INIT obligation
                        continue
                    # different values: is one of them a part of the other that this rule does not read?
                    if any(s_ == S or (S[0] == 'init' and s_[:2] == S[:2]) for s_ in subterms(vroot)) or any(s_ == vroot or (vroot[0] == 'init' and s_[:2] == vroot[:2]) for s_ in subterms(S)):
                        unk.append(f'{short}: header of {show(S)[:30]} with bytes {show(vroot)[:30]}')
                        continue
                    bad += 1
                    run.violation(rule, p, f'header-of-other-bytes[{short}]', f'{short} is called with the header word of `{show(S)[:60]}` and the bytes `{show(vroot)[:60]}`: the callee counts and '
                                  f'locates the entries of one container with the header of another', f'{b.file}:{b.line}')
        if unk and not bad:
            run.undecided(rule, p, 'header-pairs', f'{len(unk)} call(s) pass a header whose origin this rule does not read ({unk[0]}): not decided', f'{b.file}:{b.line}')
        elif good and not bad:
            run.proved(rule, p, 'header-pairs', f'{good} call(s) pass a header read from the very bytes it is passed with', f'{b.file}:{b.line}')
        n_ok += good
    if floor is not None:
        run.floor(rule, 'calls passing a (header, bytes) pair', n_ok, floor)


# ------------------------------------------------------------------ R05.18 the container iterators end only when they are exhausted

def r05_18(ctx, run, rule='R05.18', floor=3):
    """`next` of the container iterators (array elements, object keys, object entries) answers None only because the elements are used up
    (index >= count, or the queue of key entries is empty) or because an entry word could not be read.  A None decided by comparing a
    payload offset with the buffer length is read as well: `offset > len` can only hold for truncated input, but `offset >= len` also
    holds for a well-formed last element whose payload is empty (true / false / null / "" / [] at the end of the buffer) and silently
    drops it; any other reason for None is undecided."""
    f = ctx.facts
    n = 0
    for p, b in sorted(f.bodies.items()):
        if not (p.endswith('::next') and 'iterator::' in p and 'Iterator' in p) or b.kind == 'Promoted' or '{closure' in p:
            continue
        n += 1
        ps, capped = explore(b)
        loc = f'{b.file}:{b.line}'
        verdicts = []
        # which cursor fields are entry-word positions (read_u32(value, F)) and which are payload starts (value[F .. F + len])
        entry_fields, payload_fields = set(), set()
        for q in ps:
            for e in q.calls():
                if called(e[1], 'read_u32') and len(e[2]) == 2:
                    a_ = deref_all(strip_casts(e[2][1]))
                    if a_[0] == 'field':
                        entry_fields.add(a_[2])
                elif called(e[1], 'Index::index', 'index::index') and len(e[2]) == 2:
                    r_ = deref_all(e[2][1])
                    if agg_variant(r_) and r_[1][1].split('::')[-1] in ('Range', 'RangeFrom') and r_[2]:
                        a_ = deref_all(strip_casts(r_[2][0]))
                        if a_[0] == 'field':
                            payload_fields.add(a_[2])
        for q in ps:
            if q.end[0] != 'return' or q.ret is None:
                continue
            r = deref_all(q.ret)
            if is_call(r, 'FromResidual::from_residual'):
                continue                   # `?` on a failed read
            if not (agg_variant(r) and r[1][2] == 'None'):
                continue
            if not q.conds:
                verdicts.append(('bad', 'None is returned unconditionally'))
                continue
            c = q.conds[-1]
            t = deref_all(c[0])
            # exhaustion: idx >= length / pop_front() is None / a read failed
            if t[0] == 'discr' and deref_all(t[1])[0] == 'call' and canon(deref_all(t[1])[1]).split('::')[-1] in ('pop_front', 'pop', 'next', 'branch', 'ok', 'get', 'read_u32'):
                verdicts.append(('ok', 'queue / read exhausted'))
                continue
            if t[0] == 'bin' and t[1] in ('Ge', 'Gt', 'Le', 'Lt', 'Eq'):
                a, d = deref_all(strip_casts(t[2])), deref_all(strip_casts(t[3]))
                names = [x[2] for x in (a, d) if x[0] == 'field']
                haslen = [x for x in (a, d) if x[0] == 'len' or (x[0] == 'call' and called(x[1], 'slice::len', 'len'))]
                if len(names) == 2 and not haslen:
                    verdicts.append(('ok', f'{names[0]} against {names[1]}'))       # idx vs length: two fields of the iterator
                    continue
                if haslen and len(names) == 1 and isinstance(c[2], bool):
                    # offset OP len(value) (or len OP offset): does the None branch include offset == len ?
                    op = t[1]
                    off_left = a[0] == 'field'
                    holds = c[2]
                    # normalise to a relation "offset REL len" that holds on this path
                    rel = {'Ge': '>=', 'Gt': '>', 'Le': '<=', 'Lt': '<', 'Eq': '=='}[op]
                    if not off_left:
                        rel = {'>=': '<=', '>': '<', '<=': '>=', '<': '>', '==': '=='}[rel]
                    if not holds:
                        rel = {'>=': '<', '>': '<=', '<=': '>', '<': '>=', '==': '!='}[rel]
                    if rel == '>':
                        verdicts.append(('ok', f'{names[0]} beyond the end of the buffer (truncated input only)'))
                    elif rel in ('>=', '==') and names[0] in entry_fields and names[0] not in payload_fields:
                        verdicts.append(('ok', f'{names[0]} (an entry-word position) at or beyond the end of the buffer: no room for the 4-byte word (truncated input only)'))
                    elif rel in ('>=', '==') and names[0] not in payload_fields:
                        verdicts.append(('und', f'None under {names[0]} {rel} len, a field this rule does not see used as a payload start'))
                    elif rel in ('>=', '=='):
                        verdicts.append(('bad', f'None is returned when {names[0]} {rel} the buffer length: a last element with an empty payload (true, false, null, "", an empty '
                                                'container word) starts exactly at the end of the buffer and is dropped'))
                    else:
                        verdicts.append(('und', f'None under {names[0]} {rel} len'))
                    continue
            verdicts.append(('und', f'None is returned under {show(t)[:60]} {c[1]} {c[2]}'))
        bad = [w for v, w in verdicts if v == 'bad']
        und = [w for v, w in verdicts if v == 'und']
        if bad:
            run.violation(rule, p, 'none-paths', bad[0], loc)
        elif und or capped or not verdicts:
            run.undecided(rule, p, 'none-paths', (und[0] if und else 'no None-returning path was read') + ': whether the iterator can end before its elements are used up is not decided', loc)
        else:
            run.proved(rule, p, 'none-paths', f'{len(verdicts)} None path(s): exhaustion or a failed read only', loc)
    run.floor(rule, 'container iterator next() bodies', n, floor)
